"""S1  check_switch_no_match_exit   basics/control_flow.py::analyze_switch_stmt: when no case matches and there is no default, execution
                                  continues behind the switch; the frontier the handler returns must contain the switch statement (or the
                                  case statements) on the path where no `default_stmt` was seen."""
from __future__ import annotations

import ast

from .model import AnalysisError, RepoModel, const_str, norm, walk_no_nested


def check_switch_no_match_exit(model: RepoModel, rep, RID: str):
    m = model.module("basics/control_flow.py")
    fs = [f for f in m.all_funcs() if f.name == "analyze_switch_stmt"]
    if not fs:
        raise AnalysisError("control_flow: analyze_switch_stmt vanished")
    f = fs[0]
    params = [a.arg for a in f.node.args.args]
    cur = params[2] if len(params) > 2 else "current_stmt"
    key = f"{f.ref}::a switch without default has a no-match exit"
    rets = [r for r in walk_no_nested(f.node) if isinstance(r, ast.Return) and r.value is not None]
    if not rets:
        raise AnalysisError("analyze_switch_stmt: no return found")
    # the returned frontier expression (first element of the returned tuple) and every local list that flows into it
    ok = False
    mentions_default = any(const_str(c) == "default_stmt" for c in ast.walk(f.node) if isinstance(c, ast.Constant))
    for r in rets:
        front = r.value.elts[0] if isinstance(r.value, ast.Tuple) and r.value.elts else r.value
        names = {x.id for x in ast.walk(front) if isinstance(x, ast.Name)}
        # the switch statement itself is part of the frontier expression ...
        if cur in names:
            ok = True
        # ... or it is appended / added to a list that is part of it
        for c in walk_no_nested(f.node):
            if isinstance(c, ast.Call) and isinstance(c.func, ast.Attribute) and c.func.attr in ("append", "extend", "insert") and isinstance(c.func.value, ast.Name) \
                    and c.func.value.id in names and any(isinstance(x, ast.Name) and x.id == cur for a in c.args for x in ast.walk(a)):
                ok = True
            if isinstance(c, ast.AugAssign) and isinstance(c.target, ast.Name) and c.target.id in names and any(isinstance(x, ast.Name) and x.id == cur for x in ast.walk(c.value)):
                ok = True
    if ok and mentions_default:
        rep.holds(RID, key, m.rel, f.node.lineno, f"`{cur}` joins the returned frontier where no default_stmt was seen")
    elif ok:
        rep.holds(RID, key, m.rel, f.node.lineno, f"`{cur}` is part of the returned frontier")
    else:
        rep.violation(RID, key, m.rel, f.node.lineno,
                      f"{f.ref} returns the ends of the case bodies and the breaks only: for `switch (x) {{case 1: a = 1; break;}} b = a;` and x != 1 the "
                      f"run goes from the switch to `b = a` but the CFG has no such path (every path passes a case body), so `a`'s earlier "
                      f"definition never reaches `b = a`")
    rep.analysed["switch handlers"] = 1
