"""Cross-cutting loop and call-shape rules (second family; used by several property modules with their own rule id and file set).

Every rule here states a necessary condition whose violation changes what the loop or the call computes, is decided on the CFG /
def-use structure of the function (not on names or layout), and counts the instances it decided so that callers can refuse to
pass vacuously.

  L1  per-iteration values are consumed in their iteration      check_per_iteration_values
  L2  an index range is covered without gap or overlap          check_index_partitions
  L3  a counted walk advances                                   check_counted_walks
  L4  recursive calls forward the state they were given         check_recursion_forwarding
"""
from __future__ import annotations

import ast
from typing import Callable, Dict, Iterable, List, Optional, Set, Tuple

from .cfg import cfg_of
from .model import AnalysisError, Func, RepoModel, call_name, canon_key, enclosing_map, norm, walk_no_nested


def _names(node, ctx=None) -> Set[str]:
    return {n.id for n in ast.walk(node) if isinstance(n, ast.Name) and (ctx is None or isinstance(n.ctx, ctx))}


def _parents(root) -> Dict[int, ast.AST]:
    out = {}
    for n in ast.walk(root):
        for c in ast.iter_child_nodes(n):
            out[id(c)] = n
    return out


def _consuming_loads(expr_root, v: str, parents) -> List[ast.Name]:
    """Loads of `v` that hand its value on (argument, element of a literal, right-hand side, return value ...), as opposed to loads
    that only enrich the object `v` names: `v[k] = x`, `v.a = x`, the statement `v.method(...)`."""
    out = []
    for n in ast.walk(expr_root):
        if not (isinstance(n, ast.Name) and n.id == v and isinstance(n.ctx, ast.Load)):
            continue
        p = parents.get(id(n))
        if isinstance(p, (ast.Subscript, ast.Attribute)) and p.value is n:
            if isinstance(p.ctx, (ast.Store, ast.Del)):
                continue
            pp = parents.get(id(p))
            if isinstance(pp, ast.Call) and pp.func is p and isinstance(parents.get(id(pp)), ast.Expr):
                continue
        out.append(n)
    return out


def _is_fresh_per_iteration(value, targets: Set[str], v: str) -> bool:
    if v in _names(value):
        return False                                   # v = f(v, x): an accumulation, not a fresh value
    if isinstance(value, (ast.Dict, ast.List, ast.Set)) and not (getattr(value, "keys", None) or getattr(value, "elts", None)):
        return True
    return isinstance(value, ast.Call) and bool(_names(value, ast.Load) & targets)


def check_per_iteration_values(model: RepoModel, rep, RID: str, rels: Iterable[str], func_filter: Optional[Callable[[Func], bool]] = None,
                               adjudicated: Optional[Dict[str, str]] = None) -> int:
    """L1: a `for` loop that computes, in EVERY iteration, a fresh value from its loop variable (`v = f(<item>)`, `v = {}`) must hand that
    value on inside the iteration (append it, emit it, store it).  When the only consuming use sits after the loop, only the last
    iteration's value survives: every other element of the sequence is silently dropped."""
    adjudicated = {canon_key(k): r for k, r in (adjudicated or {}).items()}
    n_inst = 0
    for rel in rels:
        mod = model.module(rel)
        for f in mod.all_funcs():
            if func_filter is not None and not func_filter(f):
                continue
            loops = [L for L in walk_no_nested(f.node) if isinstance(L, ast.For)]
            if not loops:
                continue
            cfg = None
            parents = None
            for L in loops:
                targets = _names(L.target)
                cands: Dict[str, List[ast.Assign]] = {}
                for st in ast.walk(L):
                    if isinstance(st, ast.Assign) and len(st.targets) == 1 and isinstance(st.targets[0], ast.Name) \
                            and _is_fresh_per_iteration(st.value, targets, st.targets[0].id):
                        cands.setdefault(st.targets[0].id, []).append(st)
                if not cands:
                    continue
                if cfg is None:
                    cfg = cfg_of(f.node)
                    parents = _parents(f.node)
                head = cfg.node_of.get(id(L))
                if head is None or head not in cfg.loop_body_nodes:
                    continue
                body = cfg.loop_body_nodes[head]
                for v, defs in cands.items():
                    dnodes = {cfg.node_of[id(d)] for d in defs if id(d) in cfg.node_of}
                    dnodes = {d for d in dnodes if d in body}
                    if not dnodes or cfg.back_paths_all_pass(head, dnodes) is not None:
                        continue                         # some iteration does not compute v: a search loop, not a per-item value
                    # nested loops inside L that define v in their own iteration are judged as their own loop
                    inner = [L2 for L2 in ast.walk(L) if L2 is not L and isinstance(L2, (ast.For, ast.While)) and any(d in list(ast.walk(L2)) for d in defs)]
                    if inner:
                        continue
                    n_inst += 1
                    key = f"{rel}::{f.qualname}::`{v}`::computed per item of `{norm(L.iter)[:60]}`"
                    all_defs = {n for n in cfg.g.nodes if cfg.kind[n] in ("stmt", "iter", "with") and v in _stored_at(cfg, n)}
                    in_loop_use = None
                    after_use = None
                    for n in cfg.g.nodes:
                        uses = [u for e in cfg.exprs_at(n) for u in _consuming_loads(e, v, parents)]
                        if not uses:
                            continue
                        if n in body:
                            in_loop_use = in_loop_use or uses[0]
                        elif any(cfg.path_avoiding(d, n, all_defs - {d}) is not None for d in dnodes):
                            after_use = after_use or uses[0]
                    if in_loop_use is not None or after_use is None:
                        rep.holds(RID, key, rel, defs[0].lineno, "handed on inside the iteration" if in_loop_use is not None else "not used after the loop")
                    elif canon_key(key) in adjudicated:
                        rep.holds(RID, key, rel, defs[0].lineno, "adjudicated: " + adjudicated[canon_key(key)])
                    else:
                        rep.violation(RID, key, rel, after_use.lineno,
                                      f"{f.qualname} computes `{v} = {norm(defs[0].value)[:70]}` in every iteration of the loop at line {L.lineno} "
                                      f"but hands it on only after the loop (line {after_use.lineno}): of all the items of `{norm(L.iter)[:60]}` only "
                                      f"the last one contributes, the others are silently dropped")
    return n_inst


def _stored_at(cfg, n) -> Set[str]:
    st = cfg.stmt.get(n)
    out: Set[str] = set()
    if st is None:
        return out
    k = cfg.kind[n]
    if k == "iter":
        return _names(st.target)
    if k == "with":
        for it in st.items:
            if it.optional_vars is not None:
                out |= _names(it.optional_vars)
        return out
    if isinstance(st, ast.Assign):
        for t in st.targets:
            out |= {x.id for x in ast.walk(t) if isinstance(x, ast.Name) and isinstance(x.ctx, ast.Store)}
    elif isinstance(st, (ast.AugAssign, ast.AnnAssign)) and isinstance(st.target, ast.Name):
        out.add(st.target.id)
    return out


# ------------------------------------------------------------------------------------------------------------------ L5
READ_OPS = {"array_read": ("array", "index"), "field_read": ("receiver_object", "field"), "mem_read": ("address",), "slice_read": ("array", "start", "end", "step")}
WRITE_OPS = {"array_write": ("array", "index"), "field_write": ("receiver_object", "field"), "mem_write": ("address",), "slice_write": ("array", "start", "end", "step")}


def _gir_literals(fnode):
    """(operation, {attr: value node}, dict node) for every `{"<op>": {...}}` literal in the function"""
    out = []
    for d in walk_no_nested(fnode):
        if isinstance(d, ast.Dict) and len(d.keys) == 1 and isinstance(d.keys[0], ast.Constant) and isinstance(d.keys[0].value, str) \
                and isinstance(d.values[0], ast.Dict):
            items = {k.value: v for k, v in zip(d.values[0].keys, d.values[0].values) if isinstance(k, ast.Constant) and isinstance(k.value, str)}
            out.append((d.keys[0].value, items, d))
    return out


def check_augmented_operand_order(model: RepoModel, rep, RID: str, rels: Iterable[str], adjudicated: Optional[Dict[str, str]] = None) -> int:
    """L5: `t op= e` and `place op= e` lower to `t = t op e`: the OLD value (the target itself, or the temporary just read from the
    place that is written back afterwards) is the first operand, the right-hand side the second.  Decided per emitted assign_stmt
    literal that has two operands of which exactly one is the old value."""
    adjudicated = {canon_key(k): r for k, r in (adjudicated or {}).items()}
    n = 0
    for rel in rels:
        mod = model.module(rel)
        for f in mod.all_funcs():
            lits = _gir_literals(f.node)
            if not any(op == "assign_stmt" and "operand2" in i for op, i, _ in lits):
                continue
            # names are reused from branch to branch of these long handlers: read, assignment and write-back only belong together
            # when they are emitted by statements of one and the same block
            blk: Dict[int, int] = {}
            for holder in ast.walk(f.node):
                for fld in ("body", "orelse", "finalbody"):
                    b = getattr(holder, fld, None)
                    if isinstance(b, list):
                        for st in b:
                            if isinstance(st, ast.stmt):
                                for x in ast.walk(st) if not isinstance(st, (ast.If, ast.For, ast.While, ast.With, ast.Try, ast.FunctionDef)) else ():
                                    blk[id(x)] = id(b)
            reads = [(op, i, blk.get(id(d))) for op, i, d in lits if op in READ_OPS and "target" in i]
            writes = [(op, i, blk.get(id(d))) for op, i, d in lits if op in WRITE_OPS and "source" in i]
            for op, i, d in lits:
                if op != "assign_stmt" or not all(k in i for k in ("target", "operand", "operand2")):
                    continue
                here = blk.get(id(d))
                T, A, B = norm(i["target"]), norm(i["operand"]), norm(i["operand2"])
                old = set()
                if (A == T) != (B == T):
                    old.add(T)
                # read-modify-write of one place: <tmp> = read(place); T = <tmp> op e; write(place, T)
                for rop, ri, rb in reads:
                    wop = rop.replace("_read", "_write")
                    place = tuple(norm(ri[k]) for k in READ_OPS[rop] if k in ri)
                    for wo, wi, wb in writes:
                        if rb == wb == here and here is not None and wo == wop and tuple(norm(wi[k]) for k in WRITE_OPS[wo] if k in wi) == place and norm(wi["source"]) == T:
                            old.add(norm(ri["target"]))
                # read-modify-write: what is written back to the place is the UPDATED value (this statement's target), not the value read
                for rop, ri, rb in reads:
                    if rb != here or here is None or norm(ri["target"]) not in (A, B):
                        continue
                    wop = rop.replace("_read", "_write")
                    place = tuple(norm(ri[k]) for k in READ_OPS[rop] if k in ri)
                    for wo, wi, wb in writes:
                        if wb == here and wo == wop and tuple(norm(wi[k]) for k in WRITE_OPS[wo] if k in wi) == place and norm(wi["source"]) == norm(ri["target"]) \
                                and T != norm(ri["target"]):
                            n += 1
                            rep.violation(RID, f"{rel}::{f.qualname}::`{wop}({', '.join(place)}) <- {norm(wi['source'])}`::the updated value is written back", rel, d.lineno,
                                          f"{f.qualname} lowers `place op= e` as: read the place into `{norm(ri['target'])}`, compute `{T} = {A} <op> {B}`, then write "
                                          f"`{norm(wi['source'])}` -- the value that was READ -- back to the place: the update is lost (`a[i] += v` leaves a[i] unchanged)")
                if not old or ((A in old) == (B in old)):
                    continue
                n += 1
                key = f"{rel}::{f.qualname}::`{T} = {A} <op> {B}`::the old value is the first operand"
                if A in old:
                    rep.holds(RID, key, rel, d.lineno, f"operand `{A}` is the old value, operand2 `{B}` the right-hand side")
                elif canon_key(key) in adjudicated:
                    rep.holds(RID, key, rel, d.lineno, "adjudicated: " + adjudicated[canon_key(key)])
                else:
                    rep.violation(RID, key, rel, d.lineno,
                                  f"{f.qualname} lowers an augmented assignment to `{T} = {A} <op> {B}`: the old value `{B}` is the SECOND operand, "
                                  f"so `x -= y` computes y - x (and every non-commutative operator likewise); the sibling sites put it first")
    return n


# ------------------------------------------------------------------------------------------------------------------ L2
class _Counted:
    def __init__(self, loop, var, start, end, kind):
        self.loop, self.var, self.start, self.end, self.kind = loop, var, start, end, kind   # start/end: normalised text, end exclusive

    @property
    def final(self) -> str:
        """value of the loop variable after the loop has run to completion (at least one iteration for `for`)"""
        return self.end if self.kind == "while" else f"{self.end} - 1"


def _simple_assign_before(body_nodes: List[ast.AST], name: str, before_line: int) -> Optional[ast.AST]:
    best = None
    for st in body_nodes:
        if isinstance(st, ast.Assign) and len(st.targets) == 1 and isinstance(st.targets[0], ast.Name) and st.targets[0].id == name \
                and st.lineno < before_line and (best is None or st.lineno > best.lineno):
            best = st
    return best


def counted_loops(f: Func) -> List[_Counted]:
    out = []
    nodes = list(walk_no_nested(f.node))
    cfg = None
    for L in nodes:
        if isinstance(L, ast.For) and isinstance(L.target, ast.Name) and isinstance(L.iter, ast.Call) and isinstance(L.iter.func, ast.Name) \
                and L.iter.func.id == "range" and not L.iter.keywords and 1 <= len(L.iter.args) <= 3:
            a = L.iter.args
            if len(a) == 3 and not (isinstance(a[2], ast.Constant) and a[2].value == 1):
                continue
            start, end = ("0", norm(a[0])) if len(a) == 1 else (norm(a[0]), norm(a[1]))
            if any(isinstance(x, ast.Break) for x in ast.walk(L)):
                kind = "for-break"
            else:
                kind = "for"
            out.append(_Counted(L, L.target.id, start, end, kind))
        elif isinstance(L, ast.While) and isinstance(L.test, ast.Compare) and len(L.test.ops) == 1:
            l, op, r = L.test.left, L.test.ops[0], L.test.comparators[0]
            if isinstance(op, ast.Lt) and isinstance(l, ast.Name):
                v, end = l.id, norm(r)
            elif isinstance(op, ast.Gt) and isinstance(r, ast.Name):
                v, end = r.id, norm(l)
            else:
                continue
            if any(isinstance(x, ast.Break) for x in ast.walk(L)):
                continue
            incs = [st for st in ast.walk(L) if (isinstance(st, ast.AugAssign) and isinstance(st.target, ast.Name) and st.target.id == v
                                                 and isinstance(st.op, ast.Add) and isinstance(st.value, ast.Constant) and st.value.value == 1)
                    or (isinstance(st, ast.Assign) and len(st.targets) == 1 and isinstance(st.targets[0], ast.Name) and st.targets[0].id == v
                        and norm(st.value) in (f"{v} + 1", f"1 + {v}"))]
            others = [st for st in ast.walk(L) if st not in incs and isinstance(st, (ast.Assign, ast.AugAssign))
                      and v in {x.id for t in (st.targets if isinstance(st, ast.Assign) else [st.target]) for x in ast.walk(t) if isinstance(x, ast.Name)}]
            if not incs or others:
                continue
            if cfg is None:
                cfg = cfg_of(f.node)
            head = cfg.node_of.get(id(L))
            if head is None or cfg.back_paths_all_pass(head, {cfg.node_of[id(i)] for i in incs if id(i) in cfg.node_of}) is not None:
                continue
            init = _simple_assign_before(nodes, v, L.lineno)
            if init is None:
                continue
            out.append(_Counted(L, v, norm(init.value), end, "while"))
    return out


def check_index_partitions(model: RepoModel, rep, RID: str, rels: Iterable[str], func_filter: Optional[Callable[[Func], bool]] = None) -> int:
    """L2: when a sequence `S` is consumed by a counted loop over `S[i]`, i in [a, b), and LATER in the same function by a
    continuation -- a second counted loop over `S[j]` or a tail slice `S[e:]` whose start is computed from the first loop's variable or
    bound -- the continuation starts exactly at b.  One less processes an element twice, one more (or the final value of a `for`
    variable, which is b - 1) skips or repeats an element."""
    n = 0
    for rel in rels:
        mod = model.module(rel)
        for f in mod.all_funcs():
            if func_filter is not None and not func_filter(f):
                continue
            loops = counted_loops(f)
            if not loops:
                continue
            nodes = list(walk_no_nested(f.node))
            stores: Dict[str, List[int]] = {}
            for x in nodes:
                if isinstance(x, ast.Name) and isinstance(x.ctx, ast.Store):
                    stores.setdefault(x.id, []).append(x.lineno)

            def seqs_indexed(c: _Counted) -> Set[str]:
                return {norm(x.value) for x in ast.walk(c.loop) if isinstance(x, ast.Subscript) and isinstance(x.slice, ast.Name) and x.slice.id == c.var
                        and isinstance(x.ctx, ast.Load)}

            def value_at(e, line: int, first: _Counted) -> Optional[str]:
                """symbolic value of the start expression of a continuation"""
                if isinstance(e, ast.Name):
                    if e.id == first.var and not any(first.loop.end_lineno < ln < line for ln in stores.get(e.id, [])):
                        return first.final if first.kind != "for-break" else None
                    later = [ln for ln in stores.get(e.id, []) if first.loop.end_lineno < ln < line]
                    if not later:
                        return e.id                                    # unchanged since the first loop
                    d = _simple_assign_before(nodes, e.id, line)
                    if d is not None and d.lineno > first.loop.end_lineno and len(later) == 1:
                        return value_at(d.value, d.lineno, first)
                    return None
                return norm(e)

            for c in loops:
                for S in seqs_indexed(c):
                    related = {c.var} | _names(ast.parse(c.end, mode="eval"))
                    # continuations after the loop
                    conts = []
                    for c2 in loops:
                        if c2.loop.lineno > c.loop.end_lineno and S in seqs_indexed(c2):
                            if c2.kind == "while":
                                init = _simple_assign_before(nodes, c2.var, c2.loop.lineno)
                                conts.append((init.value, c2.loop.lineno, f"the loop at line {c2.loop.lineno}"))
                            else:
                                a = c2.loop.iter.args
                                conts.append((a[0] if len(a) > 1 else ast.Constant(0), c2.loop.lineno, f"the loop at line {c2.loop.lineno}"))
                    for x in nodes:
                        if isinstance(x, ast.Subscript) and isinstance(x.slice, ast.Slice) and x.slice.lower is not None and x.slice.upper is None \
                                and x.slice.step is None and norm(x.value) == S and x.lineno > c.loop.end_lineno:
                            conts.append((x.slice.lower, x.lineno, f"the tail slice `{norm(x)}`"))
                    for e, line, what in conts:
                        if not (_names(e) & related):
                            continue                                   # an independent pass over S, not a continuation
                        n += 1
                        key = f"{rel}::{f.qualname}::`{S}`::{what.split(' at line')[0].split(' `')[0]} continues where the loop over [{c.start}, {c.end}) stopped"
                        val = value_at(e, line, c)
                        if val is None:
                            rep.unknown(RID, key, rel, line, f"cannot express the start `{norm(e)}` of {what} in terms of the first loop's bound")
                        elif val == c.end:
                            rep.holds(RID, key, rel, line, f"{what} starts at `{norm(e)}` = {c.end}")
                        else:
                            rep.violation(RID, key, rel, line,
                                          f"{f.qualname} consumes `{S}` at indices [{c.start}, {c.end}) in the loop at line {c.loop.lineno}, and {what} "
                                          f"continues from `{norm(e)}`, which is {val} there, not {c.end}: "
                                          + ("an element is handled twice" if val.endswith("- 1") else "an element is handled by neither part"))
    return n


# ------------------------------------------------------------------------------------------------------------------ L3
def check_counted_walks(model: RepoModel, rep, RID: str, rels: Iterable[str], func_filter: Optional[Callable[[Func], bool]] = None) -> int:
    """L3: a loop that repeats its body a counted number of times without looking at the counter (`for _ in range(k)`) only makes
    progress through the variables it carries from one iteration to the next.  A cursor -- a variable the body both reads and
    re-assigns, and that is read after the loop -- must get a value computed from the cursor itself; when the new value depends on
    loop-invariant data only, every iteration after the first repeats the first one and `k` steps collapse into one."""
    n = 0
    for rel in rels:
        mod = model.module(rel)
        for f in mod.all_funcs():
            if func_filter is not None and not func_filter(f):
                continue
            for L in walk_no_nested(f.node):
                if not (isinstance(L, ast.For) and isinstance(L.iter, ast.Call) and isinstance(L.iter.func, ast.Name) and L.iter.func.id == "range"):
                    continue
                tnames = _names(L.target)
                body_loads = {x.id for b in L.body for x in ast.walk(b) if isinstance(x, ast.Name) and isinstance(x.ctx, ast.Load)}
                if tnames & body_loads:
                    continue
                deps: Dict[str, Set[str]] = {}
                for b in L.body:
                    for st in ast.walk(b):
                        if isinstance(st, ast.Assign):
                            for t in st.targets:
                                for x in ast.walk(t):
                                    if isinstance(x, ast.Name) and isinstance(x.ctx, ast.Store):
                                        deps.setdefault(x.id, set()).update(_names(st.value, ast.Load))
                        elif isinstance(st, ast.AugAssign) and isinstance(st.target, ast.Name):
                            deps.setdefault(st.target.id, set()).update(_names(st.value, ast.Load) | {st.target.id})
                        elif isinstance(st, ast.For):
                            for x in _names(st.target):
                                deps.setdefault(x, set()).update(_names(st.iter, ast.Load))
                after_loads = {x.id for x in walk_no_nested(f.node) if isinstance(x, ast.Name) and isinstance(x.ctx, ast.Load) and x.lineno > L.end_lineno}
                for w in sorted(deps):
                    if w not in body_loads or w not in after_loads:
                        continue
                    n += 1
                    seen, todo = set(), [w]
                    reach_self = False
                    while todo:
                        cur = todo.pop()
                        for d in deps.get(cur, ()):
                            if d == w:
                                reach_self = True
                            if d not in seen:
                                seen.add(d)
                                todo.append(d)
                    key = f"{rel}::{f.qualname}::`{w}`::cursor of the counted walk `for {norm(L.target)} in {norm(L.iter)}` advances"
                    if reach_self:
                        rep.holds(RID, key, rel, L.lineno, f"the new value of `{w}` is computed from `{w}`")
                    else:
                        rep.violation(RID, key, rel, L.lineno,
                                      f"{f.qualname} repeats the body of the loop at line {L.lineno} `{norm(L.iter)}` times, but the value it assigns to the "
                                      f"cursor `{w}` depends only on {sorted(deps[w])} -- never on `{w}` itself: every iteration after the first "
                                      f"recomputes the same value, so a walk of several steps stops after one")
    return n


# ------------------------------------------------------------------------------------------------------------------ L4
def check_recursion_forwarding(model: RepoModel, rep, RID: str, rels: Iterable[str], func_filter: Optional[Callable[[Func], bool]] = None) -> int:
    """L4: a recursive call that hands the state it was given down unchanged (passes a parameter as the very same parameter) hands ALL
    of it down: when it forwards some parameters verbatim and leaves out another, defaulted one that the function reads, the omitted
    parameter silently falls back to its default in the whole sub-tree below that call.  (A call that forwards nothing verbatim starts
    a fresh traversal on purpose and is not judged.)"""
    n = 0
    for rel in rels:
        mod = model.module(rel)
        for f in mod.all_funcs():
            if func_filter is not None and not func_filter(f):
                continue
            a = f.node.args
            params = [x.arg for x in a.posonlyargs + a.args]
            is_method = bool(params) and params[0] in ("self", "cls") and f.cls is not None
            pos = params[1:] if is_method else params
            nd = len(a.defaults)
            defaulted = set(params[len(params) - nd:]) if nd else set()
            defaulted |= {k.arg for k, d in zip(a.kwonlyargs, a.kw_defaults) if d is not None}
            if not defaulted:
                continue
            reads = {x.id for x in walk_no_nested(f.node) if isinstance(x, ast.Name) and isinstance(x.ctx, ast.Load)}
            for c in walk_no_nested(f.node):
                if not isinstance(c, ast.Call):
                    continue
                fn = c.func
                if not ((isinstance(fn, ast.Name) and fn.id == f.name and not is_method)
                        or (is_method and isinstance(fn, ast.Attribute) and fn.attr == f.name and isinstance(fn.value, ast.Name) and fn.value.id == params[0])):
                    continue
                if any(isinstance(x, ast.Starred) for x in c.args) or any(k.arg is None for k in c.keywords):
                    continue
                bound = {p: v for p, v in zip(pos, c.args)}
                bound.update({k.arg: k.value for k in c.keywords})
                verbatim = sorted(p for p, v in bound.items() if isinstance(v, ast.Name) and v.id == p and p in defaulted)
                if not verbatim:
                    continue
                n += 1
                omitted = sorted(p for p in defaulted if p not in bound and p in reads)
                key = f"{rel}::{f.qualname}::`{norm(c)[:90]}`::a forwarding recursive call forwards every state parameter"
                if omitted:
                    rep.violation(RID, key, rel, c.lineno,
                                  f"{f.qualname} calls itself at line {c.lineno} forwarding {verbatim} unchanged but not {omitted}: below this call "
                                  f"{omitted} silently fall back to their defaults, so the sub-tree is processed as if the traversal had started there")
                else:
                    rep.holds(RID, key, rel, c.lineno, f"forwards {verbatim}; nothing the function reads is left to its default")
    return n


def emitted_keys(f: Func) -> Set[str]:
    """string keys of the dict literals (and string subscripts) a lowering function writes: the GIR operations and attributes it emits"""
    out: Set[str] = set()
    for x in walk_no_nested(f.node):
        if isinstance(x, ast.Dict):
            out |= {k.value for k in x.keys if isinstance(k, ast.Constant) and isinstance(k.value, str)}
        elif isinstance(x, ast.Subscript) and isinstance(x.slice, ast.Constant) and isinstance(x.slice.value, str):
            out.add(x.slice.value)
    return out


def emits(keys: Iterable[str]) -> Callable[[Func], bool]:
    ks = set(keys)
    return lambda f: bool(emitted_keys(f) & ks)


# ------------------------------------------------------------------------------------------------------------------ L6
def check_ensure_before_get(model: RepoModel, rep, RID: str, rels: Iterable[str]) -> int:
    """L6: a memoised builder `F(x)` that stores its result with `<store>.save_K(x, ...)` and, for the things `x` depends on, first
    calls itself (`F(y)`) and then reads their result back with `<store>.get_K(y)` must make the recursive call BEFORE the read: read
    first and the dependency's result is whatever an earlier, unrelated visit left there -- usually nothing."""
    n = 0
    for rel in rels:
        mod = model.module(rel)
        for f in mod.all_funcs():
            saves = {c.func.attr[5:] for c in walk_no_nested(f.node) if isinstance(c, ast.Call) and isinstance(c.func, ast.Attribute) and c.func.attr.startswith("save_")}
            if not saves:
                continue
            selfcalls = [c for c in walk_no_nested(f.node) if isinstance(c, ast.Call) and ((isinstance(c.func, ast.Attribute) and c.func.attr == f.name
                         and isinstance(c.func.value, ast.Name) and c.func.value.id == "self") or (isinstance(c.func, ast.Name) and c.func.id == f.name)) and c.args]
            if not selfcalls:
                continue
            cfg = cfg_of(f.node)
            call_node = {}
            for nd in cfg.g.nodes:
                for c in cfg.calls_at(nd):
                    call_node[id(c)] = nd
            for g in walk_no_nested(f.node):
                if not (isinstance(g, ast.Call) and isinstance(g.func, ast.Attribute) and g.func.attr.startswith("get_") and g.func.attr[4:] in saves and g.args):
                    continue
                arg = norm(g.args[0])
                ensure = [c for c in selfcalls if norm(c.args[0]) == arg]
                if not ensure or id(g) not in call_node:
                    continue
                n += 1
                key = f"{rel}::{f.qualname}::`{norm(g)[:80]}`::read after the recursive call that produces it"
                if any(id(c) in call_node and call_node[id(c)] != call_node[id(g)] and cfg.dominates(call_node[id(c)], call_node[id(g)]) for c in ensure):
                    rep.holds(RID, key, rel, g.lineno, f"dominated by `{norm(ensure[0])[:70]}`")
                else:
                    rep.violation(RID, key, rel, g.lineno,
                                  f"{f.qualname} reads `{norm(g)[:80]}` before `{norm(ensure[0])[:70]}` has run: the result for `{arg}` is only saved by "
                                  f"that call, so on the first visit the read returns nothing and what `{arg}` contributes is missing from what is "
                                  f"saved here")
    return n


# ------------------------------------------------------------------------------------------------------------------ L7
def _param_roots(fnode, expr, params: Set[str], depth=0, seen=None) -> Set[str]:
    """parameters of `fnode` the value of `expr` is taken from (containers only: the index of a subscript does not count)"""
    seen = seen if seen is not None else set()
    if isinstance(expr, ast.Name):
        if expr.id in params:
            return {expr.id}
        if expr.id in seen or depth > 6:
            return set()
        seen.add(expr.id)
        out: Set[str] = set()
        for n in walk_no_nested(fnode):
            if isinstance(n, ast.Assign):
                for t in n.targets:
                    if isinstance(t, ast.Name) and t.id == expr.id:
                        out |= _param_roots(fnode, n.value, params, depth + 1, seen)
                    elif isinstance(t, (ast.Tuple, ast.List)) and any(isinstance(e, ast.Name) and e.id == expr.id for e in t.elts):
                        out |= _param_roots(fnode, n.value, params, depth + 1, seen)
            elif isinstance(n, ast.AnnAssign) and isinstance(n.target, ast.Name) and n.target.id == expr.id and n.value is not None:
                out |= _param_roots(fnode, n.value, params, depth + 1, seen)
            elif isinstance(n, (ast.For, ast.comprehension)) and any(isinstance(e, ast.Name) and e.id == expr.id for e in ast.walk(n.target)):
                out |= _param_roots(fnode, n.iter, params, depth + 1, seen)
        return out
    if isinstance(expr, ast.Subscript):
        return _param_roots(fnode, expr.value, params, depth, seen)
    if isinstance(expr, ast.Attribute):
        return _param_roots(fnode, expr.value, params, depth, seen)
    if isinstance(expr, ast.Call):
        out = set()
        if isinstance(expr.func, ast.Attribute):
            out |= _param_roots(fnode, expr.func.value, params, depth, seen)
        for a in expr.args:
            out |= _param_roots(fnode, a, params, depth, seen)
        return out
    if isinstance(expr, (ast.BinOp,)):
        return _param_roots(fnode, expr.left, params, depth, seen) | _param_roots(fnode, expr.right, params, depth, seen)
    return set()


def check_side_pairing(model: RepoModel, rep, RID: str, rels: Iterable[str], side_a=("summary", "callee"), side_b=("arg",)) -> int:
    """L7: functions that merge what a callee's summary says (side A) into the caller's argument state (side B) take the two as separate
    parameters, and so do the functions that call them.  At a call site where the callee has one parameter of each side and the caller
    hands over values that derive from its own parameters, the sides must not be crossed: summary-side data into the summary-side
    parameter, argument-side data into the argument-side parameter.  (Sides are read off the PARAMETER names of caller and callee --
    interface names -- never off locals.)"""
    def side(name: str) -> Optional[str]:
        low = name.lower()
        a = any(k in low for k in side_a)
        b = any(k in low for k in side_b) and not a
        return "A" if a else ("B" if b else None)
    n = 0
    seen_keys: Dict[str, int] = {}
    for rel in rels:
        mod = model.module(rel)
        for f in mod.all_funcs():
            # functions defined inside f are callable by bare name
            nested = {x.name: x for x in ast.walk(f.node) if isinstance(x, (ast.FunctionDef, ast.AsyncFunctionDef)) and x is not f.node}
            scopes = [f.node] + list(nested.values())
            for scope in scopes:
                sargs = scope.args
                sparams = {a.arg for a in sargs.posonlyargs + sargs.args + sargs.kwonlyargs} - {"self"}
                if not any(side(p_) for p_ in sparams):
                    continue
                for c in walk_no_nested(scope):
                    if not isinstance(c, ast.Call):
                        continue
                    callee = None
                    if isinstance(c.func, ast.Name) and c.func.id in nested:
                        callee = nested[c.func.id]
                        cparams = [a.arg for a in callee.args.posonlyargs + callee.args.args]
                    elif isinstance(c.func, ast.Attribute) and isinstance(c.func.value, ast.Name) and c.func.value.id == "self" and f.cls is not None:
                        m_ = model.find_method(f.cls, c.func.attr)
                        if m_ is None:
                            continue
                        callee = m_.node
                        cparams = [a.arg for a in callee.args.posonlyargs + callee.args.args][1:]
                    else:
                        continue
                    pa = [p_ for p_ in cparams if side(p_) == "A"]
                    pb = [p_ for p_ in cparams if side(p_) == "B"]
                    if len(pa) != 1 or len(pb) != 1:
                        continue
                    bound = dict(zip(cparams, c.args))
                    bound.update({k.arg: k.value for k in c.keywords if k.arg})
                    if pa[0] not in bound or pb[0] not in bound:
                        continue
                    ra = {side(r) for r in _param_roots(scope, bound[pa[0]], sparams)} - {None}
                    rb = {side(r) for r in _param_roots(scope, bound[pb[0]], sparams)} - {None}
                    if not ra or not rb:
                        continue
                    n += 1
                    key = f"{rel}::{f.qualname}::`{norm(c.func)}({pa[0]}=.., {pb[0]}=..)`::summary side and argument side are not crossed"
                    seen_keys[key] = seen_keys.get(key, 0) + 1
                    if seen_keys[key] > 1:
                        key += f" #{seen_keys[key]}"
                    if ra == {"B"} and rb == {"A"}:
                        rep.violation(RID, key, rel, c.lineno,
                                      f"{f.qualname} passes `{norm(bound[pa[0]])[:60]}` (taken from its argument-side parameter) as `{pa[0]}` and "
                                      f"`{norm(bound[pb[0]])[:60]}` (taken from its summary-side parameter) as `{pb[0]}`: the two sides are swapped, so "
                                      f"what the callee did to the object is treated as the caller's old state and vice versa")
                    else:
                        rep.holds(RID, key, rel, c.lineno, f"`{pa[0]}` <- {sorted(ra)}-side data, `{pb[0]}` <- {sorted(rb)}-side data")
    return n


# ------------------------------------------------------------------------------------------------------------------ L8
GROW_CALLS = ("add", "update", "append", "setdefault", "add_to_dict_with_default_set", "add_to_dict_with_default_list")


def check_mark_before_recursion(model: RepoModel, rep, RID: str, rels: Iterable[str]) -> int:
    """L8: a recursive function that protects itself against cycles with a memo (`if k in M: ... return/continue`, M handed down or kept
    on the object) must enter the current key into M BEFORE it calls itself for what the key refers to.  Marking after the descent
    is as good as not marking: on a cyclic object graph the recursion comes back to the same key while it is still unmarked and never
    ends (RecursionError), on a diamond-shaped graph every join is expanded once per path (exponential)."""
    n = 0
    for rel in rels:
        mod = model.module(rel)
        for f in mod.all_funcs():
            short = f.name.split(".")[-1]
            is_method = f.cls is not None and f.params[:1] == ["self"] and "." not in f.name
            rec_calls = [c for c in walk_no_nested(f.node) if isinstance(c, ast.Call) and (
                (isinstance(c.func, ast.Name) and c.func.id == short and not is_method) or
                (isinstance(c.func, ast.Attribute) and c.func.attr == short and isinstance(c.func.value, ast.Name) and c.func.value.id == "self" and is_method))]
            if not rec_calls:
                continue
            # memo guards: `k in M` / `k not in M` whose M is a parameter, a self attribute or a closure variable
            own_locals = {x.id for x in walk_no_nested(f.node) if isinstance(x, ast.Name) and isinstance(x.ctx, ast.Store)}
            memos: Dict[str, List[ast.Compare]] = {}
            for cmp_ in walk_no_nested(f.node):
                if isinstance(cmp_, ast.Compare) and len(cmp_.ops) == 1 and isinstance(cmp_.ops[0], (ast.In, ast.NotIn)):
                    M = cmp_.comparators[0]
                    if isinstance(M, ast.Name) and (M.id in f.params or M.id not in own_locals):
                        memos.setdefault(M.id, []).append(cmp_)
                    elif isinstance(M, ast.Attribute) and isinstance(M.value, ast.Name) and M.value.id == "self":
                        memos.setdefault(norm(M), []).append(cmp_)
            if not memos:
                continue
            cfg = cfg_of(f.node)
            for M, guards in sorted(memos.items()):
                def grows(nd) -> bool:
                    st = cfg.stmt.get(nd)
                    for c in cfg.calls_at(nd):
                        if isinstance(c.func, ast.Attribute) and c.func.attr in GROW_CALLS:
                            if norm(c.func.value) == M or any(norm(a) == M for a in c.args[:1]):
                                return True
                        if isinstance(c.func, ast.Name) and c.func.id in GROW_CALLS and any(norm(a) == M for a in c.args[:1]):
                            return True
                    if cfg.kind[nd] == "stmt" and isinstance(st, ast.Assign):
                        return any(isinstance(t, ast.Subscript) and norm(t.value) == M for t in st.targets)
                    return False
                marks = {nd for nd in cfg.g.nodes if grows(nd)}
                if not marks:
                    continue                          # a membership test on something this function never grows: not its memo
                # the memo has to be the one handed down (or shared through self / the closure)
                handed = [c for c in rec_calls if M.startswith("self.") or M not in f.params or any(norm(a) == M for a in list(c.args) + [k.value for k in c.keywords])]
                if not handed:
                    continue
                # guard must lead to an exit (return / continue) -- otherwise it is an ordinary lookup
                exits = any(isinstance(x, (ast.Return, ast.Continue)) for g in guards for i in walk_no_nested(f.node) if isinstance(i, ast.If) and any(y is g for y in ast.walk(i.test))
                            for x in ast.walk(i))
                if not exits:
                    continue
                # the memo only grows while the traversal runs: un-marking on the way back ("so that other branches may pass here again")
                # turns "already explored" into "on the current path" -- a region that leads nowhere is then explored once per path into it
                shrinks = [c for c in walk_no_nested(f.node) if isinstance(c, ast.Call) and isinstance(c.func, ast.Attribute) and c.func.attr in ("discard", "remove", "pop", "clear")
                           and norm(c.func.value) == M] + [d for d in walk_no_nested(f.node) if isinstance(d, ast.Delete) and any(
                               isinstance(t, ast.Subscript) and norm(t.value) == M for t in d.targets)]
                # ... in a SEARCH (the result of the recursive call is returned as soon as there is one).  A function that enumerates all
                # simple paths marks "on the current path" on purpose and hands nothing back from the recursion: not judged
                rec_results = {a.targets[0].id for a in walk_no_nested(f.node) if isinstance(a, ast.Assign) and isinstance(a.targets[0], ast.Name)
                               and any(a.value is r for r in rec_calls)}
                is_search = any(isinstance(r_, ast.Return) and r_.value is not None and (any(r_.value is c for c in rec_calls)
                                                                                       or (isinstance(r_.value, ast.Name) and r_.value.id in rec_results))
                                for r_ in walk_no_nested(f.node))
                n += 1
                key_s = f"{rel}::{f.qualname}::the memo `{M}` only grows during the traversal"
                if shrinks and not is_search:
                    rep.info(RID, key_s, rel, shrinks[0].lineno, "enumerates all simple paths: nodes are marked while they are on the current path, by design "
                                                                  "(nothing is returned from the recursive call)")
                elif shrinks:
                    rep.violation(RID, key_s, rel, shrinks[0].lineno,
                                  f"{f.qualname} removes entries from its memo (`{norm(shrinks[0])[:60]}`): a node is then marked only while it is on the current "
                                  f"path, so every dead-end region is re-explored once per path that leads into it -- exponential in the number of "
                                  f"diamond-shaped stages of the graph")
                else:
                    rep.holds(RID, key_s, rel, f.node.lineno, "no discard / remove / pop / clear / del on the memo")
                call_nodes = {}
                for nd in cfg.g.nodes:
                    for c in cfg.calls_at(nd):
                        if any(c is r for r in handed):
                            call_nodes[id(c)] = nd
                for c in handed:
                    nd = call_nodes.get(id(c))
                    if nd is None:
                        continue
                    n += 1
                    key = f"{rel}::{f.qualname}::`{norm(c)[:70]}`::the memo `{M}` is marked before the descent"
                    if nd in marks:
                        rep.holds(RID, key, rel, c.lineno, "the call itself enters the key")
                        continue
                    path = cfg.path_avoiding(cfg.ENTRY, nd, marks)
                    if path is None:
                        rep.holds(RID, key, rel, c.lineno, f"every path to the recursive call passes a store into `{M}`")
                    else:
                        rep.violation(RID, key, rel, c.lineno,
                                      f"{f.qualname} tests `{norm(guards[0])}` to stop at what it has already seen, but reaches the recursive call at line "
                                      f"{c.lineno} on a path that has not yet entered anything into `{M}` "
                                      f"({' -> '.join(cfg.describe_path(path)[-6:])}): on a cyclic object graph (a.next = b; b.next = a) the descent returns to "
                                      f"the same key while it is still unmarked and recurses without end")
    return n


# ------------------------------------------------------------------------------------------------------------------ L9
def check_vacuous_conditions(model: RepoModel, rep, RID: str, rels: Iterable[str]) -> int:
    """L9: `E != a or E != b` (a, b different) can only be false when a == b, `E == a and E == b` can only be true when a == b: as a
    test of "E is neither a nor b" / "E is a or b" it is a De Morgan slip that makes the guarded branch unconditional (or dead).
    Instances: every and/or with two or more (in)equalities; expected count of violations on a healthy tree: zero."""
    n = 0
    for rel in rels:
        mod = model.module(rel)
        for f in mod.all_funcs():
            for b in walk_no_nested(f.node):
                if not isinstance(b, ast.BoolOp):
                    continue
                want = ast.NotEq if isinstance(b.op, ast.Or) else ast.Eq
                if len([v for v in b.values if isinstance(v, ast.Compare) and len(v.ops) == 1 and isinstance(v.ops[0], (ast.Eq, ast.NotEq))]) < 2:
                    continue
                n += 1
                cmps = [v for v in b.values if isinstance(v, ast.Compare) and len(v.ops) == 1 and isinstance(v.ops[0], want)]
                seen: Dict[str, Tuple[str, ast.AST]] = {}
                bad = None
                for v in cmps:
                    for e, o in ((v.left, v.comparators[0]), (v.comparators[0], v.left)):
                        if isinstance(e, ast.Constant) or (isinstance(e, ast.UnaryOp) and isinstance(e.operand, ast.Constant)):
                            continue
                        k = norm(e)
                        if k in seen and seen[k][0] != norm(o):
                            bad = (e, seen[k][1], o)
                        seen.setdefault(k, (norm(o), o))
                key = f"{rel}::{f.qualname}::`{norm(b)[:90]}`::not vacuous"
                if bad:
                    e, o1, o2 = bad
                    always = "true" if isinstance(b.op, ast.Or) else "false"
                    rep.violation(RID, key, rel, b.lineno,
                                  f"`{norm(b)[:120]}` compares `{norm(e)}` with both `{norm(o1)}` and `{norm(o2)}` under `{'or' if isinstance(b.op, ast.Or) else 'and'}`: "
                                  f"it is {always} whenever `{norm(o1)}` and `{norm(o2)}` differ, so the branch it guards is "
                                  f"{'taken unconditionally' if always == 'true' else 'dead'} (a De Morgan slip: `and` / `or` exchanged)")
                else:
                    rep.holds(RID, key, rel, b.lineno, "the compared expressions differ")
    return n
