"""Cross-cutting accumulator discipline (used by several property modules with their own rule id and file set).

lian computes almost every result as a union: states of a symbol, callees of a call site, flows of an entry point,
statements of a frontier.  In the code this is always the same shape -- a local collection initialised empty before a
loop, grown inside the loop (append/extend/add/update/|=/+=) and read after it.  Two edits silently turn such a union
into "the first few" or "the last one":

  G1  an early exit (`break`, or `return` from inside the loop) that skips the remaining contributions;
  G2  re-binding the collection inside the loop (``acc = []`` / ``acc = f(x)``) so that what was gathered before is lost.

Both are decided per (function, loop, accumulator).  The early exits / re-bindings that exist on the pinned tree were read
one by one and are frozen in the caller's ADJUDICATED table (key: file::function::accumulator::guard) with the reason why
they do not lose contributions (bound check, first-match semantics of the analysed language, widening to unknown, ...).
Anything else is a VIOLATION of the caller's property: the caller only passes files whose unions are that property's result.
"""
from __future__ import annotations

import ast
from typing import Dict, Iterable, List, Optional, Set, Tuple

from .cfg import cfg_of
from .model import AnalysisError, Func, RepoModel, call_name, canon_key, enclosing_map, norm, walk_no_nested

GROW = ("append", "extend", "add", "update", "insert", "appendleft", "setdefault")
EMPTY_CTORS = ("set", "list", "dict", "SimpleSet", "OrderedDict", "defaultdict", "deque")


def _is_empty_collection(v) -> bool:
    if isinstance(v, (ast.List, ast.Set, ast.Tuple)) and not v.elts:
        return True
    if isinstance(v, ast.Dict) and not v.keys:
        return True
    if isinstance(v, ast.Call) and isinstance(v.func, ast.Name) and v.func.id in EMPTY_CTORS and not v.args:
        return True
    if isinstance(v, ast.Call) and isinstance(v.func, ast.Attribute) and v.func.attr in EMPTY_CTORS and not v.args:
        return True
    return False


def _assigned_names(st) -> List[str]:
    out = []
    if isinstance(st, ast.Assign):
        for t in st.targets:
            for x in ast.walk(t):
                if isinstance(x, ast.Name) and isinstance(x.ctx, ast.Store):
                    out.append(x.id)
    elif isinstance(st, ast.AnnAssign) and isinstance(st.target, ast.Name) and st.value is not None:
        out.append(st.target.id)
    return out


class Acc:
    def __init__(self, f: Func, loop, name: str, init, grows):
        self.f, self.loop, self.name, self.init, self.grows = f, loop, name, init, grows


def accumulators(f: Func) -> List[Acc]:
    """(loop, name) pairs of the shape described in the module docstring."""
    out: List[Acc] = []
    body_nodes = list(walk_no_nested(f.node))
    inits: Dict[str, List[ast.stmt]] = {}
    for n in body_nodes:
        if isinstance(n, (ast.Assign, ast.AnnAssign)) and getattr(n, "value", None) is not None and _is_empty_collection(n.value):
            for name in _assigned_names(n):
                inits.setdefault(name, []).append(n)
    if not inits:
        return out
    loads: Dict[str, List[ast.Name]] = {}
    for n in body_nodes:
        if isinstance(n, ast.Name) and isinstance(n.ctx, ast.Load) and n.id in inits:
            loads.setdefault(n.id, []).append(n)
    for L in body_nodes:
        if not isinstance(L, (ast.For, ast.While)):
            continue
        inside = {id(x) for x in ast.walk(L)}
        grows: Dict[str, List[ast.AST]] = {}
        for x in ast.walk(L):
            if isinstance(x, ast.Call) and isinstance(x.func, ast.Attribute) and isinstance(x.func.value, ast.Name) \
                    and x.func.attr in GROW and x.func.value.id in inits:
                grows.setdefault(x.func.value.id, []).append(x)
            if isinstance(x, ast.AugAssign) and isinstance(x.target, ast.Name) and x.target.id in inits \
                    and isinstance(x.op, (ast.BitOr, ast.Add)):
                grows.setdefault(x.target.id, []).append(x)
            if isinstance(x, ast.Assign) and isinstance(x.targets[0], ast.Subscript) and isinstance(x.targets[0].value, ast.Name) \
                    and x.targets[0].value.id in inits:
                grows.setdefault(x.targets[0].value.id, []).append(x)
        end = L.end_lineno or L.lineno
        for name, gs in grows.items():
            init = [i for i in inits[name] if id(i) not in inside and i.lineno < L.lineno]
            after = [x for x in loads.get(name, []) if id(x) not in inside and x.lineno > end]
            if init and after:
                out.append(Acc(f, L, name, init[-1], gs))
    return out


def _guard_text(node, loop, enc) -> str:
    cur = node
    while id(cur) in enc and enc[id(cur)] is not loop:
        par = enc[id(cur)]
        if isinstance(par, ast.If):
            t = " ".join(ast.unparse(par.test).split())
            return ("not (" + t + ")") if cur in par.orelse else t
        cur = par
    return "<unconditional>"


def _nearest_loop(node, enc):
    cur = node
    while id(cur) in enc:
        cur = enc[id(cur)]
        if isinstance(cur, (ast.For, ast.While)):
            return cur
        if isinstance(cur, (ast.FunctionDef, ast.AsyncFunctionDef, ast.Lambda)):
            return None
    return None


def _loop_local_names(L) -> Set[str]:
    out: Set[str] = set()
    if isinstance(L, ast.For):
        out |= {x.id for x in ast.walk(L.target) if isinstance(x, ast.Name)}
    for x in ast.walk(L):
        if isinstance(x, (ast.Assign, ast.AnnAssign, ast.AugAssign)):
            for t in (x.targets if isinstance(x, ast.Assign) else [x.target]):
                out |= {y.id for y in ast.walk(t) if isinstance(y, ast.Name) and isinstance(y.ctx, ast.Store)}
        if isinstance(x, (ast.For, ast.comprehension)):
            out |= {y.id for y in ast.walk(x.target) if isinstance(y, ast.Name)}
    return out


def _contribution_is_loop_invariant(a: "Acc") -> bool:
    """Every grow of the accumulator inside the loop adds something that does not depend on the loop's own variables: further
    iterations could only add the same element again, so leaving early loses nothing (`for s in states: if match(rule, s):
    out.append(rule); break`)."""
    local = _loop_local_names(a.loop) - {a.name}
    for g in a.grows:
        if isinstance(g, ast.Call):
            vals = list(g.args) + [k.value for k in g.keywords]
        elif isinstance(g, ast.AugAssign):
            vals = [g.value]
        elif isinstance(g, ast.Assign):
            vals = [g.value, g.targets[0].slice]
        else:
            return False
        for v in vals:
            if any(isinstance(y, ast.Name) and y.id in local for y in ast.walk(v)):
                return False
    return True


def check_accumulators(model: RepoModel, rep, RID: str, rels: Iterable[str], adjudicated: Dict[str, str],
                       what_is_lost: str, min_instances: int, classes: Optional[Dict[str, Set[str]]] = None,
                       skip_funcs: Optional[Set[str]] = None, declare: bool = True, widening=None):
    """Run G1 and G2 over the functions of ``rels`` (optionally only the named classes of a file).

    adjudicated: key -> reason, key = "<rel>::<qualname>::<acc>::exit <guard>" or "<rel>::<qualname>::<acc>::rebound <stmt>".
    One HOLDS instance per function with accumulators, one VIOLATION per offending (accumulator, exit/re-binding)."""
    if declare:
        rep.rule(RID, "unions stay unions: a collection that is initialised empty, grown inside a loop and read after it is neither "
                      "abandoned half-way (break / return inside the loop) nor re-bound inside the loop, except at the sites read and "
                      "frozen with a reason; " + what_is_lost, min_instances)
    used_adj: Set[str] = set()
    adjudicated = {canon_key(k): v for k, v in adjudicated.items()}     # insensitive to local-variable names
    n_acc = 0
    for rel in rels:
        mod = model.module(rel)
        for f in mod.all_funcs():
            if classes and rel in classes and (f.cls is None or f.cls.name not in classes[rel]):
                continue
            if skip_funcs and f.qualname in skip_funcs:
                continue
            accs = accumulators(f)
            if not accs:
                continue
            n_acc += len(accs)
            enc = enclosing_map(f.node)
            cfg = None
            problems = 0
            seen_keys: Set[str] = set()
            for a in accs:
                L = a.loop
                # ---------------- G1
                for x in ast.walk(L):
                    if isinstance(x, ast.Break):
                        if _nearest_loop(x, enc) is not L:
                            continue
                    elif isinstance(x, ast.Return):
                        # a return nested in an inner function does not count
                        cur, nested = x, False
                        while id(cur) in enc and enc[id(cur)] is not L:
                            cur = enc[id(cur)]
                            if isinstance(cur, (ast.FunctionDef, ast.AsyncFunctionDef, ast.Lambda)):
                                nested = True
                        if nested:
                            continue
                        # returning the accumulator itself hands over what was gathered so far together with the decision to stop
                    else:
                        continue
                    g = _guard_text(x, L, enc)
                    kind = "break" if isinstance(x, ast.Break) else "return"
                    key = f"{rel}::{f.qualname}::`{a.name}`::{kind} under `{g}`"
                    if key in seen_keys:
                        continue
                    seen_keys.add(key)
                    if isinstance(x, ast.Break) and _contribution_is_loop_invariant(a):
                        continue
                    if widening is not None:
                        par = enc[id(x)]
                        blk = next((b for b in (getattr(par, "body", None), getattr(par, "orelse", None), getattr(par, "finalbody", None))
                                    if isinstance(b, list) and x in b), [])
                        guards = []
                        cur = x
                        while id(cur) in enc and enc[id(cur)] is not L:
                            cur = enc[id(cur)]
                            if isinstance(cur, ast.If):
                                guards.append(" ".join(ast.unparse(cur.test).split()))
                        if widening(x, guards, blk[:blk.index(x)] if x in blk else [], f.node):
                            continue
                    if canon_key(key) in adjudicated:
                        used_adj.add(canon_key(key))
                        rep.info(RID, key, rel, x.lineno, "adjudicated: " + adjudicated[canon_key(key)])
                        continue
                    problems += 1
                    rep.violation(RID, key, rel, x.lineno,
                                  f"{f.qualname} gathers `{a.name}` in the loop at line {L.lineno} and reads it afterwards, but `{kind}` under "
                                  f"`{g[:90]}` leaves the loop before the remaining elements have contributed: {what_is_lost}")
                # ---------------- G2
                rebinds = [st for st in ast.walk(L) if isinstance(st, (ast.Assign, ast.AnnAssign)) and a.name in _assigned_names(st)]
                if rebinds:
                    if cfg is None:
                        cfg = cfg_of(f.node)
                    all_defs = [st for st in walk_no_nested(f.node) if isinstance(st, (ast.Assign, ast.AnnAssign, ast.AugAssign))
                                and (a.name in _assigned_names(st))]
                    end = L.end_lineno or L.lineno
                    inside = {id(y) for y in ast.walk(L)}
                    uses_after = []
                    for st in walk_no_nested(f.node):
                        if isinstance(st, ast.stmt) and id(st) not in inside and st.lineno > end:
                            try:
                                n = cfg.node(st)
                            except Exception:
                                continue
                            if any(isinstance(y, ast.Name) and y.id == a.name and isinstance(y.ctx, ast.Load)
                                   for e in cfg.exprs_at(n) for y in ast.walk(e)):
                                uses_after.append((st, n))
                    for rb in rebinds:
                        try:
                            dn = cfg.node(rb)
                        except Exception:
                            continue
                        avoid = set()
                        for od in all_defs:
                            if od is rb:
                                continue
                            try:
                                avoid.add(cfg.node(od))
                            except Exception:
                                pass
                        reach = next(((st, n) for st, n in uses_after if cfg.path_avoiding(dn, n, avoid) is not None), None)
                        if reach is None:
                            continue
                        key = f"{rel}::{f.qualname}::`{a.name}`::rebound `{" ".join(ast.unparse(rb).split())}`"
                        if key in seen_keys:
                            continue
                        seen_keys.add(key)
                        rhs = rb.value
                        if any(isinstance(y, ast.Name) and y.id == a.name and isinstance(y.ctx, ast.Load) for y in ast.walk(rhs)):
                            continue        # threading: the new value is computed from the old one
                        if widening is not None:
                            par = enc[id(rb)]
                            blk = next((b for b in (getattr(par, "body", None), getattr(par, "orelse", None)) if isinstance(b, list) and rb in b), [])
                            if widening(rb, [], blk[:blk.index(rb) + 1] if rb in blk else [rb], f.node):
                                continue
                        if canon_key(key) in adjudicated:
                            used_adj.add(canon_key(key))
                            rep.info(RID, key, rel, rb.lineno, "adjudicated: " + adjudicated[canon_key(key)])
                            continue
                        problems += 1
                        rep.violation(RID, key, rel, rb.lineno,
                                      f"{f.qualname} grows `{a.name}` in the loop at line {L.lineno} but also re-binds it there (`{norm(rb)[:70]}`), "
                                      f"and that value reaches the read at line {reach[0].lineno}: what earlier iterations gathered is thrown "
                                      f"away, only the last iteration counts: {what_is_lost}")
            if problems == 0:
                names = sorted({a.name for a in accs})
                rep.holds(RID, f"{rel}::{f.qualname}::{len(names)} accumulator(s) run to completion", rel, f.node.lineno,
                          ", ".join(names)[:160])
    n_it = check_oneshot_iterators(model, rep, RID, rels, classes)
    rep.analysed[f"one-shot iterators bound outside a loop ({RID})"] = n_it
    rep.analysed[f"accumulators ({RID})"] = n_acc
    stale = sorted(set(adjudicated) - used_adj)
    if stale:
        rep.analysed[f"adjudicated sites no longer present ({RID})"] = stale
    return n_acc


ONE_SHOT_CALLS = ("iter", "map", "filter", "zip", "reversed", "enumerate")


def check_oneshot_iterators(model: RepoModel, rep, RID: str, rels: Iterable[str], classes: Optional[Dict[str, Set[str]]] = None) -> int:
    """G3: a generator expression (or map/filter/zip/iter object) bound to a local *outside* a loop and consumed *inside* it is empty
    from the second iteration on -- every later iteration silently sees no elements."""
    n = 0
    for rel in rels:
        mod = model.module(rel)
        for f in mod.all_funcs():
            if classes and rel in classes and (f.cls is None or f.cls.name not in classes[rel]):
                continue
            gens: Dict[str, ast.stmt] = {}
            for st in walk_no_nested(f.node):
                if isinstance(st, ast.Assign) and len(st.targets) == 1 and isinstance(st.targets[0], ast.Name):
                    v = st.value
                    if isinstance(v, ast.GeneratorExp) or (isinstance(v, ast.Call) and isinstance(v.func, ast.Name) and v.func.id in ONE_SHOT_CALLS):
                        gens[st.targets[0].id] = st
            if not gens:
                continue
            enc = enclosing_map(f.node)
            for name, d in gens.items():
                n += 1
                # loops that do not contain the binding
                for L in walk_no_nested(f.node):
                    if not isinstance(L, (ast.For, ast.While)) or any(x is d for x in ast.walk(L)):
                        continue
                    if L.lineno < d.lineno:
                        continue
                    uses = [x for x in ast.walk(L) if isinstance(x, ast.Name) and x.id == name and isinstance(x.ctx, ast.Load)]
                    # the loop's own iterable is consumed once, that is fine
                    uses = [u for u in uses if not (isinstance(L, ast.For) and any(y is u for y in ast.walk(L.iter)))]
                    if uses:
                        key = f"{rel}::{f.qualname}::`{name}`::one-shot iterator consumed inside a loop"
                        rep.violation(RID, key, rel, uses[0].lineno,
                                      f"{f.qualname} binds `{name}` to a one-shot iterator (`{norm(d.value)[:70]}`, line {d.lineno}) outside the loop at "
                                      f"line {L.lineno} and consumes it inside: it is exhausted after the first iteration, so every later "
                                      f"iteration sees no elements and contributes nothing")
                        break
    return n


def check_memo_keys(model: RepoModel, rep, RID: str, rels: Iterable[str], declare_text: Optional[str] = None, min_instances: int = 0) -> int:
    """G4: a method that memoises its result in a dict attribute (`if k in self.C: return self.C[k]` ... `self.C[k] = r`) must key the
    memo by everything the computation reads from its parameters.  An input that only enters the key through a lossy function
    (basename, lower, len, ...) or not at all makes two different calls share one answer."""
    if declare_text is not None:
        rep.rule(RID, declare_text, min_instances)
    n = 0
    for rel in rels:
        mod = model.module(rel)
        for f in mod.all_funcs():
            if f.cls is None:
                continue
            # memo lookups:  if K in self.C: return self.C[K]
            for st in walk_no_nested(f.node):
                if not (isinstance(st, ast.If) and isinstance(st.test, ast.Compare) and len(st.test.ops) == 1 and isinstance(st.test.ops[0], ast.In)
                        and isinstance(st.test.comparators[0], ast.Attribute) and isinstance(st.test.comparators[0].value, ast.Name)
                        and st.test.comparators[0].value.id == "self" and any(isinstance(b, ast.Return) for b in st.body)):
                    continue
                cache = st.test.comparators[0].attr
                kexpr = st.test.left
                stores = [x for x in walk_no_nested(f.node) if isinstance(x, ast.Assign) and isinstance(x.targets[0], ast.Subscript)
                          and isinstance(x.targets[0].value, ast.Attribute) and x.targets[0].value.attr == cache]
                if not stores:
                    continue
                n += 1
                kdef = kexpr
                if isinstance(kexpr, ast.Name):
                    ds = [a.value for a in walk_no_nested(f.node) if isinstance(a, ast.Assign) and isinstance(a.targets[0], ast.Name) and a.targets[0].id == kexpr.id]
                    kdef = ds[0] if len(ds) == 1 else kexpr
                elems = list(kdef.elts) if isinstance(kdef, ast.Tuple) else [kdef]
                covered = {norm(e) for e in elems}
                params = set(f.params[1:])
                covered_params = {e.id for e in elems if isinstance(e, ast.Name) and e.id in params}
                # inputs read by the computation (after the lookup)
                reads: Dict[str, int] = {}
                for x in walk_no_nested(f.node):
                    if getattr(x, "lineno", 0) <= st.lineno:
                        continue
                    if isinstance(x, ast.Attribute) and isinstance(x.value, ast.Name) and x.value.id in params and isinstance(x.ctx, ast.Load):
                        reads.setdefault(norm(x), x.lineno)
                    if isinstance(x, ast.Name) and x.id in params and isinstance(x.ctx, ast.Load):
                        pass
                missing = sorted(r for r in reads if r not in covered and r.split(".")[0] not in covered_params)
                key = f"{rel}::{f.qualname}::memo self.{cache} is keyed by every input"
                if missing:
                    rep.violation(RID, key, rel, st.lineno,
                                  f"{f.qualname} returns a memoised answer for key `{norm(kdef)[:80]}`, but the computation also reads {missing}: two "
                                  f"calls that agree on the key and differ there (two files of the same name in different directories) share the "
                                  f"answer computed for the first one")
                else:
                    rep.holds(RID, key, rel, st.lineno, f"key `{norm(kdef)[:80]}` covers {sorted(reads)}")
    return n


def check_attr_reset_granularity(model: RepoModel, rep, RID: str, rels: Iterable[str]) -> int:
    """G5: state kept on the object (`self.A`) that a method reads AFTER one of its loops -- to persist or return what the iterations
    gathered -- must not be re-created inside that loop: `self.A = <fresh object>` per iteration resets it at the wrong granularity and
    only what the last iteration gathered survives.  Instances: every attribute of self read after a loop whose body calls methods of
    self (the iterations can feed it); it holds when no `self.A = <constructor call or empty literal>` sits inside that loop."""
    n = 0
    for rel in rels:
        mod = model.module(rel)
        for f in mod.all_funcs():
            if f.cls is None:
                continue
            loops = sorted((L for L in walk_no_nested(f.node) if isinstance(L, (ast.For, ast.While))), key=lambda L: L.lineno)
            for ordinal, L in enumerate(loops, 1):
                if not any(isinstance(c, ast.Call) and isinstance(c.func, ast.Attribute) and isinstance(c.func.value, ast.Name) and c.func.value.id == "self"
                           for c in ast.walk(L)):
                    continue
                after: Dict[str, ast.AST] = {}
                for x in walk_no_nested(f.node):
                    if isinstance(x, ast.Attribute) and isinstance(x.value, ast.Name) and x.value.id == "self" and isinstance(x.ctx, ast.Load) \
                            and x.lineno > L.end_lineno and not any(x is y for y in ast.walk(L)):
                        after.setdefault(x.attr, x)
                fresh: Dict[str, ast.Assign] = {}
                for st in ast.walk(L):
                    if isinstance(st, ast.Assign):
                        for tg in st.targets:
                            if isinstance(tg, ast.Attribute) and isinstance(tg.value, ast.Name) and tg.value.id == "self":
                                v = st.value
                                if _is_empty_collection(v) or (isinstance(v, ast.Call) and isinstance(v.func, ast.Name) and v.func.id[:1].isupper()
                                                               and not any(isinstance(x, ast.Attribute) and x.attr == tg.attr for x in ast.walk(v))):
                                    fresh[tg.attr] = st
                for attr, use in sorted(after.items()):
                    # only state objects: attributes that are called upon or whose members are read (`self.A.m()`, `self.A.b`)
                    n += 1
                    key = f"{rel}::{f.qualname}::`self.{attr}` read after loop #{ordinal}::not re-created inside the loop"
                    if attr in fresh:
                        st = fresh[attr]
                        rep.violation(RID, key, rel, st.lineno,
                                      f"{f.qualname} re-creates `self.{attr}` in every iteration of the loop at line {L.lineno} (`{norm(st)[:60]}`) and reads it "
                                      f"after the loop (line {use.lineno}, `{norm(enclosing_stmt_text(f.node, use))[:90]}`): what the earlier "
                                      f"iterations gathered there is thrown away, only the last iteration's content is handed on")
                    else:
                        rep.holds(RID, key, rel, use.lineno, "created outside the loop")
    return n


def enclosing_stmt_text(fnode, node):
    enc = enclosing_map(fnode)
    cur = node
    while id(cur) in enc and not isinstance(cur, ast.stmt):
        cur = enc[id(cur)]
    return cur


MUTATORS = ("add", "append", "extend", "update", "insert", "pop", "popitem", "remove", "discard", "clear", "setdefault", "appendleft")


def check_shared_class_state(model: RepoModel, rep, RID: str, rels: Iterable[str]) -> int:
    """G6: a mutable object bound at class level (`cache: dict = {}` in the class body) is ONE object shared by every instance.  That is
    fine for constant tables that are only read; it silently couples instances as soon as a method writes into it through `self`
    (`self.cache[k] = v`, `self.cache.add(x)`): what one instance records, every other instance sees -- per-pair, per-frame, per-file
    state stops being per anything.  (Dataclass fields with `default_factory` are per instance and are not judged.)"""
    n = 0
    for rel in rels:
        mod = model.module(rel)
        for ci in mod.classes.values():
            for st in ci.node.body:
                tgt = val = None
                if isinstance(st, ast.Assign) and len(st.targets) == 1 and isinstance(st.targets[0], ast.Name):
                    tgt, val = st.targets[0].id, st.value
                elif isinstance(st, ast.AnnAssign) and isinstance(st.target, ast.Name) and st.value is not None:
                    tgt, val = st.target.id, st.value
                if tgt is None:
                    continue
                mutable = isinstance(val, (ast.Dict, ast.List, ast.Set)) or (isinstance(val, ast.Call) and isinstance(val.func, ast.Name)
                                                                             and val.func.id in EMPTY_CTORS)
                if not mutable:
                    continue
                n += 1
                key = f"{rel}::{ci.name}.{tgt}::class-level mutable object is not written through self"
                # rebinding in __init__ (`self.x = {}`) gives every instance its own object again
                init = ci.methods.get("__init__")
                rebound = init is not None and any(isinstance(a, ast.Assign) and any(isinstance(t, ast.Attribute) and t.attr == tgt and isinstance(t.value, ast.Name)
                                                                                       and t.value.id == "self" for t in a.targets) for a in walk_no_nested(init.node))
                writes = []
                for f in ci.methods.values():
                    for x in walk_no_nested(f.node):
                        if isinstance(x, (ast.Assign, ast.AugAssign, ast.Delete)):
                            for t in (x.targets if isinstance(x, (ast.Assign, ast.Delete)) else [x.target]):
                                b = t
                                while isinstance(b, ast.Subscript):
                                    b = b.value
                                if b is not t and isinstance(b, ast.Attribute) and b.attr == tgt and isinstance(b.value, ast.Name) and b.value.id == "self":
                                    writes.append(x)
                        if isinstance(x, ast.Call) and isinstance(x.func, ast.Attribute) and x.func.attr in MUTATORS and isinstance(x.func.value, ast.Attribute) \
                                and x.func.value.attr == tgt and isinstance(x.func.value.value, ast.Name) and x.func.value.value.id == "self":
                            writes.append(x)
                if writes and not rebound:
                    rep.violation(RID, key, rel, st.lineno,
                                  f"`{tgt} = {norm(val)[:30]}` in the body of class {ci.name} is one object for all instances, and `{norm(writes[0])[:70]}` "
                                  f"(line {writes[0].lineno}) writes into it through self: every {ci.name}() shares what any of them records, so state that "
                                  f"is meant to start empty per instance carries over from one to the next")
                else:
                    rep.holds(RID, key, rel, st.lineno, "re-bound per instance in __init__" if rebound else "only read (a constant table)")
    return n


def check_fresh_instance_state(model: RepoModel, rep, RID: str, rel: str, cname: str) -> int:
    """a freshly constructed <cname> starts empty: every container its methods write into through self is bound in __init__ (to a new
    object), not inherited from the class body or from a previous instance"""
    ci = model.module(rel).classes.get(cname)
    if ci is None:
        raise AnalysisError(f"{rel}: class {cname} vanished")
    init = ci.methods.get("__init__")
    written: Dict[str, ast.AST] = {}
    for f in ci.methods.values():
        for x in walk_no_nested(f.node):
            if isinstance(x, (ast.Assign, ast.AugAssign, ast.Delete)):
                for t in (x.targets if isinstance(x, (ast.Assign, ast.Delete)) else [x.target]):
                    b = t
                    while isinstance(b, ast.Subscript):
                        b = b.value
                    if b is not t and isinstance(b, ast.Attribute) and isinstance(b.value, ast.Name) and b.value.id == "self":
                        written.setdefault(b.attr, x)
            if isinstance(x, ast.Call) and isinstance(x.func, ast.Attribute) and x.func.attr in MUTATORS and isinstance(x.func.value, ast.Attribute) \
                    and isinstance(x.func.value.value, ast.Name) and x.func.value.value.id == "self":
                written.setdefault(x.func.value.attr, x)
    bound = {}
    if init is not None:
        for a in walk_no_nested(init.node):
            if isinstance(a, (ast.Assign, ast.AnnAssign)):
                for t in (a.targets if isinstance(a, ast.Assign) else [a.target]):
                    if isinstance(t, ast.Attribute) and isinstance(t.value, ast.Name) and t.value.id == "self":
                        bound[t.attr] = a
    n = 0
    for attr, w in sorted(written.items()):
        n += 1
        key = f"{rel}::{cname}.{attr}::created per instance"
        if attr in bound:
            rep.holds(RID, key, rel, bound[attr].lineno, f"bound in __init__ (`{norm(bound[attr])[:60]}`)")
        else:
            rep.violation(RID, key, rel, w.lineno,
                          f"{cname} writes into `self.{attr}` (`{norm(w)[:70]}`) but __init__ does not create it: the container lives on the class (or "
                          f"is created elsewhere) and is shared by every {cname}(), so an instance that is supposed to start empty sees what earlier "
                          f"instances recorded")
    return n


def check_dict_merge_in_loops(model: RepoModel, rep, RID: str, rels: Iterable[str]) -> int:
    """G7: a dict that is initialised empty before a loop, filled inside it and read after it collects, per key, what EVERY iteration
    contributes (the per-field state sets of all exits of a callee, of all versions of an object).  `acc.update(other)` keeps, for a key
    that two iterations contribute to, only the LAST contribution; the union helpers (add_to_dict_with_default_set, setdefault(..).update)
    keep both.  Instances: every such dict accumulator in the given files; on the pinned tree none is filled with a bare update()."""
    n = 0
    for rel in rels:
        mod = model.module(rel)
        for f in mod.all_funcs():
            inits = {a.targets[0].id: a for a in walk_no_nested(f.node) if isinstance(a, ast.Assign) and len(a.targets) == 1 and isinstance(a.targets[0], ast.Name)
                     and isinstance(a.value, ast.Dict) and not a.value.keys}
            if not inits:
                continue
            for L in walk_no_nested(f.node):
                if not isinstance(L, (ast.For, ast.While)):
                    continue
                for name, init in inits.items():
                    if not (init.lineno < L.lineno):
                        continue
                    grows = [c for c in ast.walk(L) if isinstance(c, ast.Call) and (
                        (isinstance(c.func, ast.Attribute) and c.func.attr in ("update", "setdefault") and isinstance(c.func.value, ast.Name) and c.func.value.id == name)
                        or (c.args and isinstance(c.args[0], ast.Name) and c.args[0].id == name and (call_name(c) or "").split(".")[-1].startswith("add_to_dict")))]
                    stores = [a for a in ast.walk(L) if isinstance(a, ast.Assign) and any(isinstance(t, ast.Subscript) and isinstance(t.value, ast.Name) and t.value.id == name
                                                                                           for t in a.targets)]
                    if not grows and not stores:
                        continue
                    after = any(isinstance(x, ast.Name) and x.id == name and isinstance(x.ctx, ast.Load) and x.lineno > L.end_lineno for x in walk_no_nested(f.node))
                    if not after:
                        continue
                    n += 1
                    key = f"{rel}::{f.qualname}::`{name}`::per-key contributions of all iterations are kept"
                    bare = [c for c in grows if isinstance(c.func, ast.Attribute) and c.func.attr == "update"]
                    if bare:
                        rep.violation(RID, key, rel, bare[0].lineno,
                                      f"{f.qualname} fills `{name}` inside the loop at line {L.lineno} with `{norm(bare[0])[:80]}`: for a key that two iterations "
                                      f"contribute to, update() replaces the earlier value by the later one -- of the states two exits of a callee leave in "
                                      f"one field only those of the exit visited last survive")
                    else:
                        rep.holds(RID, key, rel, L.lineno, "filled by per-key stores / union helpers")
    return n
