"""K1  check_key_normalisation   a dict attribute whose keys are stored in a normalised spelling (os.path.realpath / abspath / normpath)
                                is looked up with keys of the same spelling (or with its own keys)."""
from __future__ import annotations

import ast
from typing import Dict, List, Optional, Set

from .model import AnalysisError, RepoModel, call_name, dotted, is_self_attr, norm, walk_no_nested

NORMALISERS = ("realpath", "abspath", "normpath")


def _normaliser_of(e, fnode, depth=0) -> Optional[str]:
    """name of the path normaliser the expression's value went through last, None if not known"""
    if isinstance(e, ast.Call):
        cn = (dotted(e.func) or "").split(".")[-1]
        if cn in NORMALISERS:
            return cn
        return None
    if isinstance(e, ast.Name) and depth < 3:
        defs = [n.value for n in walk_no_nested(fnode) if isinstance(n, ast.Assign) and any(isinstance(t, ast.Name) and t.id == e.id for t in n.targets)]
        kinds = {_normaliser_of(d, fnode, depth + 1) for d in defs}
        if len(kinds) == 1:
            return next(iter(kinds))
    return None


def check_key_normalisation(model: RepoModel, rep, RID: str, rel: str = "preparation.py", min_sites: int = 1):
    m = model.module(rel)
    stores: Dict[str, Set[str]] = {}
    for f in m.all_funcs():
        for n in walk_no_nested(f.node):
            if isinstance(n, ast.Assign):
                for t in n.targets:
                    if isinstance(t, ast.Subscript) and is_self_attr(t.value):
                        k = _normaliser_of(t.slice, f.node)
                        if k:
                            stores.setdefault(t.value.attr, set()).add(k)
    n_sites = 0
    for attr, kinds in sorted(stores.items()):
        if len(kinds) != 1:
            continue
        kind = next(iter(kinds))
        for f in m.all_funcs():
            loopvars = {l.target.id for l in walk_no_nested(f.node) if isinstance(l, ast.For) and isinstance(l.target, ast.Name)
                        and is_self_attr(l.iter) and l.iter.attr == attr}
            for c in walk_no_nested(f.node):
                keyexpr = None
                if isinstance(c, ast.Call) and isinstance(c.func, ast.Attribute) and c.func.attr in ("get", "pop") and is_self_attr(c.func.value) \
                        and c.func.value.attr == attr and c.args:
                    keyexpr = c.args[0]
                elif isinstance(c, ast.Subscript) and isinstance(c.ctx, ast.Load) and is_self_attr(c.value) and c.value.attr == attr:
                    keyexpr = c.slice
                if keyexpr is None:
                    continue
                n_sites += 1
                key = f"{f.ref}::lookup `self.{attr}[{norm(keyexpr)}]`"
                if isinstance(keyexpr, ast.Name) and keyexpr.id in loopvars:
                    rep.holds(RID, key, rel, c.lineno, "looked up with one of its own keys")
                elif _normaliser_of(keyexpr, f.node) == kind:
                    rep.holds(RID, key, rel, c.lineno, f"stored and looked up through os.path.{kind}")
                else:
                    rep.violation(RID, key, rel, c.lineno,
                                  f"the keys of self.{attr} are stored as os.path.{kind}(...) but {f.ref} looks `{norm(keyexpr)}` up as it is spelled: "
                                  f"with a relative or symlinked workspace path the lookup misses, the original path of every unit is empty and "
                                  f"every rule that names a unit stops matching -- the result depends on how the workspace location is written")
    if n_sites < min_sites:
        raise AnalysisError(f"{rel}: no lookup of a normalised-key table recognised")
    rep.analysed["lookups of normalised-key tables"] = n_sites


def check_import_path_join(model: RepoModel, rep, RID: str):
    """basics/import_hierarchy.py::get_import_path_from_stmt composes `<source>.<name>`.  For `from . import x` the source consists of dots
    only and already ends the package part: the joining dot must not be added unconditionally, or it is counted as one more level."""
    m = model.module("basics/import_hierarchy.py")
    fs = [f for f in m.all_funcs() if f.name == "get_import_path_from_stmt"]
    if not fs:
        raise AnalysisError("get_import_path_from_stmt vanished")
    f = fs[0]
    joins = []
    for n in walk_no_nested(f.node):
        v = None
        if isinstance(n, ast.AugAssign) and isinstance(n.op, ast.Add):
            v = n.value
        elif isinstance(n, ast.Assign) and isinstance(n.value, ast.BinOp) and isinstance(n.value.op, ast.Add):
            v = n.value
        if v is None:
            continue
        if any(isinstance(c, ast.Constant) and c.value == "." for c in ast.walk(v)):
            joins.append(n)
    if not joins:
        raise AnalysisError("get_import_path_from_stmt: the joining dot not found")
    for j in joins:
        key = f"{f.ref}::joining dot `{norm(j)}`"
        guards = [i for i in walk_no_nested(f.node) if isinstance(i, ast.If) and any(x is j for b in i.body + i.orelse for x in ast.walk(b))
                  and any(isinstance(c, ast.Call) and isinstance(c.func, ast.Attribute) and c.func.attr in ("endswith", "strip", "rstrip", "lstrip")
                          for c in ast.walk(i.test))]
        if guards:
            rep.holds(RID, key, m.rel, j.lineno, f"added only under `{norm(guards[0].test)}`")
        else:
            rep.violation(RID, key, m.rel, j.lineno,
                          f"the dot that joins source and name is added whatever the source is: for `from . import x` the path becomes `..x`, two "
                          f"leading dots, and the import is searched one package too high (a same-named module of the parent package is bound)")
    rep.analysed["import path joins"] = len(joins)
