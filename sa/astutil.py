"""Small AST helpers shared by the rule modules."""
from __future__ import annotations

import ast
from typing import Dict, Iterable, Iterator, List, Optional, Set, Tuple

from .model import call_name, dotted, is_self_attr, walk_no_nested


def root_self_attr(node, selfname: str = "self") -> Optional[str]:
    """For an access chain rooted at ``self.X`` (``self.X[...].y.z``) return ``X``."""
    cur = node
    while True:
        if isinstance(cur, ast.Attribute):
            if isinstance(cur.value, ast.Name) and cur.value.id == selfname:
                return cur.attr
            cur = cur.value
        elif isinstance(cur, ast.Subscript):
            cur = cur.value
        elif isinstance(cur, ast.Call):
            cur = cur.func
        else:
            return None


def store_targets(st: ast.stmt) -> List[ast.AST]:
    """Flattened assignment targets of a statement."""
    tg: List[ast.AST] = []
    if isinstance(st, ast.Assign):
        tg = list(st.targets)
    elif isinstance(st, (ast.AugAssign, ast.AnnAssign)):
        tg = [st.target]
    elif isinstance(st, (ast.For, ast.AsyncFor)):
        tg = [st.target]
    elif isinstance(st, ast.Delete):
        tg = list(st.targets)
    out: List[ast.AST] = []

    def flat(t):
        if isinstance(t, (ast.Tuple, ast.List)):
            for e in t.elts:
                flat(e)
        elif isinstance(t, ast.Starred):
            flat(t.value)
        else:
            out.append(t)

    for t in tg:
        flat(t)
    return out


def names_loaded(node) -> Set[str]:
    return {n.id for n in walk_no_nested(node) if isinstance(n, ast.Name) and isinstance(n.ctx, ast.Load)}


def calls_named(node, name: str) -> List[ast.Call]:
    return [n for n in walk_no_nested(node) if isinstance(n, ast.Call) and call_name(n) == name]


def kwarg(call: ast.Call, name: str) -> Optional[ast.AST]:
    for k in call.keywords:
        if k.arg == name:
            return k.value
    return None


def is_const(node, value) -> bool:
    return isinstance(node, ast.Constant) and node.value == value and type(node.value) is type(value)


def self_attr_reads(node, selfname: str = "self") -> Iterator[ast.Attribute]:
    for n in walk_no_nested(node):
        if isinstance(n, ast.Attribute) and isinstance(n.ctx, ast.Load) and isinstance(n.value, ast.Name) \
                and n.value.id == selfname:
            yield n


def local_assignments(fnode) -> Dict[str, List[ast.AST]]:
    """name -> list of RHS expressions assigned to that local anywhere in the function."""
    out: Dict[str, List[ast.AST]] = {}
    for n in walk_no_nested(fnode):
        if isinstance(n, ast.Assign):
            for t in n.targets:
                if isinstance(t, ast.Name):
                    out.setdefault(t.id, []).append(n.value)
                elif isinstance(t, (ast.Tuple, ast.List)) and isinstance(n.value, (ast.Tuple, ast.List)) \
                        and len(t.elts) == len(n.value.elts):
                    for a, b in zip(t.elts, n.value.elts):
                        if isinstance(a, ast.Name):
                            out.setdefault(a.id, []).append(b)
                elif isinstance(t, (ast.Tuple, ast.List)):
                    for a in t.elts:
                        if isinstance(a, ast.Name):
                            out.setdefault(a.id, []).append(n.value)
        elif isinstance(n, ast.AnnAssign) and isinstance(n.target, ast.Name) and n.value is not None:
            out.setdefault(n.target.id, []).append(n.value)
        elif isinstance(n, ast.AugAssign) and isinstance(n.target, ast.Name):
            out.setdefault(n.target.id, []).append(n)
        elif isinstance(n, (ast.For, ast.AsyncFor)):
            for t in ast.walk(n.target):
                if isinstance(t, ast.Name):
                    out.setdefault(t.id, []).append(n.iter)
        elif isinstance(n, ast.NamedExpr) and isinstance(n.target, ast.Name):
            out.setdefault(n.target.id, []).append(n.value)
        elif isinstance(n, (ast.With, ast.AsyncWith)):
            for it in n.items:
                if isinstance(it.optional_vars, ast.Name):
                    out.setdefault(it.optional_vars.id, []).append(it.context_expr)
    return out


def stmt_of(parents: Dict[int, ast.AST], node: ast.AST) -> Optional[ast.stmt]:
    cur = node
    while cur is not None and not isinstance(cur, ast.stmt):
        cur = parents.get(id(cur))
    return cur


def contains(node: ast.AST, sub: ast.AST) -> bool:
    return any(n is sub for n in ast.walk(node))


def same_expr(a, b) -> bool:
    return ast.dump(a) == ast.dump(b)
