"""Static-analysis checkers for yang-guangliang/lian (see /verif/DESIGN.md).

Nothing in this package imports, executes or symbolically executes code from the
repository under analysis: every rule parses the current working tree with
``ast`` and decides a structural obligation over syntax trees, per-function
control-flow graphs, def-use chains and the resolved call graph.
"""
