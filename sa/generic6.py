"""Round-7 rules.

Q1  check_inclusive_bounds_roundtrip   a loader that exports (min(ids), max(ids)) restores range(min, max + 1)
Q2  check_raw_index_keys               tables written under raw indices are not read under a re-mapped (new) index
Q3  check_row_numbers_positional       in DataModel a row-number parameter addresses rows with .iloc; .loc with it only where it is not an int
Q4  check_workspace_name_test          the test that decides whether -w already names a workspace looks at the path as given,
                                       not at an absolutised path (whose ancestors are not the user's choice)
"""
from __future__ import annotations

import ast
from typing import Dict, List, Optional, Set

from .model import AnalysisError, RepoModel, call_name, dotted, is_self_attr, norm, walk_no_nested


# ---------------------------------------------------------------------------------------------------------------- Q1
def check_inclusive_bounds_roundtrip(model: RepoModel, rep, RID: str, rel: str = "util/loader.py", min_sites: int = 1):
    m = model.module(rel)
    n = 0
    for cname, ci in sorted(m.classes.items()):
        exp, res = ci.methods.get("export"), ci.methods.get("restore")
        if exp is None or res is None:
            continue
        writes_max = any(isinstance(c, ast.Call) and call_name(c) == "max" for c in walk_no_nested(exp.node)) and \
            any(isinstance(c, ast.Call) and call_name(c) == "min" for c in walk_no_nested(exp.node))
        if not writes_max:
            continue
        for c in walk_no_nested(res.node):
            if not (isinstance(c, ast.Call) and call_name(c) == "range" and len(c.args) == 2):
                continue
            n += 1
            hi = c.args[1]
            key = f"{res.ref}::`{norm(c)}` restores what export wrote as (min, max)"
            plus_one = isinstance(hi, ast.BinOp) and isinstance(hi.op, ast.Add) and any(isinstance(x, ast.Constant) and x.value == 1 for x in (hi.left, hi.right))
            if not plus_one and isinstance(hi, ast.Name):
                defs = [s.value for s in walk_no_nested(res.node) if isinstance(s, ast.Assign) and any(isinstance(t, ast.Name) and t.id == hi.id for t in s.targets)]
                plus_one = bool(defs) and all(isinstance(d, ast.BinOp) and isinstance(d.op, ast.Add) and any(isinstance(x, ast.Constant) and x.value == 1 for x in (d.left, d.right))
                                              for d in defs)
            if plus_one:
                rep.holds(RID, key, rel, c.lineno, "upper bound is the stored maximum + 1 (the maximum is a member)")
            else:
                rep.violation(RID, key, rel, c.lineno,
                              f"{cname}.export stores the largest id of each group (inclusive) and restore rebuilds the group with `{norm(c)}`, whose "
                              f"upper bound is exclusive: the last id of every group is lost on a save/export/restore round trip")
    if n < min_sites:
        raise AnalysisError(f"{rel}: no (min, max) export with a range() restore recognised")
    rep.analysed["inclusive-bound round trips"] = n


# ---------------------------------------------------------------------------------------------------------------- Q2
def check_raw_index_keys(model: RepoModel, rep, RID: str, rel: str = "common_structs.py", cls: str = "MethodSummaryTemplate", min_sites: int = 1):
    """A variable assigned from `self.raw_to_new_index.get(i, ...)` / `[i]` holds a NEW index; the other index-keyed tables of the class are
    written under RAW indices.  Reading them under a new index finds another parameter's entry or none."""
    m = model.module(rel)
    ci = m.classes.get(cls)
    if ci is None:
        raise AnalysisError(f"{rel}: class {cls} vanished")
    n = 0
    for f in ci.methods.values():
        new_vars = set()
        for s in walk_no_nested(f.node):
            if isinstance(s, ast.Assign) and len(s.targets) == 1 and isinstance(s.targets[0], ast.Name):
                v = s.value
                src = v.func.value if isinstance(v, ast.Call) and isinstance(v.func, ast.Attribute) and v.func.attr == "get" else (v.value if isinstance(v, ast.Subscript) else None)
                if src is not None and is_self_attr(src) and src.attr == "raw_to_new_index":
                    new_vars.add(s.targets[0].id)
        if not new_vars:
            continue
        for c in walk_no_nested(f.node):
            tbl = keyexpr = None
            if isinstance(c, ast.Call) and isinstance(c.func, ast.Attribute) and c.func.attr == "get" and is_self_attr(c.func.value) and c.args:
                tbl, keyexpr = c.func.value.attr, c.args[0]
            elif isinstance(c, ast.Subscript) and is_self_attr(c.value) and isinstance(c.ctx, ast.Load):
                tbl, keyexpr = c.value.attr, c.slice
            if tbl is None or tbl == "raw_to_new_index" or not tbl.startswith("index_to_"):
                continue
            n += 1
            key = f"{f.ref}::`self.{tbl}` read under `{norm(keyexpr)}`"
            if isinstance(keyexpr, ast.Name) and keyexpr.id in new_vars:
                rep.violation(RID, key, rel, c.lineno,
                              f"`{keyexpr.id}` comes from self.raw_to_new_index (a compacted index) but self.{tbl} is keyed by raw indices: the "
                              f"entry of a parameter whose index was re-mapped is not found (or another parameter's is), and the exported summary "
                              f"loses it")
            else:
                rep.holds(RID, key, rel, c.lineno, "read under the raw index")
    if n < min_sites:
        raise AnalysisError(f"{cls}: no read of an index_to_* table next to a raw_to_new_index lookup recognised")
    rep.analysed["index_to_* reads next to a re-mapping"] = n


# ---------------------------------------------------------------------------------------------------------------- Q3
def check_row_numbers_positional(model: RepoModel, rep, RID: str, rel: str = "util/data_model.py", cls: str = "DataModel", min_sites: int = 3):
    """Row numbers are positions (what `len`, `access(i)` and the row cache use).  A parameter that some method of the class hands to
    `.iloc[...]` is such a number in every method; using it as a `.loc[...]` label is right only while the frame has its default index,
    which `remove_rows`, slices and blocks do not keep."""
    m = model.module(rel)
    ci = m.classes.get(cls)
    if ci is None:
        raise AnalysisError(f"{rel}: class {cls} vanished")
    positional: Set[str] = set()
    for f in ci.methods.values():
        params = {a.arg for a in f.node.args.args}
        for s in walk_no_nested(f.node):
            if isinstance(s, ast.Subscript) and isinstance(s.value, ast.Attribute) and s.value.attr == "iloc":
                k = s.slice.elts[0] if isinstance(s.slice, ast.Tuple) else s.slice
                if isinstance(k, ast.Name) and k.id in params:
                    positional.add(k.id)
    n = 0
    for f in ci.methods.values():
        params = {a.arg for a in f.node.args.args}
        for s in walk_no_nested(f.node):
            if not (isinstance(s, ast.Subscript) and isinstance(s.value, ast.Attribute) and s.value.attr == "loc"):
                continue
            k = s.slice.elts[0] if isinstance(s.slice, ast.Tuple) else s.slice
            if not (isinstance(k, ast.Name) and k.id in params and k.id in positional):
                continue
            n += 1
            key = f"{f.ref}::`{norm(s)}`"
            # acceptable only on a path where the parameter is known not to be an int: inside the else-arm (or after a returning then-arm) of
            # `if isinstance(<param>, (int, ...))`
            guarded = False
            for i in walk_no_nested(f.node):
                if not (isinstance(i, ast.If) and any(isinstance(c, ast.Call) and call_name(c) == "isinstance" and c.args and isinstance(c.args[0], ast.Name)
                                                       and c.args[0].id == k.id for c in ast.walk(i.test))):
                    continue
                neg = isinstance(i.test, ast.UnaryOp) and isinstance(i.test.op, ast.Not)
                in_then = any(x is s for b in i.body for x in ast.walk(b))
                in_else = any(x is s for b in i.orelse for x in ast.walk(b))
                leaves = bool(i.body) and isinstance(i.body[-1], (ast.Return, ast.Raise, ast.Continue))
                # "after the returning then-arm": decided on the statement lists, not on line numbers (the model may have lifted an else arm)
                follows = False
                for holder in ast.walk(f.node):
                    for fld in ("body", "orelse", "finalbody"):
                        lst = getattr(holder, fld, None)
                        if isinstance(lst, list) and any(x is i for x in lst):
                            k_ = next(n_ for n_, x in enumerate(lst) if x is i)
                            follows = follows or any(y is s for later in lst[k_ + 1:] for y in ast.walk(later))
                after = follows and leaves and not neg
                if (in_else and not neg) or (in_then and neg) or after:
                    guarded = True
            if guarded:
                rep.holds(RID, key, rel, s.lineno, f"label lookup only where `{k.id}` is not an int (row numbers take the .iloc branch)")
            else:
                rep.violation(RID, key, rel, s.lineno,
                              f"`{k.id}` is a row NUMBER (other methods hand it to .iloc) but {f.name} uses it as an index LABEL: after remove_rows, or on a "
                              f"slice / block, labels and positions differ -- a read hits another row or raises, a write silently appends a row")
    rep.analysed["row-number parameters used with .loc"] = n
    if len(positional) < 1:
        raise AnalysisError(f"{cls}: no parameter handed to .iloc recognised")
    return n


# ---------------------------------------------------------------------------------------------------------------- Q4
def check_workspace_name_test(model: RepoModel, rep, RID: str, rel: str = "main.py"):
    """main.py::set_workspace_dir appends the default workspace directory name unless the -w value already contains it.  The test reads
    the option as the user wrote it; after os.path.abspath/realpath the string also contains the names of the current directory and its
    ancestors, and a directory the user never named as workspace gets wiped by --force."""
    m = model.module(rel)
    fs = [f for f in m.all_funcs() if f.name == "set_workspace_dir"]
    if not fs:
        raise AnalysisError("main.py: set_workspace_dir vanished")
    f = fs[0]
    tests = [c for c in walk_no_nested(f.node) if isinstance(c, ast.Compare) and len(c.ops) == 1 and isinstance(c.ops[0], (ast.In, ast.NotIn))
             and "workspace" in norm(c.comparators[0])]
    if not tests:
        raise AnalysisError("set_workspace_dir: the containment test on the workspace option was not found")
    for t in tests:
        key = f"{f.ref}::`{norm(t)}`"
        subject = norm(t.comparators[0])
        absolutised = [s for s in walk_no_nested(f.node) if isinstance(s, ast.Assign) and s.lineno < t.lineno and any(norm(x) == subject for x in s.targets)
                       and any(isinstance(c, ast.Call) and (dotted(c.func) or "").split(".")[-1] in ("abspath", "realpath", "expanduser", "normpath") for c in ast.walk(s.value))]
        direct = any(isinstance(c, ast.Call) and (dotted(c.func) or "").split(".")[-1] in ("abspath", "realpath") for c in ast.walk(t.comparators[0]))
        if absolutised or direct:
            rep.violation(RID, key, rel, t.lineno,
                          f"the test whether -w already names a workspace is made on an absolutised path: the name of the current directory or of any "
                          f"ancestor that contains the default workspace name makes a plain `-w results` the workspace itself, and --force wipes it")
        else:
            rep.holds(RID, key, rel, t.lineno, "tested on the option as given")
    rep.analysed["workspace name tests"] = len(tests)


# ---------------------------------------------------------------------------------------------------------------- Q5
def check_repetition_bound_both_orders(model: RepoModel, rep, RID: str, rel: str = "util/util.py", fname: str = "check_eval_result_size"):
    """`"ab" * n` and `n * "ab"` build the same string.  The branch of the size check that handles multiplication must consider a
    sequence on either side: isinstance tests for (left: str/bytes, right: int) AND (right: str/bytes, left: int) both occur in it."""
    m = model.module(rel)
    fs = [f for f in m.all_funcs() if f.name == fname]
    if not fs:
        raise AnalysisError(f"{rel}: {fname} vanished")
    f = fs[0]
    blocks = [i for i in walk_no_nested(f.node) if isinstance(i, ast.If) and any(isinstance(x, ast.Attribute) and x.attr == "Mult" for x in ast.walk(i.test))
              and any(isinstance(r, ast.Raise) for b in i.body for r in ast.walk(b))]
    if not blocks:
        raise AnalysisError(f"{fname}: the multiplication branch with a refusal was not found")
    for blk in blocks:
        pairs = set()
        for c in ast.walk(blk):
            if isinstance(c, ast.Call) and call_name(c) == "isinstance" and len(c.args) == 2 and isinstance(c.args[0], ast.Name):
                kinds = {x.id for x in ast.walk(c.args[1]) if isinstance(x, ast.Name)}
                if kinds & {"str", "bytes"}:
                    pairs.add((c.args[0].id, "seq"))
                if "int" in kinds:
                    pairs.add((c.args[0].id, "int"))
        seqs = {v for v, k in pairs if k == "seq"}
        ints = {v for v, k in pairs if k == "int"}
        key = f"{f.ref}::sequence repetition is bounded in both operand orders"
        if len(seqs) >= 2 and len(ints) >= 2 and seqs == ints:
            rep.holds(RID, key, rel, blk.lineno, f"sequence and count recognised on either side ({sorted(seqs)})")
        else:
            rep.violation(RID, key, rel, blk.lineno,
                          f"the multiplication branch of {fname} recognises a str/bytes operand only as {sorted(seqs)} and a count only as {sorted(ints)}: "
                          f"with the operands the other way round (`2000000000 * \"ab\"`) the size test is skipped and the constant is built")
    rep.analysed["repetition bound branches"] = len(blocks)
