"""Round-6 cross-cutting rules.

P1  check_operation_predicates   a predicate over the GIR operation name that classifies rows (kept at module level / moved into the
                                 unit initialiser) is evaluated over the whole emitted vocabulary: only declarations and the listed
                                 import/export rows may stay outside the initialiser.
P2  check_slice_positions        `X = None if L == R else seq[P]` in a position-indexed token walk: the absence test must be the linear
                                 statement "position P is a separator or outside the sequence".
P3  check_skip_counted_indices   a loop `for i, x in enumerate(S)` that skips some x (continue) must not emit i as an element index.
"""
from __future__ import annotations

import ast
from typing import Dict, List, Optional, Set, Tuple

from .model import AnalysisError, Func, RepoModel, call_name, const_str, dotted, norm, walk_no_nested


# ---------------------------------------------------------------------------------------------------------------- P1
class _NoEval(Exception):
    pass


def _eval_pred(t, op: str, subject: str, env: Dict[str, object]):
    """Evaluate a pure predicate over the string `op`; `subject` is the canonical text of the expression holding the operation."""
    if isinstance(t, ast.BoolOp):
        vals = [_eval_pred(v, op, subject, env) for v in t.values]
        return all(vals) if isinstance(t.op, ast.And) else any(vals)
    if isinstance(t, ast.UnaryOp) and isinstance(t.op, ast.Not):
        return not _eval_pred(t.operand, op, subject, env)
    if isinstance(t, ast.Call) and isinstance(t.func, ast.Attribute) and norm(t.func.value) == subject and t.func.attr in ("endswith", "startswith"):
        a = _lit(t.args[0], env) if t.args else None
        if a is None:
            raise _NoEval(norm(t))
        return getattr(op, t.func.attr)(a if isinstance(a, str) else tuple(a))
    if isinstance(t, ast.Compare) and len(t.ops) == 1:
        l, r = t.left, t.comparators[0]
        o = t.ops[0]
        if norm(l) == subject:
            rv = _lit(r, env)
            if rv is None:
                raise _NoEval(norm(t))
            if isinstance(o, ast.Eq):
                return op == rv
            if isinstance(o, ast.NotEq):
                return op != rv
            if isinstance(o, ast.In):
                return op in rv
            if isinstance(o, ast.NotIn):
                return op not in rv
        if norm(r) == subject and isinstance(o, (ast.Eq, ast.NotEq)):
            lv = _lit(l, env)
            if lv is None:
                raise _NoEval(norm(t))
            return (op == lv) if isinstance(o, ast.Eq) else (op != lv)
        if isinstance(l, ast.Constant) and isinstance(l.value, str) and norm(r) == subject and isinstance(o, (ast.In, ast.NotIn)):
            return (l.value in op) if isinstance(o, ast.In) else (l.value not in op)
    raise _NoEval(norm(t))


def _lit(e, env):
    if isinstance(e, ast.Constant) and isinstance(e.value, str):
        return e.value
    if isinstance(e, (ast.Tuple, ast.List, ast.Set)):
        vals = [const_str(x) for x in e.elts]
        return None if any(v is None for v in vals) else tuple(vals)
    if isinstance(e, ast.Name) and e.id in env:
        return env[e.id]
    return None


EXECUTABLE_SAMPLE = ("assign_stmt", "call_stmt", "if_stmt", "for_stmt", "forin_stmt", "while_stmt", "return_stmt", "new_array", "array_write",
                     "array_read", "new_record", "record_write", "field_read", "field_write", "slice_read", "slice_write", "new_object",
                     "array_append", "array_extend", "del_stmt", "try_stmt", "with_stmt", "global_stmt", "nonlocal_stmt")
NON_EXECUTABLE_EXACT = {"import_stmt", "from_import_stmt", "export_stmt", "package_stmt", "import_as_stmt"}


def check_operation_predicates(model: RepoModel, rep, RID: str, vocabulary: Set[str]):
    """events/default_event_handlers/basic.py::add_main_func: the rows that stay at module level."""
    m = model.module("events/default_event_handlers/basic.py")
    f = m.functions.get("add_main_func")
    if f is None:
        raise AnalysisError("add_main_func vanished")
    env = {}
    for n in walk_no_nested(f.node):
        if isinstance(n, ast.Assign) and len(n.targets) == 1 and isinstance(n.targets[0], ast.Name):
            v = _lit(n.value, {})
            if v is not None and not isinstance(v, str):
                env[n.targets[0].id] = v
    # the classifying test: an If on a row's "operation" whose arms append the row to two different lists
    done = 0
    for n in walk_no_nested(f.node):
        if not isinstance(n, ast.If) or not n.orelse:
            continue
        subs = {norm(x) for x in ast.walk(n.test) if isinstance(x, ast.Subscript) and const_str(x.slice) == "operation"}
        subs |= {x.id for x in ast.walk(n.test) if isinstance(x, ast.Name) and x.id in ("operation", "op")}
        if len(subs) != 1:
            continue
        subject = next(iter(subs))

        def appended(body):
            return {norm(c.func.value) for s in body for c in ast.walk(s) if isinstance(c, ast.Call) and isinstance(c.func, ast.Attribute)
                    and c.func.attr == "append" and c.args}
        a_then, a_else = appended(n.body), appended(n.orelse)
        if not a_then or not a_else or a_then == a_else:
            continue
        # which arm keeps rows outside the initialiser: the list that is not wrapped (the one assigned to / extended into out_data first)
        key = f"{f.ref}::rows kept at module level `{norm(n.test)}`"
        ops = sorted(set(vocabulary) | set(EXECUTABLE_SAMPLE))
        kept_true, kept_false, failed = [], [], None
        for op in ops:
            try:
                (kept_true if _eval_pred(n.test, op, subject, env) else kept_false).append(op)
            except _NoEval as e:
                failed = str(e)
                break
        if failed:
            rep.unknown(RID, key, m.rel, n.lineno, f"predicate not evaluable statically: {failed}")
            done += 1
            continue
        # the arm taken by declarations is the "stays at module level" arm
        decl_arm = kept_true if "method_decl" in kept_true else kept_false
        bad = [op for op in decl_arm if not (op.endswith("_decl") or op in NON_EXECUTABLE_EXACT)]
        done += 1
        if bad:
            rep.violation(RID, key, m.rel, n.lineno,
                          f"the test that keeps a top-level row outside the unit initialiser also selects executable operations "
                          f"({', '.join(bad[:8])}{' ...' if len(bad) > 8 else ''}): those rows never run while the rest of the top-level code moves "
                          f"into %unit_init")
        else:
            rep.holds(RID, key, m.rel, n.lineno,
                      f"evaluated over {len(ops)} operation names: only *_decl and {sorted(set(decl_arm) & NON_EXECUTABLE_EXACT)} stay at module level")
    if not done:
        raise AnalysisError("add_main_func: classifying test on the row's operation not found")


# ---------------------------------------------------------------------------------------------------------------- P2
def _linear(e, syms: Dict[str, str]) -> Optional[Dict[str, int]]:
    """e as a linear combination {symbol: coeff, '1': const}; symbols are canonical texts of subscripts / len() calls."""
    if isinstance(e, ast.Constant) and isinstance(e.value, int) and not isinstance(e.value, bool):
        return {"1": e.value}
    if isinstance(e, ast.UnaryOp) and isinstance(e.op, ast.USub):
        a = _linear(e.operand, syms)
        return None if a is None else {k: -v for k, v in a.items()}
    if isinstance(e, ast.BinOp) and isinstance(e.op, (ast.Add, ast.Sub)):
        a, b = _linear(e.left, syms), _linear(e.right, syms)
        if a is None or b is None:
            return None
        out = dict(a)
        for k, v in b.items():
            out[k] = out.get(k, 0) + (v if isinstance(e.op, ast.Add) else -v)
        return out
    if isinstance(e, (ast.Subscript, ast.Name, ast.Attribute)) or (isinstance(e, ast.Call) and call_name(e) == "len"):
        return {norm(e): 1}
    return None


def _sub(a, b):
    out = dict(a)
    for k, v in b.items():
        out[k] = out.get(k, 0) - v
    return {k: v for k, v in out.items() if v != 0}


def check_slice_positions(model: RepoModel, rep, RID: str, rel: str = "lang/python_parser.py", fname: str = "parse_slice", min_sites: int = 5):
    m = model.module(rel)
    fs = [f for f in m.all_funcs() if f.name == fname]
    if not fs:
        raise AnalysisError(f"{rel}: {fname} vanished")
    f = fs[0]
    n_sites = 0
    for n in walk_no_nested(f.node):
        # `t = None if L == R else seq[P]`; the model expands a conditional expression into if/else, both shapes are read
        if isinstance(n, ast.Assign) and isinstance(n.value, ast.IfExp):
            ie = n.value
        elif isinstance(n, ast.If) and len(n.body) == 1 and len(n.orelse) == 1 and isinstance(n.body[0], ast.Assign) and isinstance(n.orelse[0], ast.Assign) \
                and norm(n.body[0].targets[0]) == norm(n.orelse[0].targets[0]):
            ie = ast.IfExp(test=n.test, body=n.body[0].value, orelse=n.orelse[0].value)
            n = ast.copy_location(ast.Assign(targets=n.body[0].targets, value=ie), n)
        else:
            continue
        none_arm, pick_arm, test = ie.body, ie.orelse, ie.test
        negated = False
        if isinstance(pick_arm, ast.Constant) and pick_arm.value is None:
            none_arm, pick_arm, negated = pick_arm, none_arm, True
        if not (isinstance(none_arm, ast.Constant) and none_arm.value is None and isinstance(pick_arm, ast.Subscript)):
            continue
        if not (isinstance(test, ast.Compare) and len(test.ops) == 1 and isinstance(test.ops[0], (ast.Eq, ast.NotEq))):
            continue
        if isinstance(test.ops[0], ast.NotEq):
            negated = not negated
        seq = norm(pick_arm.value)
        P = _linear(pick_arm.slice, {})
        L, R = _linear(test.left, {}), _linear(test.comparators[0], {})
        key = f"{f.ref}::`{norm(n.targets[0])}` picked from `{norm(pick_arm)}`"
        if P is None or L is None or R is None:
            continue
        n_sites += 1
        if negated:
            rep.violation(RID, key, rel, n.lineno, "the element is picked when the absence test holds")
            continue
        d = _sub(L, R)
        # separators: every subscript symbol that occurs in P or in the test (the positions of ':' tokens), -1 and len(seq)
        seps = [{s: 1} for s in set(P) | set(L) | set(R) if s not in ("1",) and "[" in s]
        cands = seps + [{"1": -1}, {f"len({seq})": 1}]
        ok = None
        for K in cands:
            pk = _sub(P, K)
            if pk == d or pk == {k: -v for k, v in d.items()}:
                ok = K
                break
        if ok is None:
            rep.violation(RID, key, rel, n.lineno,
                          f"the part is taken from position `{norm(pick_arm.slice)}` of {seq} but the test `{norm(test)}` for its absence is not "
                          f"the statement that this position holds a separator or lies outside the sequence: a present part is dropped or a "
                          f"separator token is taken as the part")
        else:
            what = next(iter(ok)) if "1" not in ok else "-1"
            rep.holds(RID, key, rel, n.lineno, f"absent exactly when position `{norm(pick_arm.slice)}` == {what}")
    if n_sites < min_sites:
        raise AnalysisError(f"{rel}::{fname}: only {n_sites} position-picked parts recognised (expected >= {min_sites})")
    rep.analysed[f"{fname} position-picked parts"] = n_sites


# ---------------------------------------------------------------------------------------------------------------- P3
def check_skip_counted_indices(model: RepoModel, rep, RID: str, rels, min_sites: int = 2):
    """for i, x in enumerate(S): if <skip>(x): continue ... emit {"index": str(i)}  -- i counts the skipped children too."""
    n_sites = 0
    for rel in rels:
        if rel not in model.modules:
            continue
        m = model.modules[rel]
        for f in m.all_funcs():
            for loop in walk_no_nested(f.node):
                if not isinstance(loop, ast.For):
                    continue
                it = loop.iter
                if not (isinstance(it, ast.Call) and call_name(it) == "enumerate" and it.args and isinstance(loop.target, ast.Tuple)
                        and len(loop.target.elts) == 2 and all(isinstance(e, ast.Name) for e in loop.target.elts)):
                    continue
                idx, item = loop.target.elts[0].id, loop.target.elts[1].id
                # is the index emitted as an element index?
                emits = [d for s in loop.body for d in ast.walk(s) if isinstance(d, ast.Dict)
                         for k, v in zip(d.keys, d.values) if k is not None and const_str(k) in ("index", "key", "position")
                         and any(isinstance(x, ast.Name) and x.id == idx for x in ast.walk(v))]
                if not emits:
                    continue
                n_sites += 1
                key = f"{f.ref}::element index `{idx}` of enumerate(`{norm(it.args[0])}`)"
                # skipping arms: an If in the loop body (top level) whose body is only `continue` and whose test mentions the item
                skips = [s for s in loop.body if isinstance(s, ast.If) and s.body and all(isinstance(b, ast.Continue) for b in s.body)
                         and any(isinstance(x, ast.Name) and x.id == item for x in ast.walk(s.test))]
                # a filtered iterable never yields the skipped children: enumerate(c for c in S if not skip(c)) / a pre-filtered list
                if skips:
                    rep.violation(RID, key, rel, loop.lineno,
                                  f"`{idx}` is the position among all children of `{norm(it.args[0])}` but children selected by "
                                  f"`{norm(skips[0].test)}` are skipped: every element after a skipped child is written at an index one too high")
                else:
                    rep.holds(RID, key, rel, loop.lineno, "no child is skipped inside the counted loop (the iterable is filtered before counting)")
    if n_sites < min_sites:
        raise AnalysisError(f"element-index loops: only {n_sites} recognised (expected >= {min_sites})")
    rep.analysed["element-index loops over enumerate()"] = n_sites


# ---------------------------------------------------------------------------------------------------------------- P4
def _lin_eval(lin: Dict[str, int], env: Dict[str, int]) -> Optional[int]:
    tot = 0
    for k, v in lin.items():
        if k == "1":
            tot += v
        elif k in env:
            tot += v * env[k]
        else:
            return None
    return tot


def check_relative_import_levels(model: RepoModel, rep, RID: str):
    """basics/import_hierarchy.py::analyze_import_stmt: n leading dots of a relative import climb n-1 packages above the importing
    unit's own package.  The dot counter, the guarded `levels = f(dots)` assignment and the `range(...)` of the climbing loop are
    read from the source and the resulting iteration count is computed for 1..5 dots."""
    m = model.module("basics/import_hierarchy.py")
    fs = [f for f in m.all_funcs() if f.name == "analyze_import_stmt"]
    if not fs:
        raise AnalysisError("ImportHierarchy.analyze_import_stmt vanished")
    f = fs[0]
    # dot counter: `D += 1` under a test `<char> == "."` inside a for loop
    counters = set()
    for loop in walk_no_nested(f.node):
        if isinstance(loop, ast.For) and any(isinstance(i, ast.If) and any(const_str(c) == "." for c in ast.walk(i.test)) for i in ast.walk(loop)):
            # (the model may have turned `if c == ".": n += 1 else: break` into a guard clause; both shapes count)
            for a in ast.walk(loop):
                if isinstance(a, ast.AugAssign) and isinstance(a.op, ast.Add) and isinstance(a.target, ast.Name) \
                        and isinstance(a.value, ast.Constant) and a.value.value == 1:
                    counters.add(a.target.id)
    if len(counters) != 1:
        raise AnalysisError(f"analyze_import_stmt: leading-dot counter not recognised ({sorted(counters)})")
    D = next(iter(counters))
    # climbing loop: for _ in range(<args mentioning a variable U>) whose body re-assigns a *_module_id / parent variable
    climbs = []
    for loop in walk_no_nested(f.node):
        if isinstance(loop, ast.For) and isinstance(loop.iter, ast.Call) and call_name(loop.iter) == "range":
            names = {x.id for a in loop.iter.args for x in ast.walk(a) if isinstance(x, ast.Name)}
            if names:
                climbs.append((loop, names))
    key = f"{f.ref}::levels climbed for n leading dots"
    if not climbs:
        raise AnalysisError("analyze_import_stmt: climbing loop `for _ in range(levels)` not found")
    loop, names = climbs[0]
    # assignments to the variables of the range
    assigns: Dict[str, List[Tuple[Optional[ast.AST], ast.AST]]] = {}
    for n in walk_no_nested(f.node):
        if isinstance(n, ast.Assign) and len(n.targets) == 1 and isinstance(n.targets[0], ast.Name) and n.targets[0].id in names and n.lineno < loop.lineno:
            guard = None
            for i in walk_no_nested(f.node):
                if isinstance(i, ast.If) and any(b is n for b in i.body) and any(isinstance(x, ast.Name) and x.id == D for x in ast.walk(i.test)):
                    guard = i.test
            assigns.setdefault(n.targets[0].id, []).append((guard, n.value))

    def holds(test, env) -> Optional[bool]:
        if isinstance(test, ast.Compare) and len(test.ops) == 1:
            l, r = _linear(test.left, {}), _linear(test.comparators[0], {})
            if l is None or r is None:
                return None
            a, b = _lin_eval(l, env), _lin_eval(r, env)
            if a is None or b is None:
                return None
            o = test.ops[0]
            return {ast.Gt: a > b, ast.GtE: a >= b, ast.Lt: a < b, ast.LtE: a <= b, ast.Eq: a == b, ast.NotEq: a != b}.get(type(o))
        return None

    table = []
    for d in range(1, 6):
        env = {D: d}
        for v, defs in assigns.items():
            val = None
            for guard, value in defs:       # source order: later assignments win when their guard holds
                if guard is not None:
                    h = holds(guard, {D: d})
                    if h is None:
                        rep.unknown(RID, key, m.rel, loop.lineno, f"guard `{norm(guard)}` not evaluable")
                        return
                    if not h:
                        continue
                lin = _linear(value, {})
                x = _lin_eval(lin, {D: d}) if lin is not None else None
                if x is None:
                    rep.unknown(RID, key, m.rel, loop.lineno, f"`{v} = {norm(value)}` not evaluable")
                    return
                val = x
            if val is not None:
                env[v] = val
        args = []
        for a in loop.iter.args:
            lin = _linear(a, {})
            x = _lin_eval(lin, env) if lin is not None else None
            if x is None:
                rep.unknown(RID, key, m.rel, loop.lineno, f"range argument `{norm(a)}` not evaluable")
                return
            args.append(x)
        table.append((d, len(range(*args))))
    bad = [(d, k) for d, k in table if k != d - 1]
    if bad:
        rep.violation(RID, key, m.rel, loop.lineno,
                      f"a relative import with n leading dots must be searched n-1 packages above the importing file's own package; the code "
                      f"climbs {', '.join(f'{k} for {d} dot(s)' for d, k in bad)}: the import is searched in the wrong package and resolves "
                      f"to a same-named module there or stays unresolved")
    else:
        rep.holds(RID, key, m.rel, loop.lineno, f"iterations of the climbing loop for 1..5 leading dots: {[k for _, k in table]}")


# ---------------------------------------------------------------------------------------------------------------- P5
def check_listed_names_all_lowered(model: RepoModel, rep, RID: str, rels, ops=("global_stmt", "nonlocal_stmt"), min_sites: int = 2):
    """`global a, b` / `nonlocal a, b` list several names: the row is emitted once per listed name (inside a loop over the children)."""
    n_sites = 0
    for rel in rels:
        if rel not in model.modules:
            continue
        m = model.modules[rel]
        for f in m.all_funcs():
            for d in walk_no_nested(f.node):
                if not (isinstance(d, ast.Dict) and len(d.keys) == 1 and const_str(d.keys[0]) in ops):
                    continue
                n_sites += 1
                op = const_str(d.keys[0])
                key = f"{f.ref}::`{op}` emitted for every listed name"
                loops = [l for l in walk_no_nested(f.node) if isinstance(l, (ast.For, ast.While)) and any(x is d for b in l.body for x in ast.walk(b))]
                if loops:
                    rep.holds(RID, key, rel, d.lineno, f"emitted inside `for {norm(loops[-1].target) if isinstance(loops[-1], ast.For) else '...'} in "
                                                        f"{norm(loops[-1].iter) if isinstance(loops[-1], ast.For) else '...'}`")
                else:
                    rep.violation(RID, key, rel, d.lineno,
                                  f"{f.ref} emits one `{op}` row outside any loop over the statement's children: for `{op.split('_')[0]} a, b` only "
                                  f"the first name is lowered, `b` gets a function-local declaration and its occurrences bind to that")
    if n_sites < min_sites:
        raise AnalysisError(f"global/nonlocal emissions: only {n_sites} found (expected >= {min_sites})")
    rep.analysed["global/nonlocal emissions"] = n_sites


# ---------------------------------------------------------------------------------------------------------------- P6
def check_goto_label_scan(model: RepoModel, rep, RID: str):
    """basics/control_flow.py: the goto fix-up links a goto to labels found by scanning the collected labels; the label operand of the
    added edge is the variable of a loop over that collection, never the single value of a name-keyed table (label names repeat in
    nested function literals, a name-keyed table keeps one of them)."""
    m = model.module("basics/control_flow.py")
    n_sites = 0
    for f in m.all_funcs():
        gotos = [l for l in walk_no_nested(f.node) if isinstance(l, ast.For) and "goto" in norm(l.iter)]
        for gl in gotos:
            gvar = gl.target.id if isinstance(gl.target, ast.Name) else None
            for c in ast.walk(gl):
                if not (isinstance(c, ast.Call) and isinstance(c.func, ast.Attribute) and c.func.attr == "add_edge" and len(c.args) >= 2):
                    continue
                src, dst = c.args[0], c.args[1]
                if gvar is None or not any(isinstance(x, ast.Name) and x.id == gvar for x in ast.walk(src)):
                    continue
                n_sites += 1
                roots = [x.id for x in ast.walk(dst) if isinstance(x, ast.Name)]
                key = f"{f.ref}::goto edge target `{norm(dst)}`"
                loopvars = {l.target.id for l in ast.walk(gl) if isinstance(l, ast.For) and l is not gl and isinstance(l.target, ast.Name)
                            and any(x is c for x in ast.walk(l))}
                if roots and roots[0] in loopvars:
                    rep.holds(RID, key, m.rel, c.lineno, "the target is the variable of a scan over the collected labels")
                else:
                    rep.violation(RID, key, m.rel, c.lineno,
                                  f"the goto's target `{norm(dst)}` is not taken from a scan over the collected labels but from a single-valued "
                                  f"lookup: labels of nested function literals share names with the method's own labels, the table keeps one "
                                  f"of them and the goto loses the edge to its own label")
    if n_sites < 1:
        raise AnalysisError("control_flow: goto fix-up edge not found")
    rep.analysed["goto fix-up edges"] = n_sites


# ---------------------------------------------------------------------------------------------------------------- P8
def check_rule_line_offsets(model: RepoModel, rep, RID: str, min_sites: int = 6):
    """taint/taint_analysis.py: a rule's `line_num` is the 1-based line an editor shows; the parser's rows are 0-based.  Every comparison
    with rule.line_num must therefore be against `<0-based row> + 1`, where the stored offset of SFGNode.line_no (read from
    SFGNode.__init__ in common_structs.py) is part of the sum."""
    cs = model.module("common_structs.py")
    sfg = cs.classes.get("SFGNode")
    if sfg is None or "__init__" not in sfg.methods:
        raise AnalysisError("SFGNode.__init__ vanished")
    prod = None
    for n in walk_no_nested(sfg.methods["__init__"].node):
        if isinstance(n, ast.Assign) and any(isinstance(t, ast.Attribute) and t.attr == "line_no" and isinstance(t.value, ast.Name) and t.value.id == "self" for t in n.targets):
            lin = _linear(n.value, {})
            if lin is not None and any(k.endswith("start_row") for k in lin):
                prod = (lin.get("1", 0), n.lineno)
    if prod is None:
        raise AnalysisError("SFGNode.__init__: `self.line_no = <stmt>.start_row (+k)` not found")
    m = model.module("taint/taint_analysis.py")
    n_sites = 0
    for f in m.all_funcs():
        for c in walk_no_nested(f.node):
            if not (isinstance(c, ast.Compare) and len(c.ops) == 1 and isinstance(c.ops[0], (ast.Eq, ast.NotEq))):
                continue
            sides = [c.left, c.comparators[0]]
            if not any(isinstance(s_, ast.Attribute) and s_.attr == "line_num" for s_ in sides):
                continue
            other = sides[1] if isinstance(sides[0], ast.Attribute) and sides[0].attr == "line_num" else sides[0]
            while isinstance(other, ast.Call) and call_name(other) == "int" and other.args:
                other = other.args[0]
            lin = _linear(other, {})
            if lin is None:
                continue
            rows = [k for k in lin if k.endswith("line_no") or k.endswith("start_row")]
            if len(rows) != 1 or lin[rows[0]] != 1:
                continue
            n_sites += 1
            total = lin.get("1", 0) + (prod[0] if rows[0].endswith("line_no") else 0)
            key = f"{f.ref}::`{norm(c)}`"
            if total == 1:
                rep.holds(RID, key, m.rel, c.lineno, f"rule line == 0-based row + 1 ({'SFGNode.line_no stores start_row%+d' % prod[0] if rows[0].endswith('line_no') else 'row read directly'})")
            else:
                rep.violation(RID, key, m.rel, c.lineno,
                              f"a rule's line_num (1-based) is compared with `{norm(other)}`, which is the 0-based row {total:+d}"
                              f"{' (SFGNode.line_no = start_row%+d, common_structs.py:%d)' % prod if rows[0].endswith('line_no') else ''}: a rule restricted to a "
                              f"line matches the statement on another line or none")
    if n_sites < min_sites:
        raise AnalysisError(f"rule line comparisons: only {n_sites} recognised (expected >= {min_sites})")
    rep.analysed["comparisons with rule.line_num"] = n_sites


# ---------------------------------------------------------------------------------------------------------------- P9
def check_worklist_membership(model: RepoModel, rep, RID: str, rel: str = "taint/taint_analysis.py", min_sites: int = 1):
    """A worklist with a membership set: what is added to the set is the element that is appended to the list (same expression), and what
    is discarded after a pop is the popped element.  A coarser key makes different pending elements look queued already."""
    m = model.module(rel)
    n_sites = 0
    for f in m.all_funcs():
        stmts = list(walk_no_nested(f.node))
        appends = [c for c in stmts if isinstance(c, ast.Call) and isinstance(c.func, ast.Attribute) and c.func.attr in ("append", "appendleft") and len(c.args) == 1
                   and isinstance(c.func.value, ast.Name)]
        adds = [c for c in stmts if isinstance(c, ast.Call) and isinstance(c.func, ast.Attribute) and c.func.attr == "add" and len(c.args) == 1
                and isinstance(c.func.value, ast.Name)]
        params = {a.arg for a in f.node.args.args}
        for ap in appends:
            for ad in adds:
                L, S = ap.func.value.id, ad.func.value.id
                if not ("worklist" in L and "worklist" in S and L != S):
                    continue
                n_sites += 1
                key = f"{f.ref}::`{L}.append({norm(ap.args[0])})` / `{S}.add(...)`"
                tests = [t for t in stmts if isinstance(t, ast.Compare) and len(t.ops) == 1 and isinstance(t.ops[0], (ast.In, ast.NotIn))
                         and norm(t.comparators[0]) == S]
                bad = []
                if norm(ad.args[0]) != norm(ap.args[0]):
                    bad.append(f"`{S}.add({norm(ad.args[0])})`")
                bad += [f"`{norm(t)}`" for t in tests if norm(t.left) != norm(ap.args[0])]
                if bad:
                    rep.violation(RID, key, rel, ad.lineno,
                                  f"the membership set of the worklist is keyed by something coarser than the queued element ({', '.join(bad)} vs "
                                  f"`{L}.append({norm(ap.args[0])})`): two different pending elements with the same key count as one, the second "
                                  f"is never processed and the flows through it are lost")
                else:
                    rep.holds(RID, key, rel, ad.lineno, "set and list hold the same elements")
    if n_sites < min_sites:
        raise AnalysisError(f"{rel}: worklist with a membership set not recognised")
    rep.analysed["worklists with a membership set"] = n_sites


# ---------------------------------------------------------------------------------------------------------------- P10
def check_no_keyed_collapse(model: RepoModel, rep, RID: str, rels, min_sites: int = 0):
    """`{x.attr: x for x in L}` keeps one element per attribute value.  In the rule applier the elements are rules that differ in other
    fields (target, line, unit): collapsing them by one attribute removes rules, and with them flows that were reported before."""
    n = 0
    for rel in rels:
        m = model.module(rel)
        for f in m.all_funcs():
            for d in walk_no_nested(f.node):
                if not (isinstance(d, ast.DictComp) and len(d.generators) == 1 and isinstance(d.generators[0].target, ast.Name)):
                    continue
                v = d.generators[0].target.id
                if not (isinstance(d.value, ast.Name) and d.value.id == v and isinstance(d.key, ast.Attribute) and isinstance(d.key.value, ast.Name) and d.key.value.id == v):
                    continue
                src = norm(d.generators[0].iter)
                if "rule" not in src.lower():
                    continue
                n += 1
                key = f"{f.ref}::`{norm(d)}`"
                rep.violation(RID, key, rel, d.lineno,
                              f"{f.ref} collapses `{src}` to one rule per `{d.key.attr}`: rules that share the {d.key.attr} but differ in target, line or "
                              f"unit are dropped (the last one wins), so adding a rule can remove a previously reported flow")
    rep.analysed["rule collections collapsed by one attribute"] = n
    return n


# ---------------------------------------------------------------------------------------------------------------- P7
def check_helper_stores_copy(model: RepoModel, rep, RID: str, rel: str = "util/util.py", min_sites: int = 2):
    """Container helpers `add_to_*` own what they store: a helper that updates `d[key]` in place (`.add` / `.update` / `.append`) never
    stores a caller's collection object itself under the key (`d[key] = value`), otherwise the next update mutates the caller's set --
    for the state merge that set is the field map of another object version."""
    m = model.module(rel)
    n = 0
    for f in m.all_funcs():
        if f.cls is not None:
            continue
        params = [a.arg for a in f.node.args.args]
        if len(params) < 3:
            continue
        d = params[0]
        inplace = [c for c in walk_no_nested(f.node) if isinstance(c, ast.Call) and isinstance(c.func, ast.Attribute) and c.func.attr in ("add", "update", "append", "extend")
                   and isinstance(c.func.value, ast.Subscript) and isinstance(c.func.value.value, ast.Name) and c.func.value.value.id == d]
        if not inplace:
            continue
        n += 1
        key = f"{f.ref}::`{d}[...]` is owned by the helper"
        bare = [s for s in walk_no_nested(f.node) if isinstance(s, ast.Assign) and any(isinstance(t, ast.Subscript) and isinstance(t.value, ast.Name) and t.value.id == d for t in s.targets)
                and isinstance(s.value, ast.Name) and s.value.id in params[1:]]
        if bare:
            rep.violation(RID, key, rel, bare[0].lineno,
                          f"{f.ref} stores the caller's object `{bare[0].value.id}` under the key and later updates `{d}[...]` in place "
                          f"(`.{inplace[0].func.attr}`): the first contributor's collection grows with every later contribution (two versions of "
                          f"an object end up sharing one field set)")
        else:
            rep.holds(RID, key, rel, f.node.lineno, f"every store under the key is a fresh collection; updates in place: {len(inplace)}")
    if n < min_sites:
        raise AnalysisError(f"{rel}: only {n} accumulating dict helpers recognised (expected >= {min_sites})")
    rep.analysed["accumulating dict helpers"] = n


# ---------------------------------------------------------------------------------------------------------------- P11
def check_truthiness_after_numeric_conversion(model: RepoModel, rep, RID: str, rels, min_sites: int = 0):
    """`v = int(x)` followed by `if v and ...` / `if not v`: the number 0 is a value, not an absence.  In the state computations operand
    values are strings exactly so that a presence test is not a zero test."""
    n = 0
    for rel in rels:
        m = model.module(rel)
        for f in m.all_funcs():
            conv = {}
            for s in walk_no_nested(f.node):
                if isinstance(s, ast.Assign) and len(s.targets) == 1 and isinstance(s.targets[0], ast.Name) and isinstance(s.value, ast.Call) \
                        and call_name(s.value) in ("int", "float") and s.value.args:
                    conv.setdefault(s.targets[0].id, s)
            if not conv:
                continue
            for t in walk_no_nested(f.node):
                tests = []
                if isinstance(t, (ast.If, ast.While, ast.IfExp)):
                    tests = [t.test]
                for test in tests:
                    operands = []
                    stack = [test]
                    while stack:
                        e = stack.pop()
                        if isinstance(e, ast.BoolOp):
                            stack.extend(e.values)
                        elif isinstance(e, ast.UnaryOp) and isinstance(e.op, ast.Not):
                            stack.append(e.operand)
                        elif isinstance(e, ast.Name):
                            operands.append(e)
                    for o in operands:
                        if o.id in conv and conv[o.id].lineno < test.lineno:
                            n += 1
                            key = f"{f.ref}::truthiness of `{o.id}` after `{norm(conv[o.id])}`"
                            rep.violation(RID, key, rel, test.lineno,
                                          f"`{o.id}` is converted to a number (line {conv[o.id].lineno}) and then tested for presence in "
                                          f"`{norm(test)[:80]}`: the value 0 counts as absent and the operand combination is discarded")
    rep.analysed["presence tests on number-converted values"] = n
    return n
