"""Behaviour-preserving rewrites of the analysed sources (used by tools/benign_rename.py and by the thorough tier's robustness section).

Every function takes the text of a module and returns the text of a module that behaves the same.  The rewrites are applied to a
scratch copy only; the checks must give the same verdict on the copy as on the original -- a difference is fragility of a checker
(a recogniser that depends on layout, on local names, on the polarity of a test ...), never a finding about the repository."""
import ast
import hashlib

MODES = ["reformat", "suffix", "scramble", "pass", "wrap", "invert", "guard", "yoda", "augassign", "emptyctor", "alias", "flatten", "nest", "ternary", "hoist"]
mode = "scramble"


def new_name(n: str) -> str:
    if mode == "suffix":
        return n + "_q"
    return "l" + hashlib.md5(n.encode()).hexdigest()[:6]


def rename_function(fn):
    params = {a.arg for a in fn.args.args + fn.args.kwonlyargs + fn.args.posonlyargs}
    if fn.args.vararg:
        params.add(fn.args.vararg.arg)
    if fn.args.kwarg:
        params.add(fn.args.kwarg.arg)
    stores, glob_, nested_names = set(), set(), set()
    for n in ast.walk(fn):
        if isinstance(n, (ast.Global, ast.Nonlocal)):
            glob_ |= set(n.names)
        if n is not fn and isinstance(n, (ast.FunctionDef, ast.AsyncFunctionDef, ast.Lambda, ast.ClassDef)):
            for m in ast.walk(n):
                if isinstance(m, ast.Name):
                    nested_names.add(m.id)

    def collect(node):
        for c in ast.iter_child_nodes(node):
            if isinstance(c, (ast.FunctionDef, ast.AsyncFunctionDef, ast.ClassDef, ast.Lambda)):
                continue
            if isinstance(c, ast.Name) and isinstance(c.ctx, ast.Store):
                stores.add(c.id)
            collect(c)
    collect(fn)
    loc = {s for s in stores if s not in params and s not in glob_ and s not in nested_names and not s.startswith("__")}

    def rn(node):
        for c in ast.iter_child_nodes(node):
            if isinstance(c, (ast.FunctionDef, ast.AsyncFunctionDef)):
                rename_function(c)
                continue
            if isinstance(c, (ast.ClassDef, ast.Lambda)):
                continue
            if isinstance(c, ast.Name) and c.id in loc:
                c.id = new_name(c.id)
            rn(c)
    rn(fn)


class AddPass(ast.NodeTransformer):
    def _pad(self, body):
        out = []
        for st in body:
            out.append(st)
            if not isinstance(st, (ast.Return, ast.Break, ast.Continue, ast.Raise, ast.FunctionDef, ast.AsyncFunctionDef, ast.ClassDef, ast.Import, ast.ImportFrom)):
                out.append(ast.Pass())
        return out

    def generic_visit(self, node):
        super().generic_visit(node)
        if self.depth > 0:
            for fld in ("body", "orelse", "finalbody"):
                b = getattr(node, fld, None)
                if isinstance(b, list) and b and isinstance(b[0], ast.stmt):
                    setattr(node, fld, self._pad(b))
        return node
    depth = 0

    def visit_FunctionDef(self, node):
        self.depth += 1
        self.generic_visit(node)
        self.depth -= 1
        return node
    visit_AsyncFunctionDef = visit_FunctionDef


class Invert(ast.NodeTransformer):
    def visit_If(self, node):
        self.generic_visit(node)
        if node.orelse and not (len(node.orelse) == 1 and isinstance(node.orelse[0], ast.If)):
            t = node.test
            nt = t.operand if isinstance(t, ast.UnaryOp) and isinstance(t.op, ast.Not) else ast.UnaryOp(op=ast.Not(), operand=t)
            return ast.If(test=nt, body=node.orelse, orelse=node.body)
        return node


class Guard(ast.NodeTransformer):
    def _loop(self, node):
        self.generic_visit(node)
        if len(node.body) == 1 and isinstance(node.body[0], ast.If) and not node.body[0].orelse:
            i = node.body[0]
            t = i.test
            nt = t.operand if isinstance(t, ast.UnaryOp) and isinstance(t.op, ast.Not) else ast.UnaryOp(op=ast.Not(), operand=t)
            node.body = [ast.If(test=nt, body=[ast.Continue()], orelse=[])] + i.body
        return node
    visit_For = _loop
    visit_While = _loop


class Yoda(ast.NodeTransformer):
    def visit_Compare(self, node):
        self.generic_visit(node)
        if len(node.ops) == 1 and isinstance(node.ops[0], (ast.Eq, ast.NotEq)):
            return ast.Compare(left=node.comparators[0], ops=node.ops, comparators=[node.left])
        return node


class Aug(ast.NodeTransformer):
    def visit_Assign(self, node):
        self.generic_visit(node)
        if len(node.targets) == 1 and isinstance(node.targets[0], ast.Name) and isinstance(node.value, ast.BinOp) \
                and isinstance(node.value.left, ast.Name) and node.value.left.id == node.targets[0].id \
                and isinstance(node.value.op, (ast.Add, ast.Sub, ast.BitOr, ast.BitAnd, ast.Mult)):
            return ast.AugAssign(target=ast.Name(id=node.targets[0].id, ctx=ast.Store()), op=node.value.op, value=node.value.right)
        return node


class EmptyCtor(ast.NodeTransformer):
    def visit_Assign(self, node):
        self.generic_visit(node)
        v = node.value
        if isinstance(v, ast.List) and not v.elts:
            node.value = ast.Call(func=ast.Name(id="list", ctx=ast.Load()), args=[], keywords=[])
        elif isinstance(v, ast.Dict) and not v.keys:
            node.value = ast.Call(func=ast.Name(id="dict", ctx=ast.Load()), args=[], keywords=[])
        return node


class Alias(ast.NodeTransformer):
    """receiver of a method call bound to a temporary first (evaluation order is unchanged: the receiver is evaluated before the arguments)"""
    def _split(self, st, call):
        f = call.func
        if isinstance(f, ast.Attribute) and isinstance(f.value, ast.Attribute):
            root = f.value
            while isinstance(root, ast.Attribute):
                root = root.value
            if isinstance(root, ast.Name) and root.id == "self":
                tmp = ast.Assign(targets=[ast.Name(id="_r", ctx=ast.Store())], value=f.value)
                call.func = ast.Attribute(value=ast.Name(id="_r", ctx=ast.Load()), attr=f.attr, ctx=ast.Load())
                return [tmp, st]
        return st

    def visit_Expr(self, node):
        if isinstance(node.value, ast.Call):
            return self._split(node, node.value)
        return node

    def visit_Assign(self, node):
        if isinstance(node.value, ast.Call) and len(node.targets) == 1:
            return self._split(node, node.value)
        return node


class Flatten(ast.NodeTransformer):
    """`if c: <body that always leaves> else: B`  ->  `if c: <body>` followed by B (the else branch is lifted out)"""
    def _leaves(self, body):
        return bool(body) and isinstance(body[-1], (ast.Return, ast.Continue, ast.Break, ast.Raise))

    def _block(self, stmts):
        out = []
        for st in stmts:
            if isinstance(st, ast.If) and st.orelse and self._leaves(st.body):
                out.append(ast.If(test=st.test, body=st.body, orelse=[]))
                out.extend(self._block(st.orelse))
            else:
                out.append(st)
        return out

    def generic_visit(self, node):
        super().generic_visit(node)
        for fld in ("body", "orelse", "finalbody"):
            b = getattr(node, fld, None)
            if isinstance(b, list) and b and isinstance(b[0], ast.stmt):
                setattr(node, fld, self._block(b))
        return node


class Nest(ast.NodeTransformer):
    """the reverse: `if c: <body that always leaves>` followed by the rest of the block  ->  `if c: <body> else: <rest>`"""
    def _leaves(self, body):
        return bool(body) and isinstance(body[-1], (ast.Return, ast.Continue, ast.Break, ast.Raise))

    def _block(self, stmts):
        for i, st in enumerate(stmts):
            if isinstance(st, ast.If) and not st.orelse and self._leaves(st.body) and i + 1 < len(stmts) \
                    and not any(isinstance(x, (ast.FunctionDef, ast.ClassDef, ast.Global, ast.Nonlocal)) for x in stmts[i + 1:]):
                return stmts[:i] + [ast.If(test=st.test, body=st.body, orelse=self._block(stmts[i + 1:]))]
        return stmts

    def generic_visit(self, node):
        super().generic_visit(node)
        for fld in ("body", "orelse", "finalbody"):
            b = getattr(node, fld, None)
            if isinstance(b, list) and b and isinstance(b[0], ast.stmt):
                setattr(node, fld, self._block(b))
        return node


class Ternary(ast.NodeTransformer):
    """`if c: x = a else: x = b` (same plain target, one assignment per arm)  ->  `x = a if c else b`"""
    def visit_If(self, node):
        self.generic_visit(node)
        if len(node.body) == 1 and len(node.orelse) == 1 and isinstance(node.body[0], ast.Assign) and isinstance(node.orelse[0], ast.Assign):
            a, b = node.body[0], node.orelse[0]
            if len(a.targets) == 1 and len(b.targets) == 1 and isinstance(a.targets[0], ast.Name) and isinstance(b.targets[0], ast.Name) \
                    and a.targets[0].id == b.targets[0].id:
                return ast.Assign(targets=[ast.Name(id=a.targets[0].id, ctx=ast.Store())], value=ast.IfExp(test=node.test, body=a.value, orelse=b.value))
        return node


class Hoist(ast.NodeTransformer):
    """first positional argument that is itself a call is computed into a temporary first: `x = f(g(y), z)` -> `_h = g(y); x = f(_h, z)`
    (only when the callee expression is a plain name or an attribute chain of names, whose evaluation has no effect)"""
    n = 0

    def _ok_func(self, f):
        while isinstance(f, ast.Attribute):
            f = f.value
        return isinstance(f, ast.Name)

    def _split(self, st, call):
        if call.args and isinstance(call.args[0], ast.Call) and self._ok_func(call.func) and not any(isinstance(a, ast.Starred) for a in call.args) \
                and not any(isinstance(x, (ast.Yield, ast.YieldFrom, ast.Await, ast.NamedExpr, ast.Lambda, ast.GeneratorExp, ast.ListComp)) for x in ast.walk(call)):
            Hoist.n += 1
            nm = f"_h{Hoist.n}"                      # a fresh name per extraction, as a developer would choose
            tmp = ast.Assign(targets=[ast.Name(id=nm, ctx=ast.Store())], value=call.args[0])
            call.args[0] = ast.Name(id=nm, ctx=ast.Load())
            return [tmp, st]
        return st

    def visit_Expr(self, node):
        if isinstance(node.value, ast.Call):
            return self._split(node, node.value)
        return node

    def visit_Assign(self, node):
        if isinstance(node.value, ast.Call) and len(node.targets) == 1 and isinstance(node.targets[0], ast.Name):
            return self._split(node, node.value)
        return node


TRANSFORMERS = {"ternary": Ternary, "hoist": Hoist, "flatten": Flatten, "nest": Nest, "alias": Alias, "invert": Invert, "guard": Guard, "yoda": Yoda, "augassign": Aug, "emptyctor": EmptyCtor}


def transform(src: str, m: str = None) -> str:
    global mode
    if m is not None:
        mode = m
    Hoist.n = 0
    t = ast.parse(src)
    if mode in TRANSFORMERS:
        t = TRANSFORMERS[mode]().visit(t)
        ast.fix_missing_locations(t)
        return ast.unparse(t) + "\n"
    if mode == "pass":
        t = AddPass().visit(t)
        ast.fix_missing_locations(t)
        return ast.unparse(t) + "\n"
    if mode == "wrap":
        for node in ast.walk(t):
            if isinstance(node, (ast.FunctionDef, ast.AsyncFunctionDef)):
                doc = node.body[:1] if node.body and isinstance(node.body[0], ast.Expr) and isinstance(node.body[0].value, ast.Constant) and isinstance(node.body[0].value.value, str) else []
                rest = node.body[len(doc):]
                decls = [s_ for s_ in rest if isinstance(s_, (ast.Global, ast.Nonlocal))]
                rest = [s_ for s_ in rest if not isinstance(s_, (ast.Global, ast.Nonlocal))]
                if rest:
                    node.body = doc + decls + [ast.If(test=ast.Constant(True), body=rest, orelse=[])]
        ast.fix_missing_locations(t)
        return ast.unparse(t) + "\n"
    if mode != "reformat":
        for node in t.body:
            if isinstance(node, (ast.FunctionDef, ast.AsyncFunctionDef)):
                rename_function(node)
            if isinstance(node, ast.ClassDef):
                for m in node.body:
                    if isinstance(m, (ast.FunctionDef, ast.AsyncFunctionDef)):
                        rename_function(m)
    return ast.unparse(t) + "\n"


