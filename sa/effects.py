"""E3 -- filesystem effect sites and backward provenance of path expressions.

``effect_sites`` enumerates calls that create, write or delete filesystem objects.
``Provenance`` traces a path expression backwards through local assignments, ``os.path`` helpers,
f-strings, ``self.X`` attributes (all assignments in the class hierarchy), parameters (all resolved
call sites, by-name fallback for unresolved receivers) down to *roots*:

  workspace   options.workspace
  input       options.in_path, unit_info.original_path, the values of dst_file_to_src_file
  settings    options.default_settings / additional settings
  const:<s>   a literal string
  config:<N>  a constant of config.py (resolved further when it is itself an expression)
  unknown:<why>
"""
from __future__ import annotations

import ast
from dataclasses import dataclass
from typing import Dict, List, Optional, Set, Tuple

from .model import ClassInfo, Func, RepoModel, call_name, const_str, dotted, is_self_attr, norm, walk_no_nested

PATH_PASSTHROUGH = {"os.path.join", "os.path.abspath", "os.path.realpath", "os.path.normpath", "os.path.dirname",
                    "os.path.expanduser", "os.path.expandvars", "str", "os.fspath", "Path", "pathlib.Path"}
PATH_SPLIT = {"os.path.splitext", "os.path.split"}


@dataclass
class Site:
    func: Func
    call: ast.Call
    kind: str          # write | create | delete | copy | subprocess
    path_args: List[Tuple[str, ast.AST]]   # (role, expr): role in dst / src / target

    @property
    def where(self) -> str:
        return f"{self.func.module.rel}::{self.func.qualname}"


def _open_mode(c: ast.Call) -> Optional[str]:
    m = None
    if len(c.args) >= 2:
        m = const_str(c.args[1])
    for k in c.keywords:
        if k.arg == "mode":
            m = const_str(k.value)
    return m if m is not None else ("r" if len(c.args) < 2 and not any(k.arg == "mode" for k in c.keywords) else "?")


def effect_sites(model: RepoModel) -> List[Site]:
    out: List[Site] = []
    for f in model.all_funcs():
        for c in model.calls_in(f):
            cn = call_name(c) or ""
            last = c.func.attr if isinstance(c.func, ast.Attribute) else cn.split(".")[-1]
            if cn == "open" or cn.endswith(".open") and cn in ("io.open", "codecs.open"):
                mode = _open_mode(c)
                if mode and any(ch in mode for ch in "wax+") and c.args:
                    out.append(Site(f, c, "write", [("dst", c.args[0])]))
                elif mode == "?" and c.args:
                    out.append(Site(f, c, "write", [("dst", c.args[0])]))
            elif cn in ("os.makedirs", "os.mkdir") and c.args:
                out.append(Site(f, c, "create", [("dst", c.args[0])]))
            elif cn in ("os.unlink", "os.remove", "os.rmdir", "shutil.rmtree", "os.removedirs") and c.args:
                out.append(Site(f, c, "delete", [("target", c.args[0])]))
            elif cn in ("os.rename", "os.replace", "shutil.move", "os.symlink", "os.link") and len(c.args) >= 2:
                out.append(Site(f, c, "copy", [("src", c.args[0]), ("dst", c.args[1])]))
            elif cn in ("shutil.copy", "shutil.copy2", "shutil.copyfile", "shutil.copytree") and len(c.args) >= 2:
                out.append(Site(f, c, "copy", [("src", c.args[0]), ("dst", c.args[1])]))
            elif last in ("to_feather", "to_csv", "to_json", "to_pickle", "to_parquet", "savefig", "write_dot", "write_text",
                          "write_bytes", "touch") and isinstance(c.func, ast.Attribute):
                if c.args:
                    out.append(Site(f, c, "write", [("dst", c.args[0])]))
                elif last in ("touch", "write_text", "write_bytes"):
                    out.append(Site(f, c, "write", [("dst", c.func.value)]))
            elif cn in ("subprocess.run", "subprocess.call", "subprocess.check_call", "subprocess.Popen", "subprocess.check_output", "os.system"):
                pa = []
                if c.args:
                    cmd = c.args[0]
                    if isinstance(cmd, ast.BinOp):
                        cmd = cmd.left
                    if isinstance(cmd, (ast.List, ast.Tuple)):
                        el = cmd.elts
                        for i, x in enumerate(el):
                            if const_str(x) in ("-o", "--output") and i + 1 < len(el):
                                pa.append(("dst", el[i + 1]))
                        if el:
                            pa.append(("program", el[0]))
                    else:
                        pa.append(("cmd", cmd))
                out.append(Site(f, c, "subprocess", pa))
            elif cn in ("np.save", "numpy.save", "pickle.dump", "nx.write_gpickle") and c.args:
                out.append(Site(f, c, "write", [("dst", c.args[0])]))
    return out


class Provenance:
    def __init__(self, model: RepoModel):
        self.model = model
        self._callers: Optional[Dict[int, List[Tuple[Func, ast.Call]]]] = None
        self._by_name: Dict[str, List[Tuple[Func, ast.Call]]] = {}
        self.by_name_used: List[str] = []
        cfgm = model.modules.get("config/config.py")
        self.config_assigns = cfgm.assigns if cfgm else {}

    # ------------------------------------------------------------------ call sites
    def _index_calls(self):
        """cheap index of every call by the simple name it is made through (attribute or bare name)."""
        self._callers = {}
        for f in self.model.all_funcs():
            for c in self.model.calls_in(f):
                if isinstance(c.func, ast.Attribute):
                    self._by_name.setdefault(c.func.attr, []).append((f, c))
                elif isinstance(c.func, ast.Name):
                    self._by_name.setdefault(c.func.id, []).append((f, c))

    def callers(self, f: Func) -> List[Tuple[Func, ast.Call]]:
        if self._callers is None:
            self._index_calls()
        if id(f.node) in self._callers:
            return self._callers[id(f.node)]
        res: List[Tuple[Func, ast.Call]] = []
        names = [f.name]
        if f.name == "__init__" and f.cls is not None:
            names = [f.cls.name] + [sc.name for sc in self.model.subclasses(f.cls) if "__init__" not in sc.methods] + ["__init__"]
        unresolved = []
        for nm in names:
            for g, c in self._by_name.get(nm, []):
                tg = self.model.resolve_call(c, g)
                if any(t.node is f.node for t in tg):
                    res.append((g, c))
                elif not tg and isinstance(c.func, ast.Attribute) and nm == f.name and f.cls is not None:
                    unresolved.append((g, c))
        if not res and unresolved:
            # by-name fallback: receivers whose class cannot be determined
            npos = len(f.params) - 1
            for g, c in unresolved:
                recv_cls = self.model.expr_class(c.func.value, g)
                if recv_cls is not None and recv_cls is not f.cls and f.cls not in self.model.mro(recv_cls):
                    continue
                n = len(c.args) + len(c.keywords)
                if npos - len(f.node.args.defaults) <= n <= npos:
                    res.append((g, c))
            if res:
                self.by_name_used.append(f.ref)
        self._callers[id(f.node)] = res
        return res

    @staticmethod
    def arg_for(call: ast.Call, f: Func, param: str) -> Optional[ast.AST]:
        params = f.params
        off = 1 if (f.cls is not None and params and params[0] in ("self", "cls")) else 0
        idx = params.index(param) - off
        for k in call.keywords:
            if k.arg == param:
                return k.value
        if 0 <= idx < len(call.args):
            return call.args[idx]
        # default value
        d = f.node.args.defaults
        di = params.index(param) - (len(params) - len(d))
        if 0 <= di < len(d):
            return d[di]
        return None

    # ------------------------------------------------------------------ roots
    def roots(self, e: ast.AST, f: Func, depth: int = 0, seen: Optional[Set] = None) -> Set[str]:
        """memoised; a query that is already in progress (a cycle through recursion) contributes nothing."""
        if not hasattr(self, "_memo"):
            self._memo: Dict[Tuple[int, int], Set[str]] = {}
            self._active: Set[Tuple[int, int]] = set()
            self._keep: List = []
        key = (id(e), id(f.node))
        if key in self._memo:
            return self._memo[key]
        if key in self._active:
            return set()
        if depth > 40:
            return {"unknown:depth"}
        self._active.add(key)
        self._keep.append((e, f))       # keep nodes alive so ids stay unique
        try:
            res = self._roots(e, f, depth, seen if seen is not None else set())
        finally:
            self._active.discard(key)
        # results computed while a cycle was cut may be partial; only memoise at the top of a traversal
        if not self._active:
            self._memo[key] = res
        return res

    def _roots(self, e: ast.AST, f: Func, depth: int, seen: Set) -> Set[str]:
        d = dotted(e)
        if d is not None:
            if d.endswith("options.workspace"):
                return {"workspace"}
            if d.endswith("options.in_path"):
                return {"input"}
            if d.endswith("original_path") or d.endswith(".unit_path") and False:
                return {"input"}
            if d.endswith("options.default_settings") or d.endswith("options.addition_settings") or d.endswith("options.additional_settings"):
                return {"settings"}
            if d.startswith("config."):
                name = d.split(".", 1)[1]
                v = self.config_assigns.get(name)
                if v is not None:
                    cs = const_str(v)
                    if cs is not None:
                        return {f"config:{name}={cs}"}
                    cm = self.model.modules["config/config.py"]
                    fake = Func("<config>", ast.parse("def _():\n pass").body[0], cm, None)
                    return self.roots(v, fake, depth + 1, seen) or {f"config:{name}"}
                return {f"config:{name}"}
        if isinstance(e, ast.Constant):
            return {f"const:{e.value!r}"} if isinstance(e.value, str) else {f"const:{e.value!r}"}
        if isinstance(e, ast.JoinedStr):
            for v in e.values:
                if isinstance(v, ast.FormattedValue):
                    return self.roots(v.value, f, depth + 1, seen)
                if isinstance(v, ast.Constant) and v.value:
                    return {f"const:{v.value!r}"}
            return {"const:''"}
        if isinstance(e, ast.BinOp) and isinstance(e.op, (ast.Add, ast.Mod, ast.Div)):
            return self.roots(e.left, f, depth + 1, seen)
        if isinstance(e, ast.Subscript):
            return self.roots(e.value, f, depth + 1, seen)
        if isinstance(e, ast.IfExp):
            return self.roots(e.body, f, depth + 1, seen) | self.roots(e.orelse, f, depth + 1, seen)
        if isinstance(e, ast.Call):
            cn = call_name(e) or ""
            if cn in PATH_PASSTHROUGH or cn in PATH_SPLIT:
                return self.roots(e.args[0], f, depth + 1, seen) if e.args else {"unknown:noargs"}
            if isinstance(e.func, ast.Attribute) and e.func.attr in ("values", "keys", "items") and is_self_attr(e.func.value) and f.cls is not None:
                # provenance of the keys / values stored in a dict attribute of the class
                out: Set[str] = set()
                for k in self.model.mro(f.cls):
                    for g in k.methods.values():
                        for n in walk_no_nested(g.node):
                            if isinstance(n, ast.Assign):
                                for t in n.targets:
                                    if isinstance(t, ast.Subscript) and is_self_attr(t.value, e.func.value.attr):
                                        if e.func.attr in ("values", "items"):
                                            out |= self.roots(n.value, g, depth + 1, seen)
                                        if e.func.attr in ("keys", "items"):
                                            out |= self.roots(t.slice, g, depth + 1, seen)
                return out or {f"unknown:self.{e.func.value.attr}.{e.func.attr}()"}
            if isinstance(e.func, ast.Attribute) and e.func.attr in ("replace", "rstrip", "lstrip", "strip", "format", "lower", "upper",
                                                                     "removesuffix", "removeprefix", "get", "with_suffix", "joinpath"):
                if e.func.attr == "get" and dotted(e.func.value) and (dotted(e.func.value) or "").endswith("dst_file_to_src_file"):
                    return {"input"}
                return self.roots(e.func.value, f, depth + 1, seen)
            if cn in ("os.path.basename", "os.path.relpath"):
                return {"relative-name"}
            if cn in ("tempfile.mkdtemp", "tempfile.mkstemp", "tempfile.gettempdir", "tempfile.NamedTemporaryFile"):
                return {"tempdir"}
            if cn in ("os.getcwd",):
                return {"cwd"}
            # a helper returning a path: follow returns
            tg = self.model.resolve_call(e, f)
            out: Set[str] = set()
            for t in tg[:3]:
                for r in walk_no_nested(t.node):
                    if isinstance(r, ast.Return) and r.value is not None:
                        out |= self.roots(r.value, t, depth + 1, seen)
            return out or {f"unknown:call {cn}"}
        if isinstance(e, ast.Attribute):
            if isinstance(e.value, ast.Name) and e.value.id == "self" and f.cls is not None:
                out = set()
                # a dict attribute: what reaches a consumer that iterates it are its keys
                for k in self.model.mro(f.cls):
                    for g in k.methods.values():
                        for n in walk_no_nested(g.node):
                            if isinstance(n, ast.Assign):
                                for t in n.targets:
                                    if isinstance(t, ast.Subscript) and is_self_attr(t.value, e.attr):
                                        out |= self.roots(t.slice, g, depth + 1, seen)
                if out:
                    return out
                for k in self.model.mro(f.cls) + self.model.subclasses(f.cls):
                    for g in k.methods.values():
                        for n in walk_no_nested(g.node):
                            tgt = val = None
                            if isinstance(n, ast.Assign) and len(n.targets) == 1:
                                tgt, val = n.targets[0], n.value
                            elif isinstance(n, ast.AnnAssign) and n.value is not None:
                                tgt, val = n.target, n.value
                            if tgt is not None and is_self_attr(tgt, e.attr):
                                out |= self.roots(val, g, depth + 1, seen)
                return out or {f"unknown:self.{e.attr}"}
            # attribute of another object: element of a table etc.
            if e.attr in ("path",) and isinstance(e.value, ast.Name):
                return self.roots(e.value, f, depth + 1, seen)
            # an option other than the well-known ones: follow what is stored into `<...>.options.<attr>` anywhere in lian
            dd = dotted(e) or ""
            if ".options." in "." + dd or dd.startswith("options."):
                out = set()
                for mod in self.model.modules.values():
                    for g in mod.all_funcs():
                        for n in walk_no_nested(g.node):
                            if isinstance(n, ast.Assign) and len(n.targets) == 1 and isinstance(n.targets[0], ast.Attribute) \
                                    and n.targets[0].attr == e.attr and (dotted(n.targets[0]) or "").endswith("options." + e.attr):
                                v = n.value
                                if isinstance(v, ast.Name) and v.id in g.params:
                                    # a parameter: its default value, when it has one, is what callers that omit it pass
                                    a_ = g.node.args
                                    pos = a_.args[len(a_.args) - len(a_.defaults):]
                                    dflt = {x.arg: d_ for x, d_ in zip(pos, a_.defaults)}
                                    if v.id in dflt:
                                        out |= self.roots(dflt[v.id], g, depth + 1, seen)
                                        continue
                                out |= self.roots(v, g, depth + 1, seen)
                if out:
                    return out
            return {f"unknown:attr {norm(e)}"}
        if isinstance(e, ast.Name) and e.id == "__file__":
            return {"repo"}
        if isinstance(e, ast.Name):
            out = set()
            found = False
            for n in walk_no_nested(f.node):
                if isinstance(n, ast.Assign):
                    for t in n.targets:
                        if isinstance(t, ast.Name) and t.id == e.id:
                            found = True
                            out |= self.roots(n.value, f, depth + 1, seen)
                        elif isinstance(t, (ast.Tuple, ast.List)) and any(isinstance(x, ast.Name) and x.id == e.id for x in t.elts):
                            found = True
                            out |= self.roots(n.value, f, depth + 1, seen)
                elif isinstance(n, (ast.For, ast.AsyncFor)) and any(isinstance(x, ast.Name) and x.id == e.id for x in ast.walk(n.target)):
                    found = True
                    it = n.iter
                    if isinstance(it, ast.Call) and call_name(it) == "os.walk" and it.args:
                        out |= self.roots(it.args[0], f, depth + 1, seen)
                    elif isinstance(it, ast.Call) and call_name(it) in ("os.listdir", "os.scandir") and it.args:
                        out |= {"listdir-entry"}
                    elif isinstance(it, ast.Name) and it.id in ("files", "dirs"):
                        out |= {"listdir-entry"}
                    else:
                        out |= self.roots(it, f, depth + 1, seen)
                elif isinstance(n, ast.With):
                    for it in n.items:
                        if isinstance(it.optional_vars, ast.Name) and it.optional_vars.id == e.id:
                            found = True
                            out |= self.roots(it.context_expr, f, depth + 1, seen)
            if e.id in f.params:
                found = True
                cs = self.callers(f)
                if not cs:
                    out.add(f"unknown:no caller of {f.qualname}({e.id})")
                for g, c in cs:
                    a = self.arg_for(c, f, e.id)
                    if a is None:
                        out.add(f"unknown:argument {e.id} omitted at {g.qualname}")
                    else:
                        out |= self.roots(a, g, depth + 1, seen)
            if not found:
                # module-level name
                v = f.module.assigns.get(e.id)
                if v is not None:
                    fake = Func("<module>", ast.parse("def _():\n pass").body[0], f.module, None)
                    return self.roots(v, fake, depth + 1, seen)
                return {f"unknown:name {e.id}"}
            return out
        return {f"unknown:{type(e).__name__}"}
