"""Cross-cutting rules, third family: contracts between a value and the code that takes it apart (paths, tables, records, identity).

  V1  the stem / extension of a file name is taken with os.path.splitext, not with first-dot string operations    check_path_string_ops
  V2  the values of a kind table are pairwise distinct                                                             check_enum_distinct
  V3  a record constructed positionally from same-named attributes matches the field order                         check_positional_records
  V4  value objects are compared with == / !=, never with is / is not                                              check_identity_comparisons
  V5  a starred unpacking `first, *rest = xs` is guarded against the empty sequence                                check_starred_unpacking
"""
from __future__ import annotations

import ast
from typing import Dict, Iterable, List, Optional, Set, Tuple

from .cfg import cfg_of
from .model import AnalysisError, Func, RepoModel, call_name, dotted, literal, norm, walk_no_nested

PATH_HINTS = ("path", "file")


def _is_pathish(e, f: Func) -> bool:
    """the expression denotes a file name or path: its text mentions path/file, it is an os.path call, or `<x>.name` of an entry of
    os.scandir / Path.iterdir"""
    t = norm(e).lower()
    for other in ("import_path", "access_path", "call_path", "callee_path", "new_path", "path_str"):       # dotted names / analysis paths, not files
        t = t.replace(other, "")
    if any(h in t for h in PATH_HINTS) or (isinstance(e, ast.Call) and (call_name(e) or "").startswith("os.path.")):
        return True
    if isinstance(e, ast.Attribute) and e.attr == "name" and isinstance(e.value, ast.Name):
        for L in walk_no_nested(f.node):
            if isinstance(L, ast.For) and isinstance(L.target, ast.Name) and L.target.id == e.value.id and any(
                    isinstance(c, ast.Call) and (call_name(c) or "") in ("os.scandir", "os.listdir") or (isinstance(c, ast.Call) and isinstance(c.func, ast.Attribute)
                                                                                                          and c.func.attr == "iterdir") for c in ast.walk(L.iter)):
                return True
    return False


def check_path_string_ops(model: RepoModel, rep, RID: str, rels: Iterable[str]) -> int:
    """V1: `name.split(".")[0]`, `path[path.find("."):]`, `path[:path.index(ext)]` cut a file name at its FIRST dot (or at the first
    occurrence of the extension text anywhere in the path).  For `util.bak.py`, for a workspace under `build-1.2/`, for `~/.cache/ws`
    that is a different answer from os.path.splitext: modules get the wrong name, files appear to have no language, outputs are
    written outside the workspace.  Instances: every os.path.splitext on a path (holds) and every first-dot operation on one."""
    n = 0
    for rel in rels:
        mod = model.module(rel)
        for f in mod.all_funcs():
            for c in walk_no_nested(f.node):
                if not isinstance(c, ast.Call):
                    continue
                cn = call_name(c) or ""
                if cn == "os.path.splitext":
                    n += 1
                    rep.holds(RID, f"{rel}::{f.qualname}::`{norm(c)[:70]}`::extension taken with os.path.splitext", rel, c.lineno, "splitext")
                    continue
                if not isinstance(c.func, ast.Attribute):
                    continue
                recv = c.func.value
                # unwrap `.lower()` / `.upper()` / `.strip()`
                while isinstance(recv, ast.Call) and isinstance(recv.func, ast.Attribute) and recv.func.attr in ("lower", "upper", "strip", "casefold") and not recv.args:
                    recv = recv.func.value
                first_dot = c.func.attr in ("split", "find", "index", "partition") and c.args and (
                    (isinstance(c.args[0], ast.Constant) and c.args[0].value == ".") or
                    (c.func.attr in ("find", "index") and isinstance(c.args[0], ast.Name) and "ext" in c.args[0].id.lower()))
                if not first_dot or not _is_pathish(recv, f):
                    continue
                # `x.split(".")[-1]` (last component) is what splitext gives for the extension: not a first-dot cut
                par_last = False
                for p_ in walk_no_nested(f.node):
                    if isinstance(p_, ast.Subscript) and p_.value is c and isinstance(p_.slice, ast.UnaryOp) and isinstance(p_.slice.op, ast.USub):
                        par_last = True
                if par_last:
                    continue
                n += 1
                key = f"{rel}::{f.qualname}::`{norm(c)[:70]}`::a file name is not cut at its first dot"
                rep.violation(RID, key, rel, c.lineno,
                              f"{f.qualname} takes a file name or path apart with `{norm(c)[:80]}`: the FIRST dot (or the first occurrence of the extension text) "
                              f"need not be the one before the extension -- `util.bak.py`, a directory called `build-1.2` or `.cache` in the path: the "
                              f"module gets another module's name, the file seems to have no known language, or the derived output path lies outside the workspace")
    return n


def check_enum_distinct(model: RepoModel, rep, RID: str, rel: str, names: Optional[Iterable[str]] = None) -> int:
    """V2: a table that maps kind names to numbers is used to tell kinds apart (dispatch tables are keyed by the number): two names with
    one number are one kind -- their handlers, edges or branches are merged silently."""
    mod = model.module(rel)
    n = 0
    for st in mod.tree.body:
        if not (isinstance(st, ast.Assign) and isinstance(st.value, ast.Call) and (call_name(st.value) or "").endswith("SimpleEnum") and st.value.args
                and isinstance(st.value.args[0], ast.Dict) and isinstance(st.targets[0], ast.Name)):
            continue
        name = st.targets[0].id
        if names is not None and name not in set(names):
            continue
        d = st.value.args[0]
        seen: Dict[object, str] = {}
        dup = None
        numeric = 0
        for k, v in zip(d.keys, d.values):
            try:
                vv = ast.literal_eval(v)
            except Exception:
                continue
            if not isinstance(vv, int) or isinstance(vv, bool):
                continue
            numeric += 1
            if vv in seen:
                dup = (seen[vv], getattr(k, "value", "?"), vv, v)
            seen.setdefault(vv, getattr(k, "value", "?"))
        if numeric < 2:
            continue
        n += 1
        key = f"{rel}::{name}::the numbers of the kinds are pairwise distinct"
        if dup:
            rep.violation(RID, key, rel, dup[3].lineno,
                          f"{name}.{dup[0]} and {name}.{dup[1]} are both {dup[2]}: every table keyed by the kind (handler lists, dispatch dicts) merges the "
                          f"two -- what is registered or produced for one is run or consumed for the other")
        else:
            rep.holds(RID, key, rel, st.lineno, f"{numeric} numeric members, all different")
    return n


def check_positional_records(model: RepoModel, rep, RID: str, rels: Iterable[str]) -> int:
    """V3: `Rec(self.a, self.b, self.c, ...)` passes the fields by POSITION.  When the arguments are attributes that carry the names of
    fields of the record, argument i has to be field i: a field inserted in the middle of the class (or an argument forgotten) shifts
    every later value into the neighbouring field without any error."""
    n = 0
    fields_of: Dict[str, List[str]] = {}
    for mod in model.modules.values():
        for ci in mod.classes.values():
            deco = " ".join(norm(d) for d in ci.node.decorator_list)
            if "dataclass" not in deco:
                continue
            fl: List[str] = []
            for base in model.mro(ci)[::-1]:
                for st in base.node.body:
                    if isinstance(st, ast.AnnAssign) and isinstance(st.target, ast.Name) and "ClassVar" not in norm(st.annotation):
                        if st.target.id not in fl:
                            fl.append(st.target.id)
            fields_of[ci.name] = fl
    for rel in rels:
        mod = model.module(rel)
        for f in mod.all_funcs():
            for c in walk_no_nested(f.node):
                if not (isinstance(c, ast.Call) and isinstance(c.func, ast.Name) and c.func.id in fields_of and len(c.args) >= 3):
                    continue
                fl = fields_of[c.func.id]
                named = [(i, a.attr) for i, a in enumerate(c.args) if isinstance(a, ast.Attribute) and a.attr in fl]
                # also `self.a.copy()` / `copy.deepcopy(self.a)`
                for i, a in enumerate(c.args):
                    if isinstance(a, ast.Call):
                        inner = [x for x in ast.walk(a) if isinstance(x, ast.Attribute) and x.attr in fl]
                        if len(inner) == 1 and not any(j == i for j, _ in named):
                            named.append((i, inner[0].attr))
                if len(named) < 3:
                    continue
                n += 1
                key = f"{rel}::{f.qualname}::`{c.func.id}(<{len(c.args)} positional arguments>)`::argument i is field i"
                wrong = [(i, a) for i, a in sorted(named) if i >= len(fl) or fl[i] != a]
                if wrong:
                    i, a = wrong[0]
                    rep.violation(RID, key, rel, c.lineno,
                                  f"{f.qualname} builds a {c.func.id} positionally; argument {i} is `{a}` but field {i} of {c.func.id} is "
                                  f"`{fl[i] if i < len(fl) else '<none>'}` (fields: {fl[:max(i + 2, 4)]}...): from there on every value lands in the neighbouring field "
                                  f"-- the copy silently loses `{a}` and carries it under another name")
                else:
                    rep.holds(RID, key, rel, c.lineno, f"{len(named)} same-named arguments, each at its field's position")
    return n


def check_identity_comparisons(model: RepoModel, rep, RID: str, rel: str, classes: Iterable[str]) -> int:
    """V4: `a is b` / `a is not b` between two objects (neither is None, a constant or a sentinel) asks whether they are the SAME
    object.  Paths, call sites and states are values: an equal path built by the caller is a different object, so an identity test
    treats "the same path" as "another path"."""
    mod = model.module(rel)
    n = 0
    for cname in classes:
        ci = mod.classes.get(cname)
        if ci is None:
            raise AnalysisError(f"{rel}: class {cname} vanished")
        for f in ci.methods.values():
            n += 1
            bad = None
            for c in walk_no_nested(f.node):
                if isinstance(c, ast.Compare) and any(isinstance(o, (ast.Is, ast.IsNot)) for o in c.ops):
                    sides = [c.left] + list(c.comparators)
                    if not any(isinstance(s, ast.Constant) or (isinstance(s, ast.Name) and s.id.isupper()) or (dotted(s) or "").split(".")[-1].isupper() for s in sides):
                        bad = c
            key = f"{rel}::{cname}.{f.name}::objects are compared by value"
            if bad is not None:
                rep.violation(RID, key, rel, bad.lineno,
                              f"{cname}.{f.name} tests `{norm(bad)}`: identity, not equality.  A caller that passes an equal but separately built object "
                              f"(a path re-created from its call sites) is told it is a different one -- the operation silently does nothing for it")
            else:
                rep.holds(RID, key, rel, f.node.lineno, "no is / is not between two objects")
    return n


def check_starred_unpacking(model: RepoModel, rep, RID: str, rels: Iterable[str]) -> int:
    """V5: `first, *rest = xs` raises ValueError when xs is empty.  It has to be dominated by a test that xs is non-empty (truthiness or
    a length test), otherwise the one input with an empty list ends the phase with an unhandled exception."""
    n = 0
    for rel in rels:
        mod = model.module(rel)
        for f in mod.all_funcs():
            cfg = None
            for st in walk_no_nested(f.node):
                if not (isinstance(st, ast.Assign) and len(st.targets) == 1 and isinstance(st.targets[0], (ast.Tuple, ast.List))
                        and any(isinstance(e, ast.Starred) for e in st.targets[0].elts)):
                    continue
                fixed = len([e for e in st.targets[0].elts if not isinstance(e, ast.Starred)])
                if fixed == 0:
                    continue
                n += 1
                cfg = cfg or cfg_of(f.node)
                src = norm(st.value)
                guarded = False
                if id(st) in cfg.node_of:
                    for atom, truth in cfg.conditions_at(cfg.node_of[id(st)]):
                        t = norm(atom)
                        if truth and (t == src or (f"len({src})" in t)):
                            guarded = True
                        if not truth and t in (f"len({src}) == 0", f"not {src}"):
                            guarded = True
                key = f"{rel}::{f.qualname}::`{norm(st)[:70]}`::guarded against the empty sequence"
                if guarded:
                    rep.holds(RID, key, rel, st.lineno, "dominated by a non-emptiness test")
                else:
                    rep.violation(RID, key, rel, st.lineno,
                                  f"{f.qualname} unpacks `{norm(st)[:80]}` without testing that `{src[:50]}` is non-empty: for the one input where it is empty "
                                  f"(a method without parameters) the statement raises ValueError and the phase ends with an unhandled exception")
    return n


def check_repeated_fields(model: RepoModel, rep, RID: str, only_handlers: Optional[Iterable[str]] = None) -> int:
    """a field that the grammar lets repeat (frozen from the pinned tree in sa/tables/repeated_fields.json: the handler read it with
    find_children_by_field) is still read with the plural accessor: the singular one returns the FIRST occurrence only, the others
    (the second update expression of a `for`, the second declarator) are silently not lowered"""
    import json, os
    tab = json.load(open(os.path.join(os.path.dirname(__file__), "tables", "repeated_fields.json")))["entries"]
    n = 0
    for rel, qual, fld in tab:
        if rel not in model.modules:
            continue
        cname, fname = qual.split(".")
        if only_handlers is not None and fname not in set(only_handlers):
            continue
        ci = model.module(rel).classes.get(cname)
        f = ci.methods.get(fname) if ci else None
        if f is None:
            continue
        plural = singular = None
        for c in walk_no_nested(f.node):
            if isinstance(c, ast.Call) and isinstance(c.func, ast.Attribute) and len(c.args) >= 2 and isinstance(c.args[1], ast.Constant) and c.args[1].value == fld:
                if c.func.attr in ("find_children_by_field", "children_by_field_name"):
                    plural = c
                elif c.func.attr in ("find_child_by_field", "child_by_field_name"):
                    singular = c
        if plural is None and singular is None:
            continue
        n += 1
        key = f"{rel}::{qual}::every occurrence of field `{fld}` is lowered"
        if plural is not None:
            rep.holds(RID, key, rel, plural.lineno, f"`{norm(plural)[:70]}`")
        else:
            rep.violation(RID, key, rel, singular.lineno,
                          f"{qual} reads the field `{fld}` with `{norm(singular)[:70]}`; the grammar lets `{fld}` repeat (the pinned tree read it with "
                          f"find_children_by_field): only the first occurrence is lowered, the statements of the others -- `j--` in `for (..; i++, j--)` -- "
                          f"appear in no block and in no control-flow graph")
    return n


def check_bodies_parsed_whole(model: RepoModel, rep, RID: str, rels: Iterable[str], func_filter=None) -> int:
    """the body of a control statement is lowered by handing the body NODE to parse(): when the handler parses the body's children one by
    one instead, a body that is itself a statement (`for (..) if (c) x = 1;` without braces) is dissolved -- the inner statement's own
    handler never runs, its condition disappears and its arm executes unconditionally"""
    BODY_FIELDS = ("body", "consequence", "alternative")
    n = 0
    for rel in rels:
        mod = model.module(rel)
        for f in mod.all_funcs():
            if func_filter is not None and not func_filter(f):
                continue
            for a in walk_no_nested(f.node):
                if not (isinstance(a, ast.Assign) and len(a.targets) == 1 and isinstance(a.targets[0], ast.Name) and isinstance(a.value, ast.Call)
                        and isinstance(a.value.func, ast.Attribute) and a.value.func.attr == "find_child_by_field" and len(a.value.args) >= 2
                        and isinstance(a.value.args[1], ast.Constant) and a.value.args[1].value in BODY_FIELDS):
                    continue
                B = a.targets[0].id
                whole = [c for c in walk_no_nested(f.node) if isinstance(c, ast.Call) and isinstance(c.func, ast.Attribute) and c.func.attr == "parse"
                         and c.args and isinstance(c.args[0], ast.Name) and c.args[0].id == B]
                piecewise = [L for L in walk_no_nested(f.node) if isinstance(L, ast.For) and isinstance(L.iter, ast.Attribute) and isinstance(L.iter.value, ast.Name)
                             and L.iter.value.id == B and L.iter.attr in ("named_children", "children")
                             and any(isinstance(c, ast.Call) and isinstance(c.func, ast.Attribute) and c.func.attr == "parse" for c in ast.walk(L))]
                if not whole and not piecewise:
                    continue
                n += 1
                key = f"{rel}::{f.qualname}::the `{a.value.args[1].value}` node is lowered as a node"
                if piecewise and not whole:
                    rep.violation(RID, key, rel, piecewise[0].lineno,
                                  f"{f.qualname} lowers the `{a.value.args[1].value}` of the statement child by child (`for .. in {B}.{piecewise[0].iter.attr}`) and "
                                  f"never hands `{B}` itself to parse(): a brace-less body that is a statement of its own (`for (..) if (c) m = a[i];`) is "
                                  f"taken apart -- no if_stmt is emitted and the arm runs unconditionally")
                else:
                    rep.holds(RID, key, rel, (whole or piecewise)[0].lineno, f"self.parse({B}, ...)")
    return n
