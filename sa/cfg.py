"""E1 -- statement-level control-flow graph of one Python function, on networkx.

Node kinds
  entry / exit / raise      : unique pseudo nodes (normal exit and exceptional exit)
  stmt                      : a simple statement
  test                      : the condition of an ``if`` / ``while``
  iter                      : the header of a ``for`` (iterator advance)
  with / try / match        : headers
  branch                    : pseudo node ``(test, 'T'|'F')`` inserted on each conditional edge
                              so that "control dependent on the true side of X" is a
                              dominance query

Exceptions: an edge is added from every statement inside a ``try`` body to each
handler.  Implicit exceptions outside ``try`` are ignored (see DESIGN section 6).
Calls to known no-return helpers (``util.error_and_quit``, ``sys.exit`` ...) go
to the ``raise`` pseudo node.
"""
from __future__ import annotations

import ast
from typing import Callable, Dict, Iterable, List, Optional, Set

import networkx as nx

from .model import AnalysisError, call_name, dotted, walk_no_nested

NORETURN_CALLS = {
    "util.error_and_quit", "sys.exit", "exit", "quit", "os._exit", "error_and_quit",
}


def _is_noreturn_stmt(st) -> bool:
    if isinstance(st, ast.Expr) and isinstance(st.value, ast.Call):
        return (call_name(st.value) or "") in NORETURN_CALLS
    return False


def _const_truth(test) -> Optional[bool]:
    if isinstance(test, ast.Constant):
        return bool(test.value)
    return None


class CFG:
    ENTRY = 0
    EXIT = 1
    RAISE = 2

    def __init__(self, fnode: ast.AST):
        self.fnode = fnode
        self.g = nx.DiGraph()
        self.kind: Dict[int, str] = {}
        self.stmt: Dict[int, ast.AST] = {}
        self.node_of: Dict[int, int] = {}  # id(ast stmt) -> cfg node
        self.loop_body_nodes: Dict[int, Set[int]] = {}
        self.branch_of: Dict[tuple, int] = {}  # (test node, 'T'/'F') -> pseudo node
        self._n = 3
        for n, k in ((0, "entry"), (1, "exit"), (2, "raise")):
            self.g.add_node(n)
            self.kind[n] = k
        body = fnode.body if hasattr(fnode, "body") else [fnode]
        ends = self._seq(body, [self.ENTRY], ctx={"loops": [], "handlers": [], "finals": []})
        for e in ends:
            self.g.add_edge(e, self.EXIT)
        self._idom = None
        self._ipdom = None

    # ------------------------------------------------------------ construction
    def _new(self, kind: str, st: Optional[ast.AST]) -> int:
        n = self._n
        self._n += 1
        self.g.add_node(n)
        self.kind[n] = kind
        if st is not None:
            self.stmt[n] = st
            if kind != "branch":
                self.node_of.setdefault(id(st), n)
        return n

    def _link(self, preds: Iterable[int], n: int):
        for p in preds:
            self.g.add_edge(p, n)

    def _branch(self, test_node: int, label: str) -> int:
        b = self._new("branch", self.stmt.get(test_node))
        self.branch_of[(test_node, label)] = b
        self.g.add_edge(test_node, b)
        return b

    def _exc_edges(self, n: int, ctx):
        if ctx["handlers"]:
            for h in ctx["handlers"][-1]:
                self.g.add_edge(n, h)

    def _seq(self, stmts: List[ast.stmt], preds: List[int], ctx) -> List[int]:
        cur = list(preds)
        for st in stmts:
            if not cur:
                # unreachable code still gets nodes (so node_of is total) but no in-edges
                cur = []
            cur = self._stmt(st, cur, ctx)
        return cur

    def _stmt(self, st: ast.stmt, preds: List[int], ctx) -> List[int]:
        if isinstance(st, ast.If):
            t = self._new("test", st)
            self._link(preds, t)
            self._exc_edges(t, ctx)
            truth = _const_truth(st.test)
            outs: List[int] = []
            if truth is not False:
                bt = self._branch(t, "T")
                outs += self._seq(st.body, [bt], ctx)
            if truth is not True:
                bf = self._branch(t, "F")
                outs += self._seq(st.orelse, [bf], ctx) if st.orelse else [bf]
            return outs
        if isinstance(st, (ast.While, ast.For, ast.AsyncFor)):
            is_while = isinstance(st, ast.While)
            h = self._new("test" if is_while else "iter", st)
            self._link(preds, h)
            self._exc_edges(h, ctx)
            truth = _const_truth(st.test) if is_while else None
            loop = {"head": h, "breaks": []}
            before = self._n
            body_ends: List[int] = []
            if truth is not False:
                bt = self._branch(h, "T")
                ctx["loops"].append(loop)
                body_ends = self._seq(st.body, [bt], ctx)
                ctx["loops"].pop()
                self._link(body_ends, h)
            self.loop_body_nodes[h] = set(range(before, self._n))
            outs = []
            if truth is not True:
                bf = self._branch(h, "F")
                outs += self._seq(st.orelse, [bf], ctx) if st.orelse else [bf]
            outs += loop["breaks"]
            return outs
        if isinstance(st, ast.Try) or (hasattr(ast, "TryStar") and isinstance(st, getattr(ast, "TryStar"))):
            t = self._new("try", st)
            self._link(preds, t)
            handler_entries = []
            for hd in st.handlers:
                hn = self._new("handler", hd)
                handler_entries.append(hn)
            self.g.add_edge(t, t)  # placeholder removed below
            self.g.remove_edge(t, t)
            ctx["handlers"].append(handler_entries)
            if st.finalbody:
                ctx["finals"].append({"jumps": []})
            for hn in handler_entries:
                self.g.add_edge(t, hn)
            body_ends = self._seq(st.body, [t], ctx)
            ctx["handlers"].pop()
            outs = self._seq(st.orelse, body_ends, ctx) if st.orelse else list(body_ends)
            for hd, hn in zip(st.handlers, handler_entries):
                outs += self._seq(hd.body, [hn], ctx)
            if st.finalbody:
                fin = ctx["finals"].pop()
                fentry_preds = outs + [j[0] for j in fin["jumps"]]
                fends = self._seq(st.finalbody, fentry_preds, ctx)
                # jumps that were routed through finally continue to their targets
                for _, target in fin["jumps"]:
                    for fe in fends:
                        if isinstance(target, int):
                            self.g.add_edge(fe, target)
                        else:
                            target.append(fe)
                return fends
            return outs
        if isinstance(st, (ast.With, ast.AsyncWith)):
            w = self._new("with", st)
            self._link(preds, w)
            self._exc_edges(w, ctx)
            return self._seq(st.body, [w], ctx)
        if isinstance(st, ast.Match):
            m = self._new("match", st)
            self._link(preds, m)
            self._exc_edges(m, ctx)
            outs = []
            wildcard = False
            for c in st.cases:
                cn = self._new("case", c)
                self.g.add_edge(m, cn)
                outs += self._seq(c.body, [cn], ctx)
                if isinstance(c.pattern, ast.MatchAs) and c.pattern.pattern is None and c.guard is None:
                    wildcard = True
            if not wildcard:
                outs.append(m)
            return outs
        # ---- simple statements
        n = self._new("stmt", st)
        self._link(preds, n)
        if isinstance(st, ast.Return):
            self._jump(n, self.EXIT, ctx)
            return []
        if isinstance(st, ast.Raise):
            if ctx["handlers"]:
                self._exc_edges(n, ctx)
            else:
                self.g.add_edge(n, self.RAISE)
            return []
        if _is_noreturn_stmt(st):
            self.g.add_edge(n, self.RAISE)
            return []
        if isinstance(st, ast.Break):
            if not ctx["loops"]:
                raise AnalysisError("break outside loop")
            ctx["loops"][-1]["breaks"].append(n)
            return []
        if isinstance(st, ast.Continue):
            if not ctx["loops"]:
                raise AnalysisError("continue outside loop")
            self.g.add_edge(n, ctx["loops"][-1]["head"])
            return []
        if isinstance(st, (ast.Assign, ast.AugAssign, ast.AnnAssign, ast.Expr, ast.Pass, ast.Delete,
                           ast.Import, ast.ImportFrom, ast.Global, ast.Nonlocal, ast.Assert,
                           ast.FunctionDef, ast.AsyncFunctionDef, ast.ClassDef)):
            self._exc_edges(n, ctx)
            return [n]
        raise AnalysisError(f"unsupported statement kind {type(st).__name__} at line {getattr(st, 'lineno', '?')}")

    def _jump(self, n: int, target: int, ctx):
        # return inside try/finally is routed through the finally body
        if ctx["finals"]:
            ctx["finals"][-1]["jumps"].append((n, target))
        else:
            self.g.add_edge(n, target)

    # ------------------------------------------------------------------ queries
    def node(self, st: ast.AST) -> int:
        n = self.node_of.get(id(st))
        if n is None:
            raise AnalysisError(f"statement at line {getattr(st, 'lineno', '?')} has no CFG node")
        return n

    def exprs_at(self, n: int) -> List[ast.AST]:
        """AST parts evaluated when control is at node ``n``."""
        st = self.stmt.get(n)
        k = self.kind[n]
        if st is None or k in ("branch", "try", "entry", "exit", "raise"):
            return []
        if k == "test":
            return [st.test]
        if k == "iter":
            return [st.iter, st.target]
        if k == "with":
            out = []
            for it in st.items:
                out.append(it.context_expr)
                if it.optional_vars is not None:
                    out.append(it.optional_vars)
            return out
        if k == "match":
            return [st.subject]
        if k == "case":
            return [st.pattern] + ([st.guard] if st.guard is not None else [])
        if k == "handler":
            return [st.type] if st.type is not None else []
        if isinstance(st, (ast.FunctionDef, ast.AsyncFunctionDef, ast.ClassDef)):
            return list(st.decorator_list)
        return [st]

    def nodes_where(self, pred: Callable[[int], bool]) -> List[int]:
        return [n for n in self.g.nodes if pred(n)]

    def calls_at(self, n: int) -> List[ast.Call]:
        out = []
        for e in self.exprs_at(n):
            for x in walk_no_nested(e):
                if isinstance(x, ast.Call):
                    out.append(x)
        return out

    def reachable(self, src: int, avoid: Optional[Set[int]] = None, within: Optional[Set[int]] = None) -> Set[int]:
        """Nodes reachable from ``src`` (src excluded unless on a cycle) not entering ``avoid``."""
        avoid = avoid or set()
        seen: Set[int] = set()
        stack = [s for s in self.g.successors(src)]
        while stack:
            n = stack.pop()
            if n in seen or n in avoid:
                continue
            if within is not None and n not in within:
                continue
            seen.add(n)
            stack.extend(self.g.successors(n))
        return seen

    def path_avoiding(self, src: int, dst: int, avoid: Set[int], within: Optional[Set[int]] = None) -> Optional[List[int]]:
        """A path src -> dst whose interior avoids ``avoid`` (None if there is none)."""
        prev = {}
        stack = [(s, src) for s in self.g.successors(src)]
        while stack:
            n, p = stack.pop()
            if n in prev:
                continue
            if n != dst and (n in avoid or (within is not None and n not in within)):
                continue
            if n == dst and within is not None and False:
                pass
            prev[n] = p
            if n == dst:
                path = [n]
                while path[-1] != src:
                    path.append(prev[path[-1]])
                    if len(path) > 10000:
                        break
                return list(reversed(path))
            stack.extend((s, n) for s in self.g.successors(n))
        return None

    def must_pass(self, src: int, sat: Set[int], dst: Optional[int] = None) -> Optional[List[int]]:
        """None if every path src->dst passes a node in ``sat``; else a counterexample path."""
        return self.path_avoiding(src, self.EXIT if dst is None else dst, sat)

    def idom(self):
        if self._idom is None:
            self._idom = nx.immediate_dominators(self.g, self.ENTRY)
        return self._idom

    def dominates(self, d: int, n: int) -> bool:
        idom = self.idom()
        if n not in idom:
            return False  # unreachable
        while True:
            if n == d:
                return True
            p = idom.get(n)
            if p is None or p == n:
                return False
            n = p

    def dominators_of(self, n: int) -> List[int]:
        idom = self.idom()
        out = []
        if n not in idom:
            return out
        while True:
            out.append(n)
            p = idom.get(n)
            if p is None or p == n:
                break
            n = p
        return out

    def is_reachable(self, n: int) -> bool:
        return n in self.idom()

    def controlling_branches(self, n: int) -> List[tuple]:
        """[(test stmt, 'T'|'F')] for branch pseudo nodes that dominate ``n``."""
        out = []
        inv = {v: k for k, v in self.branch_of.items()}
        for d in self.dominators_of(n):
            if d in inv:
                t, lab = inv[d]
                out.append((self.stmt[t], lab))
        return out

    def conditions_at(self, n: int) -> List[tuple]:
        """[(atom, truth)]: conditions known to hold (truth True) or not to hold (False) whenever ``n`` executes, taken from the
        dominating branches; leading `not`s are stripped into the truth value and a conjunction known to hold / a disjunction known
        not to hold is split into its parts.  `if not c: continue` followed by code and `if c:` around the same code give the same
        answer."""
        out = []

        def add(t, truth):
            while isinstance(t, ast.UnaryOp) and isinstance(t.op, ast.Not):
                t, truth = t.operand, not truth
            if isinstance(t, ast.BoolOp) and ((isinstance(t.op, ast.And) and truth) or (isinstance(t.op, ast.Or) and not truth)):
                for v in t.values:
                    add(v, truth)
                return
            out.append((t, truth))
        for st, lab in self.controlling_branches(n):
            if isinstance(st, (ast.If, ast.While)):
                add(st.test, lab == "T")
        return out

    def describe(self, n: int) -> str:
        k = self.kind[n]
        if k in ("entry", "exit", "raise"):
            return k
        st = self.stmt.get(n)
        ln = getattr(st, "lineno", "?")
        if k == "branch":
            inv = {v: kk for kk, v in self.branch_of.items()}
            return f"{inv[n][1]}-branch of line {ln}"
        return f"{k}@{ln}"

    def describe_path(self, path: List[int]) -> List[str]:
        return [self.describe(n) for n in path]

    def back_paths_all_pass(self, head: int, sat: Set[int]) -> Optional[List[int]]:
        """For loop header ``head``: None if every path from the start of the body back
        to ``head`` (staying inside the loop) passes a node in ``sat``; else a path."""
        bt = self.branch_of.get((head, "T"))
        if bt is None:
            return None
        within = set(self.loop_body_nodes[head]) | {head}
        return self.path_avoiding(bt, head, sat, within=within)


_cfg_cache: Dict[int, CFG] = {}


def cfg_of(fnode) -> CFG:
    c = _cfg_cache.get(id(fnode))
    if c is None or c.fnode is not fnode:
        c = CFG(fnode)
        _cfg_cache[id(fnode)] = c
    return c
