"""AST-located source edits used by the checker self-test (never applied to /repo)."""
from __future__ import annotations

import ast
from typing import Callable, List, Optional


class MutationError(Exception):
    pass


def _find_func(tree: ast.AST, cls: Optional[str], func: str):
    for n in tree.body:
        if cls:
            if isinstance(n, ast.ClassDef) and n.name == cls:
                for s in n.body:
                    if isinstance(s, (ast.FunctionDef, ast.AsyncFunctionDef)) and s.name == func:
                        return s
        elif isinstance(n, (ast.FunctionDef, ast.AsyncFunctionDef)) and n.name == func:
            return n
    raise MutationError(f"function {cls}.{func} not found")


def _line_offsets(src: str) -> List[int]:
    offs = [0]
    for ln in src.splitlines(keepends=True):
        offs.append(offs[-1] + len(ln.encode("utf-8")))
    return offs


def _span(src: str, node) -> tuple:
    """(start, end) byte offsets of ``node`` in the utf-8 encoding of ``src``."""
    offs = _line_offsets(src)
    return offs[node.lineno - 1] + node.col_offset, offs[node.end_lineno - 1] + node.end_col_offset


def replace_node(src: str, node, new_text: str) -> str:
    b = src.encode("utf-8")
    s, e = _span(src, node)
    out = (b[:s] + new_text.encode("utf-8") + b[e:]).decode("utf-8")
    compile(out, "<mutant>", "exec")
    return out


def _pick(nodes, nth: int):
    if not nodes:
        raise MutationError("no statement matches the mutation predicate")
    if nth >= len(nodes) or -nth > len(nodes):
        raise MutationError(f"only {len(nodes)} matches, wanted #{nth}")
    return nodes[nth]


def delete_stmt_where(src: str, cls: Optional[str], func: str, pred: Callable[[ast.stmt], bool], nth: int = 0) -> str:
    tree = ast.parse(src)
    f = _find_func(tree, cls, func)
    cands = [n for n in ast.walk(f) if isinstance(n, ast.stmt) and n is not f and pred(n)]
    cands.sort(key=lambda n: (n.lineno, n.col_offset))
    return replace_node(src, _pick(cands, nth), "pass")


def replace_stmt_where(src: str, cls: Optional[str], func: str, pred, new_text: str, nth: int = 0) -> str:
    tree = ast.parse(src)
    f = _find_func(tree, cls, func)
    cands = [n for n in ast.walk(f) if isinstance(n, ast.stmt) and n is not f and pred(n)]
    cands.sort(key=lambda n: (n.lineno, n.col_offset))
    node = _pick(cands, nth)
    indent = " " * node.col_offset
    text = new_text.replace("\n", "\n" + indent)
    return replace_node(src, node, text)


def replace_expr_where(src: str, cls: Optional[str], func: str, pred, new_text, nth: int = 0) -> str:
    """``new_text`` may be a string or a callable node -> string."""
    tree = ast.parse(src)
    f = _find_func(tree, cls, func)
    cands = [n for n in ast.walk(f) if isinstance(n, ast.expr) and pred(n)]
    cands.sort(key=lambda n: (n.lineno, n.col_offset))
    node = _pick(cands, nth)
    txt = new_text(node) if callable(new_text) else new_text
    return replace_node(src, node, txt)


def insert_after_stmt_where(src: str, cls: Optional[str], func: str, pred, new_text: str, nth: int = 0) -> str:
    tree = ast.parse(src)
    f = _find_func(tree, cls, func)
    cands = [n for n in ast.walk(f) if isinstance(n, ast.stmt) and n is not f and pred(n)]
    cands.sort(key=lambda n: (n.lineno, n.col_offset))
    node = _pick(cands, nth)
    lines = src.split("\n")
    indent = " " * node.col_offset
    ins = [indent + l for l in new_text.split("\n")]
    out = "\n".join(lines[: node.end_lineno] + ins + lines[node.end_lineno:])
    compile(out, "<mutant>", "exec")
    return out


def insert_before_stmt_where(src: str, cls: Optional[str], func: str, pred, new_text: str, nth: int = 0) -> str:
    tree = ast.parse(src)
    f = _find_func(tree, cls, func)
    cands = [n for n in ast.walk(f) if isinstance(n, ast.stmt) and n is not f and pred(n)]
    cands.sort(key=lambda n: (n.lineno, n.col_offset))
    node = _pick(cands, nth)
    lines = src.split("\n")
    indent = " " * node.col_offset
    ins = [indent + l for l in new_text.split("\n")]
    out = "\n".join(lines[: node.lineno - 1] + ins + lines[node.lineno - 1:])
    compile(out, "<mutant>", "exec")
    return out


def text_replace(src: str, old: str, new: str, count: int = 1) -> str:
    """Exact-substring edit; used only where the AST cannot address the target (comments)."""
    if old not in src:
        raise MutationError(f"text not found: {old[:60]!r}")
    out = src.replace(old, new, count)
    compile(out, "<mutant>", "exec")
    return out


def is_call_stmt(st, name: str) -> bool:
    from .model import call_name
    return isinstance(st, ast.Expr) and isinstance(st.value, ast.Call) and call_name(st.value) == name
