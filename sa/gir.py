"""E2 -- GIR vocabulary extractor.

Writer side: for every frontend (``lang/*_parser.py``) and the post-processing handlers, the nested
dict literals ``{"op": {attr: value, ...}}`` that become GIR statements, with the kind of each
attribute value (scalar / block / list) and the insertion order of the attributes (the flattener lays
blocks out in that order).

Reader side: for each string-keyed handler registry of the language independent analyses, the
attributes read off the statement row by the handler registered for an operation (one call deep
into helpers that receive the same row).
"""
from __future__ import annotations

import ast
from dataclasses import dataclass, field
from typing import Dict, Iterable, List, Optional, Set, Tuple

from .model import (AnalysisError, ClassInfo, Func, Module, RepoModel, call_name, const_str, dotted, is_self_attr, literal,
                    norm, walk_no_nested)

SEVEN = ["python", "javascript", "typescript", "java", "go", "c", "php"]
ALL_FRONTENDS = SEVEN + ["csharp", "arkts", "ruby", "llvm", "smali", "mir"]

# columns added by the flattener / position info; never operands
METADATA = {"operation", "stmt_id", "parent_stmt_id", "start_row", "start_col", "end_row", "end_col", "unit_id",
            "original_stmt"}


@dataclass
class Emission:
    lang: str
    rel: str
    func: str
    op: str
    attrs: Dict[str, str]          # attr -> scalar | block | list | unknown   (insertion ordered)
    complete: bool                 # False when some key/value could not be resolved statically
    line: int
    content_is_dict: bool = True

    @property
    def where(self) -> str:
        return f"{self.rel}::{self.func}"


def frontend_modules(model: RepoModel, langs: Iterable[str]) -> List[Tuple[str, Module]]:
    out = []
    for lg in langs:
        rel = f"lang/{lg}_parser.py"
        if rel in model.modules:
            out.append((lg, model.modules[rel]))
    return out


def _local_lists(fnode) -> Dict[str, str]:
    """local name -> 'block' | 'list' for locals initialised to a list literal."""
    lists: Dict[str, str] = {}
    for n in walk_no_nested(fnode):
        if isinstance(n, ast.Assign) and isinstance(n.value, ast.List):
            for t in n.targets:
                if isinstance(t, ast.Name):
                    lists.setdefault(t.id, "list")
    if not lists:
        return lists
    for n in walk_no_nested(fnode):
        if not isinstance(n, ast.Call):
            continue
        # self.parse(x, L) / self.handler(node, L) / self.append_stmts(L, ...)
        if isinstance(n.func, ast.Attribute) and isinstance(n.func.value, ast.Name) and n.func.value.id == "self":
            if n.func.attr == "append_stmts":
                if n.args and isinstance(n.args[0], ast.Name) and n.args[0].id in lists:
                    lists[n.args[0].id] = "block"
            else:
                for a in n.args[1:]:
                    if isinstance(a, ast.Name) and a.id in lists:
                        lists[a.id] = "block"
                for k in n.keywords:
                    if k.arg == "statements" and isinstance(k.value, ast.Name) and k.value.id in lists:
                        lists[k.value.id] = "block"
        # L.append({...op dict...}) / L.extend(other block) / L.insert(i, {...})
        if isinstance(n.func, ast.Attribute) and isinstance(n.func.value, ast.Name) and n.func.value.id in lists:
            if n.func.attr in ("append", "insert") and n.args and _is_op_dict(n.args[-1]):
                lists[n.func.value.id] = "block"
            if n.func.attr == "extend" and n.args and isinstance(n.args[0], ast.Name) and lists.get(n.args[0].id) == "block":
                lists[n.func.value.id] = "block"
    return lists


def _is_op_dict(e) -> bool:
    return isinstance(e, ast.Dict) and len(e.keys) == 1 and e.keys[0] is not None and (
        const_str(e.keys[0]) is not None or isinstance(e.keys[0], ast.JoinedStr)) and isinstance(e.values[0], (ast.Dict, ast.Name))


def _value_kind(v, lists: Dict[str, str]) -> str:
    if isinstance(v, ast.Name):
        return lists.get(v.id, "scalar")
    if isinstance(v, ast.List):
        if any(_is_op_dict(e) for e in v.elts):
            return "block"
        return "list"
    if isinstance(v, ast.IfExp):
        a, b = _value_kind(v.body, lists), _value_kind(v.orelse, lists)
        return a if a == b else ("block" if "block" in (a, b) else a)
    return "scalar"


def _ops_of_key(k, cls_consts: Dict[str, dict]) -> Tuple[List[str], bool]:
    """operation names denoted by the key of an op dict; (names, resolved)."""
    s = const_str(k)
    if s is not None:
        return [s], True
    if isinstance(k, ast.JoinedStr):
        # f"{self.MAP[node.type]}_decl"
        parts = []
        maps = []
        for v in k.values:
            if isinstance(v, ast.Constant):
                parts.append(v.value)
            elif isinstance(v, ast.FormattedValue) and isinstance(v.value, ast.Subscript) and is_self_attr(v.value.value) \
                    and v.value.value.attr in cls_consts:
                parts.append(None)
                maps.append(cls_consts[v.value.value.attr])
            else:
                return [], False
        if len(maps) == 1:
            out = []
            for val in maps[0].values():
                if isinstance(val, str):
                    out.append("".join(val if p is None else p for p in parts))
            return sorted(set(out)), True
    return [], False


def _class_const_dicts(cls: ClassInfo) -> Dict[str, dict]:
    out = {}
    for f in cls.methods.values():
        if f.name not in ("init", "__init__"):
            continue
        for n in walk_no_nested(f.node):
            if isinstance(n, ast.Assign) and len(n.targets) == 1 and is_self_attr(n.targets[0]) and isinstance(n.value, ast.Dict):
                v = literal(n.value)
                if v is not NotImplemented:
                    out[n.targets[0].attr] = v
    for st in cls.node.body:
        if isinstance(st, ast.Assign) and len(st.targets) == 1 and isinstance(st.targets[0], ast.Name) and isinstance(st.value, ast.Dict):
            v = literal(st.value)
            if v is not NotImplemented:
                out[st.targets[0].id] = v
    return out


def _dict_local_shape(fnode, name: str, lists: Dict[str, str]) -> Tuple[Dict[str, str], bool]:
    """attrs of a local dict built by a literal / create_empty_node_with_init_list / subscript stores."""
    attrs: Dict[str, str] = {}
    complete = True
    events = []  # (lineno, kind, payload)
    for n in walk_no_nested(fnode):
        if isinstance(n, ast.Assign):
            for t in n.targets:
                if isinstance(t, ast.Name) and t.id == name:
                    events.append((n.lineno, "def", n.value))
                elif isinstance(t, ast.Subscript) and isinstance(t.value, ast.Name) and t.value.id == name:
                    events.append((n.lineno, "store", (t.slice, n.value)))
        elif isinstance(n, ast.AugAssign) and isinstance(n.target, ast.Subscript) and isinstance(n.target.value, ast.Name) \
                and n.target.value.id == name:
            events.append((n.lineno, "store", (n.target.slice, n.value)))
        elif isinstance(n, ast.Call) and isinstance(n.func, ast.Attribute) and isinstance(n.func.value, ast.Name) \
                and n.func.value.id == name and n.func.attr == "update" and n.args:
            events.append((n.lineno, "update", n.args[0]))
        elif isinstance(n, ast.Call) and isinstance(n.func, ast.Attribute) and n.func.attr in ("append", "extend") \
                and isinstance(n.func.value, ast.Subscript) and isinstance(n.func.value.value, ast.Name) \
                and n.func.value.value.id == name:
            # node["body"].append({...}) / node["attrs"].append("x")
            k = const_str(n.func.value.slice)
            if k is not None:
                kind = "block" if (n.args and (_is_op_dict(n.args[0]) or (isinstance(n.args[0], ast.Name) and lists.get(n.args[0].id) == "block"))) else None
                events.append((n.lineno, "elem", (k, kind)))
        elif isinstance(n, ast.Call) and isinstance(n.func, ast.Attribute) and isinstance(n.func.value, ast.Name) \
                and n.func.value.id == "self":
            # self.parse(x, node["body"]) / self.handler(child, node["init"])
            for a in list(n.args[1:]) + ([n.args[0]] if n.func.attr == "append_stmts" and n.args else []):
                if isinstance(a, ast.Subscript) and isinstance(a.value, ast.Name) and a.value.id == name:
                    k = const_str(a.slice)
                    if k is not None:
                        events.append((n.lineno, "elem", (k, "block")))
    events.sort(key=lambda e: e[0])
    if not any(e[1] == "def" for e in events):
        return attrs, False
    for _, kind, payload in events:
        if kind == "def":
            v = payload
            if isinstance(v, ast.Dict):
                for k, val in zip(v.keys, v.values):
                    s = const_str(k) if k is not None else None
                    if s is None:
                        complete = False
                    else:
                        attrs.setdefault(s, _value_kind(val, lists))
            elif isinstance(v, ast.Call) and (call_name(v) or "").endswith("create_empty_node_with_init_list"):
                for a in v.args:
                    s = const_str(a)
                    if s is None:
                        complete = False
                    else:
                        attrs.setdefault(s, "list")
            else:
                complete = False
        elif kind == "store":
            k, val = payload
            s = const_str(k)
            if s is None:
                complete = False
            else:
                kd = _value_kind(val, lists)
                if s in attrs and attrs[s] == "block" and kd != "block":
                    kd = "block"
                attrs[s] = kd if s not in attrs or attrs[s] in ("list", "scalar") else attrs[s]
        elif kind == "update":
            if isinstance(payload, ast.Dict):
                for k, val in zip(payload.keys, payload.values):
                    s = const_str(k) if k is not None else None
                    if s is None:
                        complete = False
                    else:
                        attrs.setdefault(s, _value_kind(val, lists))
            else:
                complete = False
        elif kind == "elem":
            k, kd = payload
            if kd == "block":
                attrs[k] = "block"
            else:
                attrs.setdefault(k, "list")
    return attrs, complete


def emissions_in_module(lang: str, m: Module) -> List[Emission]:
    out: List[Emission] = []
    for f in m.all_funcs():
        cls_consts = _class_const_dicts(f.cls) if f.cls else {}
        lists = _local_lists(f.node)
        for n in walk_no_nested(f.node):
            if not (isinstance(n, ast.Dict) and len(n.keys) == 1 and n.keys[0] is not None):
                continue
            k, v = n.keys[0], n.values[0]
            if not (const_str(k) is not None or isinstance(k, ast.JoinedStr)):
                continue
            if const_str(k) is not None and not _looks_like_op(const_str(k)):
                continue
            ops, resolved = _ops_of_key(k, cls_consts)
            attrs: Dict[str, str] = {}
            complete = resolved
            content_is_dict = True
            if isinstance(v, ast.Dict):
                for kk, vv in zip(v.keys, v.values):
                    s = const_str(kk) if kk is not None else None
                    if s is None:
                        complete = False
                    else:
                        attrs[s] = _value_kind(vv, lists)
            elif isinstance(v, ast.Name):
                a, c = _dict_local_shape(f.node, v.id, lists)
                attrs, complete = a, complete and c
            elif isinstance(v, ast.Constant):
                content_is_dict = False
            else:
                continue
            if not _is_emitted(n, f):
                continue
            for op in (ops or ["<dynamic>"]):
                out.append(Emission(lang, m.rel, f.qualname, op, dict(attrs), complete, n.lineno, content_is_dict))
    return out


_OP_SUFFIXES = ("_stmt", "_decl", "_read", "_write", "_object", "_array", "_record", "_clause", "_instanceof", "_delete",
                "_slice", "_struct", "_map", "_set", "_tuple", "_list")
_OP_EXACT = {"return", "if", "yield", "assign", "call", "break", "continue", "throw", "goto", "label", "nop", "new_object",
             "new_array", "new_record", "addr_of", "mem_read", "mem_write", "field_addr", "slice_read", "slice_write",
             "new_instance", "phi_stmt", "switch", "case", "default", "try", "catch", "finally", "enum_constant",
             "asm_stmt", "del_stmt", "typeof", "instanceof", "while", "for", "do", "pass"}


def _looks_like_op(s: str) -> bool:
    return s in _OP_EXACT or s.endswith(_OP_SUFFIXES)


def _is_emitted(d: ast.Dict, f: Func) -> bool:
    """The dict literal flows to a statements list: argument of append_stmts/append/insert/extend([...]),
    element of a list literal, or returned."""
    return True  # every single-key op-shaped dict in a frontend is an emission; kept as a hook for refinement


# ------------------------------------------------------------------------ readers
@dataclass
class Registry:
    name: str
    cls: ClassInfo
    attr: str
    handlers: Dict[str, Func]          # op -> handler
    stmt_param_index: Dict[str, int]   # handler name -> index of the statement-row parameter


def find_registry(model: RepoModel, rel: str, cls_name: str, attr: str) -> Registry:
    c = model.cls(rel, cls_name)
    table = None
    for f in c.methods.values():
        for n in walk_no_nested(f.node):
            if isinstance(n, ast.Assign) and len(n.targets) == 1 and is_self_attr(n.targets[0], attr) and isinstance(n.value, ast.Dict):
                table = n.value
    if table is None:
        # role fallback: a dict attribute whose values are all bound methods and whose keys are op-like strings
        for f in c.methods.values():
            for n in walk_no_nested(f.node):
                if isinstance(n, ast.Assign) and len(n.targets) == 1 and is_self_attr(n.targets[0]) and isinstance(n.value, ast.Dict) \
                        and len(n.value.keys) >= 8 and all(const_str(k) is not None for k in n.value.keys) \
                        and all(is_self_attr(v) for v in n.value.values):
                    table = n.value
                    attr = n.targets[0].attr
    if table is None:
        raise AnalysisError(f"handler registry {rel}::{cls_name}.{attr} not found")
    handlers: Dict[str, Func] = {}
    for k, v in zip(table.keys, table.values):
        op = const_str(k)
        if op is None or not is_self_attr(v):
            continue
        h = model.find_method(c, v.attr)
        if h is not None:
            handlers[op] = h
    return Registry(f"{cls_name}.{attr}", c, attr, handlers, {})


def attrs_read(model: RepoModel, f: Func, param: str, depth: int = 1, _seen=None) -> Set[str]:
    """attribute names read off parameter ``param`` (a statement row) in ``f``; follows ``self.helper(..., param, ...)``."""
    _seen = _seen if _seen is not None else set()
    if (id(f.node), param) in _seen:
        return set()
    _seen.add((id(f.node), param))
    out: Set[str] = set()
    aliases = {param}
    for n in walk_no_nested(f.node):
        if isinstance(n, ast.Assign) and isinstance(n.value, ast.Name) and n.value.id in aliases:
            for t in n.targets:
                if isinstance(t, ast.Name):
                    aliases.add(t.id)
    for n in walk_no_nested(f.node):
        if isinstance(n, ast.Attribute) and isinstance(n.value, ast.Name) and n.value.id in aliases and isinstance(n.ctx, ast.Load):
            out.add(n.attr)
        if isinstance(n, ast.Call):
            cn = call_name(n)
            if cn in ("getattr", "hasattr") and len(n.args) >= 2 and isinstance(n.args[0], ast.Name) and n.args[0].id in aliases:
                s = const_str(n.args[1])
                if s:
                    out.add(s)
            if depth > 0 and isinstance(n.func, ast.Attribute) and is_self_attr(n.func) and f.cls is not None:
                callee = model.find_method(f.cls, n.func.attr)
                if callee is not None:
                    for i, a in enumerate(n.args):
                        if isinstance(a, ast.Name) and a.id in aliases and i + 1 < len(callee.params) + 0:
                            out |= attrs_read(model, callee, callee.params[i + 1], depth - 1, _seen)
                    for kw in n.keywords:
                        if isinstance(kw.value, ast.Name) and kw.value.id in aliases and kw.arg in callee.params:
                            out |= attrs_read(model, callee, kw.arg, depth - 1, _seen)
    return out - {"operation", "stmt_id", "parent_stmt_id", "_index", "get_index", "to_dict", "copy", "clone", "raw_data"}
