"""C11 -- every reported taint flow is justified by rules and by a data dependence (DESIGN section 3, C11)."""
from __future__ import annotations

import ast
import os
from typing import Dict, List, Optional, Set, Tuple

from ..astutil import is_const, store_targets
from ..cfg import cfg_of
from ..model import AnalysisError, Func, RepoModel, call_name, const_str, dotted, is_self_attr, norm, walk_no_nested

TA = "taint/taint_analysis.py"
FILTER_FIELDS = ["operation", "unit_path", "unit_name", "line_num"]


def yaml_load(path):
    import yaml
    with open(path, "r", encoding="utf-8") as f:
        return yaml.load(f, Loader=getattr(yaml, "CSafeLoader", yaml.SafeLoader))


def yaml_rules(root: str, fname: str) -> List[dict]:
    p = os.path.join(root, "default_settings", fname)
    if not os.path.isfile(p):
        return []
    out = []
    for grp in yaml_load(p) or []:
        for r in (grp.get("rules") or []):
            r = dict(r)
            r["__lang"] = grp.get("lang")
            out.append(r)
    return out


def rule_vars(node) -> Set[str]:
    """Variables that hold a taint rule, found by role: targets of loops over a rule collection (`<x>.all_sources`, `<x>.all_sinks`,
    `<x>.all_*`) or over a local list such variables were appended to."""
    rv: Set[str] = set()
    lists: Set[str] = set()
    for _ in range(3):
        for n in ast.walk(node):
            if isinstance(n, (ast.For, ast.comprehension)) and isinstance(n.target, ast.Name):
                it = n.iter
                if isinstance(it, ast.Attribute) and it.attr.startswith("all_"):
                    rv.add(n.target.id)
                if isinstance(it, ast.Name) and it.id in lists:
                    rv.add(n.target.id)
            if isinstance(n, ast.Call) and isinstance(n.func, ast.Attribute) and n.func.attr == "append" and isinstance(n.func.value, ast.Name) \
                    and n.args and isinstance(n.args[0], ast.Name) and n.args[0].id in rv:
                lists.add(n.func.value.id)
    return rv


def rule_fields_tested(node, rulevar: str = None) -> Set[str]:
    """<rule variable>.<field> names that occur in a test expression (if / boolean) under ``node``."""
    out = set()
    rvs = {rulevar} if rulevar else rule_vars(node)
    for n in ast.walk(node):
        if isinstance(n, (ast.If, ast.IfExp, ast.While)):
            for x in ast.walk(n.test):
                if isinstance(x, ast.Attribute) and isinstance(x.value, ast.Name) and x.value.id in rvs:
                    out.add(x.attr)
    return out


def accept_functions(applier) -> Dict[str, Tuple[Func, str, str]]:
    """name -> (func, rule collection attr, node kind) for functions that iterate a rule list and return a bool."""
    out = {}
    for f in applier.methods.values():
        coll = None
        for n in walk_no_nested(f.node):
            if isinstance(n, ast.For) and isinstance(n.iter, ast.Attribute) and n.iter.attr in ("all_sources", "all_sinks") \
                    and isinstance(n.target, ast.Name):
                coll = n.iter.attr
        if coll is None or f.name.startswith("get_"):
            continue
        kind = None
        for n in walk_no_nested(f.node):
            if isinstance(n, ast.Compare) and dotted(n.left) == "node.name" and isinstance(n.ops[0], (ast.NotEq, ast.Eq)):
                kind = const_str(n.comparators[0]) or kind
        if kind is None:
            for n in walk_no_nested(f.node):
                if isinstance(n, ast.Compare) and isinstance(n.left, ast.Attribute) and n.left.attr == "operation" and isinstance(n.left.value, ast.Name) \
                        and n.left.value.id in rule_vars(f.node) and isinstance(n.ops[0], (ast.NotEq, ast.Eq)):
                    kind = const_str(n.comparators[0]) or kind
        out[f.name] = (f, coll, kind)
    return out


FILTER_EXACT = ("unit_name", "unit_path", "line_num")


def run(model: RepoModel, rep, tier: str):
    rep.not_decided = ("existence of a real data dependence for each reported flow; monotonicity in the rule set (a relation between "
                       "runs); correctness of the state-flow graph the tags are propagated over")
    m = model.module(TA)
    ta = m.classes.get("TaintAnalysis")
    ap = m.classes.get("TaintRuleApplier")
    if ta is None or ap is None:
        raise AnalysisError("TaintAnalysis / TaintRuleApplier vanished")
    ff = ta.methods.get("find_flows")
    gs = ap.methods.get("get_sink_tag_by_rules")
    if ff is None or gs is None:
        raise AnalysisError("find_flows / get_sink_tag_by_rules vanished")

    rep.rule("C11.R1", "the only way to report a flow is through the guard (sink_tag & source_tag) != 0 for the loop's own source and sink; "
                       "run() passes only find_sources()/find_sinks() results", 3)
    rep.rule("C11.R2", "every (source, sink) pair is evaluated in a fresh TaintEnv which is replaced on every path out of the pair", 2)
    rep.rule("C11.R3", "the sink argument position is decided per rule target: it is definitely assigned in the current iteration "
                       "before it is used", 1)
    rep.rule("C11.R5", "the rule set is only ever extended: loaded rules are appended to the rule lists and never replaced, removed or "
                       "de-duplicated (adding rules never removes previously reported flows)", 4)
    rep.rule("C11.R4", "rule filters are consulted: every filter key shipped rules of a kind use is tested by that kind's matcher, and the "
                       "rules used to compute a sink's tag are filtered the same way as the rules that made it a sink", 8)

    # ------------------------------------------------------------------ R1
    cfg = cfg_of(ff.node)
    appends = [n for n in cfg.g.nodes for c in cfg.calls_at(n) if isinstance(c.func, ast.Attribute) and c.func.attr in ("append", "extend", "add")
               and isinstance(c.func.value, ast.Name)]
    rets = [n for n in walk_no_nested(ff.node) if isinstance(n, ast.Return) and n.value is not None]
    result_var = rets[-1].value.id if rets and isinstance(rets[-1].value, ast.Name) else None
    appends = [n for n in appends if any(isinstance(c.func, ast.Attribute) and isinstance(c.func.value, ast.Name) and c.func.value.id == result_var
                                         for c in cfg.calls_at(n))]
    if not appends:
        raise AnalysisError("find_flows: no append to the returned flow list found")
    src_loop = [n for n in walk_no_nested(ff.node) if isinstance(n, ast.For) and isinstance(n.iter, ast.Name) and n.iter.id == ff.params[1]]
    snk_loop = [n for n in walk_no_nested(ff.node) if isinstance(n, ast.For) and isinstance(n.iter, ast.Name) and n.iter.id == ff.params[2]]
    src_var = src_loop[0].target.id if src_loop else None
    snk_var = snk_loop[0].target.id if snk_loop else None
    for an in appends:
        key = f"{TA}::TaintAnalysis.find_flows::`{norm(cfg.stmt[an])}`"
        probs = []
        guards = [(t, lab) for t, lab in cfg.controlling_branches(an) if isinstance(t, ast.If)]
        g = None
        for t, lab in guards:
            tst = t.test
            if isinstance(tst, ast.Compare) and len(tst.ops) == 1 and isinstance(tst.ops[0], ast.NotEq) and is_const(tst.comparators[0], 0) \
                    and isinstance(tst.left, ast.BinOp) and isinstance(tst.left.op, ast.BitAnd) and lab == "T":
                g = tst.left
            elif isinstance(tst, ast.BinOp) and isinstance(tst.op, ast.BitAnd) and lab == "T":
                g = tst
        if g is None:
            probs.append("the append is not control dependent on `(sink_tag & tag) != 0`")
        else:
            names = {x.id for x in (g.left, g.right) if isinstance(x, ast.Name)}
            # provenance of the two operands
            prov = {}
            for n in walk_no_nested(ff.node):
                if isinstance(n, ast.Assign) and isinstance(n.value, ast.Call):
                    cn = (call_name(n.value) or "").split(".")[-1]
                    arg0 = n.value.args[0].id if n.value.args and isinstance(n.value.args[0], ast.Name) else None
                    for t in store_targets(n):
                        if isinstance(t, ast.Name) and t.id in names:
                            prov[t.id] = (cn, arg0)
            want = {("propagate_taint", src_var), ("get_sink_tag_by_rules", snk_var)}
            if set(prov.values()) != want:
                probs.append(f"the guard's operands come from {sorted(prov.values())}, expected propagate_taint({src_var}) and "
                             f"get_sink_tag_by_rules({snk_var})")
        # the flow object is built from the same pair
        recon = [n for n in walk_no_nested(ff.node) if isinstance(n, ast.Call) and (call_name(n) or "").endswith("reconstruct_define_use_path")]
        if recon and [a.id if isinstance(a, ast.Name) else None for a in recon[0].args] != [src_var, snk_var]:
            probs.append("the reported flow is reconstructed for a different (source, sink) pair than the one tested")
        if probs:
            rep.violation("C11.R1", key, TA, cfg.stmt[an].lineno, "find_flows: " + "; ".join(probs))
        else:
            rep.holds("C11.R1", key, TA, cfg.stmt[an].lineno, "dominated by the T-branch of (sink_tag & tag) != 0 with tag/sink_tag of this pair")
    pf = m.classes.get("PathFinder")
    rec = pf.methods.get("reconstruct_define_use_path") if pf else None
    key = f"{TA}::PathFinder.reconstruct_define_use_path::flow endpoints"
    if rec is None:
        raise AnalysisError("reconstruct_define_use_path vanished")
    # the flow object by role: what the function returns
    flow_vars = {n.value.id for n in walk_no_nested(rec.node) if isinstance(n, ast.Return) and isinstance(n.value, ast.Name)} or {"flow"}
    ends = {n.targets[0].attr: dotted(n.value) for n in walk_no_nested(rec.node) if isinstance(n, ast.Assign) and isinstance(n.targets[0], ast.Attribute)
            and isinstance(n.targets[0].value, ast.Name) and n.targets[0].value.id in flow_vars}
    p1, p2 = rec.params[1], rec.params[2]
    if ends.get("source_stmt_id") == f"{p1}.def_stmt_id" and ends.get("sink_stmt_id") == f"{p2}.def_stmt_id":
        rep.holds("C11.R1", key, TA, rec.node.lineno, "flow.source_stmt_id/sink_stmt_id are the defining statements of the tested nodes")
    else:
        rep.violation("C11.R1", key, TA, rec.node.lineno, f"the reported endpoints are {ends}, not the source's and sink's statements")
    runf = ta.methods.get("run")
    key = f"{TA}::TaintAnalysis.run::find_flows(find_sources(), find_sinks())"
    calls = [n for n in walk_no_nested(runf.node) if isinstance(n, ast.Call) and is_self_attr(n.func, "find_flows")]
    ok = bool(calls)
    for c in calls:
        for a, producer in zip(c.args, ("find_sources", "find_sinks")):
            src_ok = isinstance(a, ast.Name) and any(
                isinstance(n, ast.Assign) and isinstance(n.targets[0], ast.Name) and n.targets[0].id == a.id
                and isinstance(n.value, ast.Call) and is_self_attr(n.value.func, producer) for n in walk_no_nested(runf.node))
            src_ok = src_ok or (isinstance(a, ast.Call) and is_self_attr(a.func, producer))
            ok = ok and src_ok
    (rep.holds if ok else rep.violation)("C11.R1", key, TA, runf.node.lineno,
                                         "sources/sinks handed to find_flows are exactly the rule-matched ones" if ok else
                                         "run() hands find_flows nodes that did not come from find_sources()/find_sinks()")

    # ------------------------------------------------------------------ R2
    inner = snk_loop[0] if snk_loop else None
    if inner is None:
        raise AnalysisError("find_flows: loop over sinks not found")
    body_nodes = cfg.loop_body_nodes[cfg.node(inner)]
    fresh = [n for n in body_nodes if cfg.kind[n] == "stmt" and isinstance(cfg.stmt[n], ast.Assign)
             and any(is_self_attr(t, "taint_manager") for t in cfg.stmt[n].targets) and isinstance(cfg.stmt[n].value, ast.Call)
             and call_name(cfg.stmt[n].value) == "TaintEnv"]
    prop = [n for n in body_nodes for c in cfg.calls_at(n) if (call_name(c) or "").endswith("propagate_taint")]
    key = f"{TA}::TaintAnalysis.find_flows::fresh TaintEnv before propagation"
    if fresh and prop and all(cfg.dominates(fresh[0], p) for p in prop):
        rep.holds("C11.R2", key, TA, cfg.stmt[fresh[0]].lineno, "self.taint_manager = TaintEnv() dominates propagate_taint inside the pair loop")
    else:
        rep.violation("C11.R2", key, TA, inner.lineno,
                      "propagate_taint runs in a TaintEnv that is not created for this (source, sink) pair: tags of an earlier source "
                      "justify a flow to this sink")
    saved = [cfg.stmt[n].targets[0].id for n in body_nodes if cfg.kind[n] == "stmt" and isinstance(cfg.stmt[n], ast.Assign)
             and isinstance(cfg.stmt[n].targets[0], ast.Name) and is_self_attr(cfg.stmt[n].value, "taint_manager")]
    restore = {n for n in body_nodes if cfg.kind[n] == "stmt" and isinstance(cfg.stmt[n], ast.Assign)
               and any(is_self_attr(t, "taint_manager") for t in cfg.stmt[n].targets) and isinstance(cfg.stmt[n].value, ast.Name)
               and cfg.stmt[n].value.id in saved}
    key = f"{TA}::TaintAnalysis.find_flows::TaintEnv restored on every path"
    if fresh and restore:
        p = cfg.path_avoiding(fresh[0], cfg.node(inner), restore, within=set(body_nodes) | {cfg.node(inner)})
        p2 = cfg.path_avoiding(fresh[0], cfg.EXIT, restore)
        if p is None and p2 is None:
            rep.holds("C11.R2", key, TA, cfg.stmt[min(restore)].lineno, "every path from the fresh env to the next pair or the exit restores the previous env")
        else:
            rep.violation("C11.R2", key, TA, cfg.stmt[fresh[0]].lineno, "a path leaves the pair without restoring the previous TaintEnv",
                          path=cfg.describe_path(p or p2))
    else:
        rep.violation("C11.R2", key, TA, inner.lineno, "the per-pair TaintEnv is never replaced by the previous one")

    # ------------------------------------------------------------------ R3
    gcfg = cfg_of(gs.node)
    # the loop over a rule's targets: iterates `<rule variable>.target`
    _rv = rule_vars(gs.node)
    def _is_rule_target(e) -> bool:
        return any(isinstance(x, ast.Attribute) and x.attr == "target" and isinstance(x.value, ast.Name) and x.value.id in _rv for x in ast.walk(e))
    _tlists = {n.targets[0].id for n in walk_no_nested(gs.node) if isinstance(n, ast.Assign) and isinstance(n.targets[0], ast.Name) and _is_rule_target(n.value)}
    tloops = [n for n in gcfg.g.nodes if gcfg.kind[n] == "iter" and isinstance(gcfg.stmt[n].target, ast.Name)
              and (_is_rule_target(gcfg.stmt[n].iter) or isinstance(gcfg.stmt[n].iter, ast.Name) and gcfg.stmt[n].iter.id in _tlists)]
    if not tloops:
        rep.unknown("C11.R3", f"{TA}::get_sink_tag_by_rules::target loop", TA, gs.node.lineno, "loop over rule targets not recognised")
    for tl in tloops:
        body = gcfg.loop_body_nodes[tl]
        posvars = set()
        for n in body:
            st = gcfg.stmt.get(n)
            if gcfg.kind[n] == "stmt" and isinstance(st, ast.Assign) and isinstance(st.targets[0], ast.Name) and "pos" in st.targets[0].id \
                    and isinstance(st.value, (ast.Constant, ast.UnaryOp)):
                posvars.add(st.targets[0].id)
        for pv in sorted(posvars):
            defs = {n for n in body if gcfg.kind[n] == "stmt" and isinstance(gcfg.stmt[n], ast.Assign)
                    and any(isinstance(t, ast.Name) and t.id == pv for t in gcfg.stmt[n].targets)}
            uses = [n for n in body if any(isinstance(x, ast.Name) and x.id == pv and isinstance(x.ctx, ast.Load)
                                           for e in gcfg.exprs_at(n) for x in walk_no_nested(e))]
            key = f"{TA}::TaintRuleApplier.get_sink_tag_by_rules::`{pv}` assigned in this iteration before use"
            bt = gcfg.branch_of.get((tl, "T"))
            bad = None
            for u in uses:
                p = gcfg.path_avoiding(bt, u, defs, within=set(body))
                if p is not None and u not in defs:
                    bad = (u, p)
                    break
            if bad is None and uses:
                rep.holds("C11.R3", key, TA, gcfg.stmt[tl].lineno, f"every path from the loop head to a use of `{pv}` assigns it ({len(uses)} uses)")
            elif uses:
                u, p = bad
                rep.violation("C11.R3", key, TA, gcfg.stmt[u].lineno if hasattr(gcfg.stmt[u], "lineno") else gs.node.lineno,
                              f"get_sink_tag_by_rules uses `{pv}` on a path of the target loop that does not assign it (a target that is "
                              f"none of the recognised keywords): the position decided for the previous target/rule is reused, so a flow "
                              f"is reported for an argument the rule does not name (or UnboundLocalError on the first rule)",
                              path=gcfg.describe_path(p))

    # the "no position" sentinel must be excluded before a position comparison whose other side can itself become negative
    for tl in tloops:
        body = gcfg.loop_body_nodes[tl]
        sentinels = {}
        for n in body:
            st = gcfg.stmt.get(n)
            if gcfg.kind[n] == "stmt" and isinstance(st, ast.Assign) and isinstance(st.targets[0], ast.Name) \
                    and isinstance(st.value, ast.UnaryOp) and isinstance(st.value.op, ast.USub) and isinstance(st.value.operand, ast.Constant):
                sentinels[st.targets[0].id] = -st.value.operand.value
        decremented = {x.target.id for x in walk_no_nested(gs.node) if isinstance(x, ast.AugAssign) and isinstance(x.op, ast.Sub) and isinstance(x.target, ast.Name)}
        for pv, sval in sorted(sentinels.items()):
            # a positive test that the sentinel itself satisfies: `pv in (-1, other)` / `pv == -1 or ...` inside the match condition
            for cmp_ in [x for x in walk_no_nested(gs.node) if isinstance(x, ast.Compare) and len(x.ops) == 1 and isinstance(x.ops[0], ast.In)
                         and isinstance(x.left, ast.Name) and x.left.id == pv and isinstance(x.comparators[0], (ast.Tuple, ast.List, ast.Set))]:
                vals = [(-e.operand.value if isinstance(e, ast.UnaryOp) and isinstance(e.op, ast.USub) and isinstance(e.operand, ast.Constant) else
                         (e.value if isinstance(e, ast.Constant) else None)) for e in cmp_.comparators[0].elts]
                key = f"{TA}::TaintRuleApplier.get_sink_tag_by_rules::`{norm(cmp_)}` excludes the sentinel {sval}"
                if sval in vals:
                    rep.violation("C11.R3", key, TA, cmp_.lineno,
                                  f"`{norm(cmp_)}` is satisfied by `{pv}` == {sval}, the value it has when the rule target names no recognised "
                                  f"argument position: such a rule now matches a tainted value in every position, so a flow is reported for an "
                                  f"argument the rule does not name")
                else:
                    rep.holds("C11.R3", key, TA, cmp_.lineno, "membership test does not list the sentinel")
            for cmp_ in [x for x in walk_no_nested(gs.node) if isinstance(x, ast.Compare) and len(x.ops) == 1 and isinstance(x.ops[0], ast.Eq)]:
                sides = [cmp_.left, cmp_.comparators[0]]
                if not any(isinstance(sd, ast.Name) and sd.id == pv for sd in sides):
                    continue
                other = [sd for sd in sides if not (isinstance(sd, ast.Name) and sd.id == pv)][0]
                if isinstance(other, ast.Constant) or not (isinstance(other, ast.Name) and other.id in decremented):
                    continue
                key = f"{TA}::TaintRuleApplier.get_sink_tag_by_rules::`{norm(cmp_)}` excludes the sentinel {sval}"
                # an enclosing `and` with  pv != sentinel / pv >= 0 / pv > -1
                excluded = False
                for bo in [x for x in walk_no_nested(gs.node) if isinstance(x, ast.BoolOp) and isinstance(x.op, ast.And)]:
                    if any(v is cmp_ for v in bo.values):
                        for v in bo.values:
                            if isinstance(v, ast.Compare) and isinstance(v.left, ast.Name) and v.left.id == pv and len(v.ops) == 1:
                                c0 = v.comparators[0]
                                cv = -c0.operand.value if isinstance(c0, ast.UnaryOp) and isinstance(c0.operand, ast.Constant) else (c0.value if isinstance(c0, ast.Constant) else None)
                                if (isinstance(v.ops[0], ast.NotEq) and cv == sval) or (isinstance(v.ops[0], ast.GtE) and cv == 0) or (isinstance(v.ops[0], ast.Gt) and cv == sval):
                                    excluded = True
                if excluded:
                    rep.holds("C11.R3", key, TA, cmp_.lineno, f"conjoined with the exclusion of the sentinel {pv} == {sval}")
                else:
                    rep.violation("C11.R3", key, TA, cmp_.lineno,
                                  f"`{norm(cmp_)}`: `{pv}` is {sval} when the rule target names no argument position, and `{norm(other)}` is "
                                  f"decremented (a receiver at position 0 becomes -1), so the two sentinels meet: the receiver's taint is "
                                  f"taken for the designated argument and a flow is reported for a position the rule does not name")

    # ------------------------------------------------------------------ R4
    acc = accept_functions(ap)
    rep.analysed["rule matchers"] = {k: {"rules": v[1], "kind": v[2], "tests": sorted(rule_fields_tested(v[0].node))} for k, v in acc.items()}
    src_rules = yaml_rules(model.root, "source.yaml")
    snk_rules = yaml_rules(model.root, "sink.yaml")
    rep.analysed["shipped rules"] = {"source.yaml": len(src_rules), "sink.yaml": len(snk_rules)}

    def yaml_kind(op: Optional[str]) -> Optional[str]:
        if op is None:
            return None
        if op in ("object_call", "object_call_stmt"):
            return "object_call_stmt"
        return op

    used_filters: Dict[Tuple[str, str], Set[str]] = {}
    for coll, rules in (("all_sources", src_rules), ("all_sinks", snk_rules)):
        for r in rules:
            k = yaml_kind(r.get("operation"))
            for fld in ("unit_path", "unit_name", "line_num"):
                if r.get(fld):
                    used_filters.setdefault((coll, k), set()).add(fld)
    for name, (f, coll, kind) in sorted(acc.items()):
        tested = rule_fields_tested(f.node)
        need = used_filters.get((coll, kind), set())
        for fld in sorted(need):
            key = f"{TA}::TaintRuleApplier.{name}::consults rule.{fld}"
            if fld in tested:
                rep.holds("C11.R4", key, TA, f.node.lineno, f"shipped {kind} rules use `{fld}` and the matcher tests it")
            else:
                rep.violation("C11.R4", key, TA, f.node.lineno,
                              f"shipped {coll[4:]} rules of kind {kind} restrict by `{fld}`, but {name} never tests rule.{fld}: the rule "
                              f"matches statements in files/lines it excludes")
    # a filter restricts by EQUALITY: every matcher on the pinned tree rejects a rule with `rule.<filter> != <value of the statement>`.
    # A containment test (`not in`) lets a rule written for `a.py` select statements of `data.py`, an ordering test a range of lines.
    for name, (f, coll, kind) in sorted(acc.items()):
        rvs = rule_vars(f.node)
        for cmp_ in walk_no_nested(f.node):
            if not isinstance(cmp_, ast.Compare):
                continue
            sides = [cmp_.left] + list(cmp_.comparators)
            flds = [x.attr for x in sides if isinstance(x, ast.Attribute) and isinstance(x.value, ast.Name) and x.value.id in rvs and x.attr in FILTER_EXACT]
            if not flds:
                continue
            key = f"{TA}::TaintRuleApplier.{name}::rule.{flds[0]} restricts by equality"
            if all(isinstance(o, (ast.Eq, ast.NotEq)) for o in cmp_.ops):
                rep.holds("C11.R4", key, TA, cmp_.lineno, f"`{norm(cmp_)}`")
            else:
                rep.violation("C11.R4", key, TA, cmp_.lineno,
                              f"{name} compares the filter with `{norm(cmp_)}`: not an equality, unlike every sibling matcher -- a rule restricted to "
                              f"one file or line also selects statements of other files or lines (a rule for `a.py` matches in `data.py`)")
    # language restriction
    key = f"{TA}::rule.lang consulted"
    lang_used = any(isinstance(n, ast.Attribute) and n.attr == "lang" and isinstance(n.value, ast.Name) and n.value.id in rule_vars(fn_.node)
                    for fn_ in m.all_funcs() for n in ast.walk(fn_.node))
    rm = model.module("taint/rule_manager.py")
    lang_filtered_at_load = any(isinstance(n, ast.Compare) and any(isinstance(x, ast.Name) and x.id == "lang" for x in ast.walk(n))
                                for n in ast.walk(rm.tree))
    if lang_used or lang_filtered_at_load:
        rep.holds("C11.R4", key, TA, 1, "rule language is compared with the unit's language")
    else:
        rep.violation("C11.R4", key, TA, ap.node.lineno,
                      "every shipped rule group carries `lang`, RuleManager stores it in Rule.lang, but no matcher in taint_analysis.py (nor "
                      "RuleManager) ever compares it with the analysed unit's language: a java/go rule selects python statements")
    # tag computation filters like the acceptance
    _op_vars = {n.targets[0].id for n in walk_no_nested(gs.node) if isinstance(n, ast.Assign) and isinstance(n.targets[0], ast.Name)
                and isinstance(n.value, ast.Attribute) and (n.value.attr == "operation" or n.value.attr == "name" and isinstance(n.value.value, ast.Name)
                                                            and n.value.value.id in gs.params)} or {"operation"}
    branches: Dict[str, ast.If] = {}
    for n in walk_no_nested(gs.node):
        if isinstance(n, ast.If) and isinstance(n.test, ast.Compare) and isinstance(n.test.left, ast.Name) and n.test.left.id in _op_vars:
            k = const_str(n.test.comparators[0])
            if k and k not in branches:
                branches[k] = n
    for name, (f, coll, kind) in sorted(acc.items()):
        if coll != "all_sinks" or kind not in branches:
            continue
        br = branches[kind]
        tested_accept = rule_fields_tested(f.node) & set(FILTER_FIELDS)
        tested_tag = set()
        for s in br.body:
            tested_tag |= rule_fields_tested(s)
        missing = sorted(tested_accept - tested_tag)
        key = f"{TA}::get_sink_tag_by_rules[{kind}]::filters like {name}"
        if not missing:
            rep.holds("C11.R4", key, TA, br.lineno, f"both test {sorted(tested_accept)}")
        else:
            rep.violation("C11.R4", key, TA, br.lineno,
                          f"{name} accepts a {kind} as a sink only for rules passing {sorted(tested_accept)}, but get_sink_tag_by_rules "
                          f"collects the rules for the same statement without testing {missing}: the argument positions of rules "
                          f"restricted to other files/lines/kinds decide whether a flow is reported")

    # a fresh TaintEnv is an empty one: its tag tables are created per instance
    from ..generic import check_fresh_instance_state, check_shared_class_state
    if check_fresh_instance_state(model, rep, "C11.R2", "taint/taint_structs.py", "TaintEnv") < 2:
        raise AnalysisError("TaintEnv no longer keeps its tag tables in containers written through self")
    check_shared_class_state(model, rep, "C11.R2", [r for r in ("taint/taint_structs.py", "taint/taint_analysis.py", "taint/rule_manager.py") if r in model.modules])
    # ------------------------------------------------------------------ R5
    rmm = model.module("taint/rule_manager.py")
    rmc = rmm.classes.get("RuleManager")
    if rmc is None:
        raise AnalysisError("RuleManager vanished")
    lists = sorted({n.targets[0].attr for n in walk_no_nested(rmc.methods["__init__"].node) if isinstance(n, ast.Assign)
                    and is_self_attr(n.targets[0]) and isinstance(n.value, ast.List) and n.targets[0].attr.startswith("all_")})
    for lst in lists:
        offenders = []
        appends = 0
        for mod in (rmm, m):
            for f in mod.all_funcs():
                for n in walk_no_nested(f.node):
                    if isinstance(n, (ast.Assign, ast.AugAssign, ast.Delete)):
                        tg = n.targets if isinstance(n, (ast.Assign, ast.Delete)) else [n.target]
                        for t in tg:
                            base = t.value if isinstance(t, ast.Subscript) else t
                            if isinstance(base, ast.Attribute) and base.attr == lst and not (f.name == "__init__" and f.cls is rmc and isinstance(getattr(n, "value", None), ast.List)):
                                offenders.append((f, n))
                    if isinstance(n, ast.Call) and isinstance(n.func, ast.Attribute) and isinstance(n.func.value, ast.Attribute) and n.func.value.attr == lst:
                        if n.func.attr == "append":
                            appends += 1
                        elif n.func.attr in ("remove", "pop", "clear", "sort", "reverse", "insert"):
                            offenders.append((f, n))
        key = f"taint/rule_manager.py::RuleManager.{lst}::append-only"
        if offenders:
            f, n = offenders[0]
            rep.violation("C11.R5", key, f.module.rel, n.lineno,
                          f"{f.ref} replaces or removes entries of RuleManager.{lst} (`{norm(n)}`): a rule added to the configuration can "
                          f"displace one that justified a flow, so adding rules removes previously reported flows")
        else:
            rep.holds("C11.R5", key, "taint/rule_manager.py", rmc.node.lineno, f"{appends} append site(s); never reassigned, filtered or reordered")
    # keyword arguments are paired with parameter names consistently (shared with C07.R4): a wrong pairing reports a flow into a
    # sink argument that only ever holds a constant
    from .c07 import _r4_keyword_order
    _r4_keyword_order(model, rep, "C11.R6")
    from .c10 import check_use_positions
    check_use_positions(model, rep, "C11.R3")
    from ..generic2 import check_index_partitions
    rep.rule("C11.R7", "argument binding covers every position exactly once: the positional loop over [0, common_len), the loop over the remaining "
                        "positional parameters and the tail slice of the remaining positional arguments continue exactly where the first loop stopped, "
                        "so an argument is bound to the wrong parameter position", 2)
    check_index_partitions(model, rep, "C11.R7", ["core/stmt_states.py"])
    from .. import generic4
    rep.rule("C11.R8", "a rule restricted to a line matches only the statement on that line: every comparison with rule.line_num is against the "
                       "0-based row + 1, the offset stored in SFGNode.line_no included", 6)
    generic4.check_rule_line_offsets(model, rep, "C11.R8")
    rep.rule("C11.R9", "adding a rule never removes a flow: the matching rules are never collapsed to one per name (or per any single attribute)", 0)
    generic4.check_no_keyed_collapse(model, rep, "C11.R9", [r for r in ("taint/taint_analysis.py", "taint/rule_manager.py") if r in model.modules])


# ---------------------------------------------------------------- self-test mutants
def _m(kind, cls, func, pred, new=None, nth=0):
    def mut(src):
        from .. import mutate
        if kind == "del":
            return mutate.delete_stmt_where(src, cls, func, pred, nth)
        if kind == "stmt":
            return mutate.replace_stmt_where(src, cls, func, pred, new, nth)
        return mutate.replace_expr_where(src, cls, func, pred, new, nth)
    return mut


def _text(old, new):
    return lambda src: __import__("sa.mutate", fromlist=["x"]).text_replace(src, old, new)


MUTANTS = [
    ("sentinel-accepted-by-membership", TA, _text("                        if (target_pos != -1 and weight_pos == target_pos) or \\\n                            (target == TAG_KEYWORD.TARGET) or \\\n                            (not target):",
                                                  "                        if target_pos in (-1, weight_pos) or target == TAG_KEYWORD.TARGET:"),
     "excludes the sentinel"),
    ("sentinel-exclusion-dropped", TA, _m("expr", "TaintRuleApplier", "get_sink_tag_by_rules",
                                          lambda e: isinstance(e, ast.BoolOp) and isinstance(e.op, ast.And) and "target_pos != -1" in norm(e),
                                          "weight_pos == target_pos"), "excludes the sentinel"),
    ("rules-deduplicated", "taint/rule_manager.py",
     lambda src: __import__("sa.mutate", fromlist=["x"]).insert_after_stmt_where(
         src, "RuleManager", "init", lambda st: isinstance(st, ast.With), "self.all_sinks = list({(r.name, r.operation): r for r in self.all_sinks}.values())", nth=-1),
     "all_sinks::append-only"),
    ("guard-removed", TA, _m("stmt", "TaintAnalysis", "find_flows",
                             lambda st: isinstance(st, ast.If) and isinstance(st.test, ast.Compare) and isinstance(st.test.left, ast.BinOp),
                             "flow = self.path_finder.reconstruct_define_use_path(source, sink)\nflow.vuln_type = vuln_type\nflow_list.append(flow)"),
     "find_flows::`flow_list.append"),
    ("guard-or", TA, _m("expr", "TaintAnalysis", "find_flows", lambda e: isinstance(e, ast.BinOp) and isinstance(e.op, ast.BitAnd), "sink_tag | tag"),
     "find_flows::`flow_list.append"),
    ("env-hoisted", TA, _m("del", "TaintAnalysis", "find_flows",
                           lambda st: isinstance(st, ast.Assign) and isinstance(st.value, ast.Call) and call_name(st.value) == "TaintEnv"),
     "fresh TaintEnv"),
    ("env-not-restored", TA, _m("del", "TaintAnalysis", "find_flows",
                                lambda st: isinstance(st, ast.Assign) and isinstance(st.value, ast.Name) and st.value.id == "original_manager"),
     "TaintEnv restored"),
    ("target-pos-default-dropped", TA, _m("del", "TaintRuleApplier", "get_sink_tag_by_rules",
                                          lambda st: isinstance(st, ast.Assign) and isinstance(st.targets[0], ast.Name) and st.targets[0].id == "target_pos"
                                          and isinstance(st.value, ast.UnaryOp)), "`target_pos` assigned"),
    ("call-sink-line-filter-dropped", TA, _m("del", "TaintRuleApplier", "should_apply_call_stmt_sink_rules",
                                             lambda st: isinstance(st, ast.If) and "rule.line_num" in norm(st.test)),
     "should_apply_call_stmt_sink_rules::consults rule.line_num"),
    ("param-source-unit-name-dropped", TA, _m("del", "TaintRuleApplier", "apply_parameter_source_rules",
                                              lambda st: isinstance(st, ast.If) and "rule.unit_name" in norm(st.test)),
     "apply_parameter_source_rules::consults rule.unit_name"),
    ("wrong-pair-reconstructed", TA, _m("expr", "TaintAnalysis", "find_flows",
                                        lambda e: isinstance(e, ast.Call) and (call_name(e) or "").endswith("reconstruct_define_use_path"),
                                        "self.path_finder.reconstruct_define_use_path(sources[0], sink)"), "find_flows::`flow_list.append"),
    ("run-all-nodes-as-sinks", TA, _m("expr", "TaintAnalysis", "run",
                                      lambda e: isinstance(e, ast.Call) and is_self_attr(e.func, "find_sinks"), "list(self.sfg.nodes)"),
     "TaintAnalysis.run"),
]
