"""C15 -- every result saved through the loader is what later reads and the files return.

Decided structurally on util/loader.py (see DESIGN section 3, C15):
  R1 save/remove invalidate the item cache that reads consult first
  R2 export of a bundle: write, re-point every active index entry, then clear -- in that order
  R3 writer / reader / schema agreement of every loader family (flatten vs query vs unflatten; export vs restore)
  R4 every loader object owned by ``Loader`` is picked up by the export/restore driver
  R5 write failures on the export path are reported, not swallowed
"""
from __future__ import annotations

import ast
from typing import Dict, List, Optional, Set, Tuple

from ..astutil import is_const, kwarg, local_assignments, root_self_attr, store_targets
from ..cfg import cfg_of
from ..model import (AnalysisError, ClassInfo, Func, RepoModel, call_name, const_str, dotted, is_self_attr, literal,
                     norm, walk_no_nested)

FILE = "util/loader.py"
ROW_METHODS = {"raw_data", "get_whole_str", "to_dict", "get_index", "copy", "clone", "add_new_column"}


# ------------------------------------------------------------------ key extraction
class Shape:
    def __init__(self):
        self.keys: Set[str] = set()
        self.arity: Optional[int] = None
        self.unknown = False       # some contribution could not be resolved
        self.seen_dict = False

    def merge(self, o: "Shape"):
        self.keys |= o.keys
        self.unknown |= o.unknown
        self.seen_dict |= o.seen_dict
        if o.arity is not None:
            if self.arity is None:
                self.arity = o.arity
            elif self.arity != o.arity:
                self.unknown = True

    def __repr__(self):
        return f"Shape(keys={sorted(self.keys)}, arity={self.arity}, unknown={self.unknown})"


def _to_dict_candidates(model: RepoModel, call: ast.Call, f: Func, recv_cls: Optional[ClassInfo]) -> List[Func]:
    name = call.func.attr
    nargs = len(call.args) + len(call.keywords)
    if recv_cls is not None:
        m = model.find_method(recv_cls, name)
        return [m] if m else []
    out = []
    # isinstance guard on the receiver:  elif isinstance(x, (A, B)): ... x.to_dict(...)
    recv = call.func.value
    if isinstance(recv, ast.Name):
        for n in walk_no_nested(f.node):
            if isinstance(n, ast.If) and isinstance(n.test, ast.Call) and call_name(n.test) == "isinstance" \
                    and len(n.test.args) == 2 and isinstance(n.test.args[0], ast.Name) and n.test.args[0].id == recv.id \
                    and any(x is call for b in n.body for x in ast.walk(b)):
                t = n.test.args[1]
                for e in (t.elts if isinstance(t, ast.Tuple) else [t]):
                    k = model.resolve_class_name(dotted(e) or "", f.module)
                    mm = model.find_method(k, name) if k is not None else None
                    if mm is not None and mm not in out:
                        out.append(mm)
        if out:
            return out
    # sibling link: the classes the same loader's restore() constructs are the ones its export() serialises
    if f.cls is not None:
        rs = f.cls.methods.get("restore")
        if rs is not None and rs is not f:
            for n in walk_no_nested(rs.node):
                if isinstance(n, ast.Call):
                    k = model.resolve_class_name(call_name(n) or "", f.module)
                    if k is not None:
                        mm = model.find_method(k, name)
                        if mm is not None and mm not in out:
                            out.append(mm)
            if out:
                return out
    cs = model.modules.get("common_structs.py")
    for mod in ([cs] if cs else []):
        for c in mod.classes.values():
            m = c.methods.get(name)
            if m is None:
                continue
            a = m.node.args
            npos = len(a.args) - 1
            nreq = npos - len(a.defaults)
            if nreq <= nargs <= npos:
                out.append(m)
    argnames = [a.id for a in call.args if isinstance(a, ast.Name)]
    if len(argnames) == len(call.args) and argnames:
        exact = [m for m in out if [x.arg for x in m.node.args.args[1:1 + len(argnames)]] == argnames]
        if exact:
            return exact
    if len(out) > 3:
        return []  # too ambiguous to attribute: caller reports UNKNOWN
    return out


def _ann_elem_class(model: RepoModel, ann, ctx) -> Optional[ClassInfo]:
    """Class named by an annotation, looking through dict[..., X] / list[X]."""
    if ann is None:
        return None
    if isinstance(ann, ast.Subscript):
        sl = ann.slice
        if isinstance(sl, ast.Tuple) and sl.elts:
            return _ann_elem_class(model, sl.elts[-1], ctx)
        return _ann_elem_class(model, sl, ctx)
    d = dotted(ann)
    return model.resolve_class_name(d, ctx) if d else None


def row_shape(model: RepoModel, f: Func, expr, depth: int = 0, seen=None) -> Shape:
    """Shape (dict keys / tuple arity) of one *row* denoted by ``expr`` inside ``f``."""
    sh = Shape()
    seen = seen if seen is not None else set()
    if depth > 4:
        sh.unknown = True
        return sh
    if isinstance(expr, ast.Dict):
        sh.seen_dict = True
        for k in expr.keys:
            s = const_str(k) if k is not None else None
            if s is None:
                sh.unknown = True
            else:
                sh.keys.add(s)
        return sh
    if isinstance(expr, (ast.Tuple, ast.List)) and not any(isinstance(e, ast.Starred) for e in expr.elts):
        sh.arity = len(expr.elts)
        return sh
    if isinstance(expr, ast.Name):
        key = (id(f.node), expr.id)
        if key in seen:
            return sh
        seen.add(key)
        defs = local_assignments(f.node).get(expr.id, [])
        if not defs:
            sh.unknown = True
        for d in defs:
            if isinstance(d, (ast.For, ast.comprehension)) or d is None:
                sh.unknown = True
                continue
            # loop variable / parameter: unknown contents
            if any(isinstance(n, (ast.For,)) and any(isinstance(t, ast.Name) and t.id == expr.id for t in ast.walk(n.target))
                   and n.iter is d for n in walk_no_nested(f.node)):
                sh.unknown = True
                continue
            sh.merge(row_shape(model, f, d, depth + 1, seen))
        # subscript stores  name["k"] = v
        for n in walk_no_nested(f.node):
            if isinstance(n, ast.Assign):
                for t in n.targets:
                    if isinstance(t, ast.Subscript) and isinstance(t.value, ast.Name) and t.value.id == expr.id:
                        s = const_str(t.slice)
                        if s is None:
                            sh.unknown = True
                        else:
                            sh.keys.add(s)
                            sh.seen_dict = True
        return sh
    if isinstance(expr, ast.IfExp):
        sh.merge(row_shape(model, f, expr.body, depth + 1, seen))
        sh.merge(row_shape(model, f, expr.orelse, depth + 1, seen))
        return sh
    if isinstance(expr, ast.Call) and isinstance(expr.func, ast.Attribute):
        recv = expr.func.value
        recv_cls = None
        if isinstance(recv, ast.Name):
            for a in f.node.args.args:
                if a.arg == recv.id:
                    recv_cls = _ann_elem_class(model, a.annotation, f.module)
            if recv_cls is None:
                # loop variable over an annotated parameter:  for _, status in stmt_to_status.items()
                for n in walk_no_nested(f.node):
                    if isinstance(n, ast.For) and any(isinstance(t, ast.Name) and t.id == recv.id for t in ast.walk(n.target)):
                        base = n.iter
                        while isinstance(base, (ast.Call, ast.Attribute)):
                            base = base.func if isinstance(base, ast.Call) else base.value
                        if isinstance(base, ast.Name):
                            for a in f.node.args.args:
                                if a.arg == base.id:
                                    recv_cls = _ann_elem_class(model, a.annotation, f.module)
        elif is_self_attr(recv) and f.cls is not None:
            recv_cls = model.attr_class(f.cls, recv.attr)
        cands = _to_dict_candidates(model, expr, f, recv_cls)
        if not cands:
            sh.unknown = True
        for m in cands:
            sh.merge(returned_row_shape(model, m, depth + 1))
        return sh
    sh.unknown = True
    return sh


def returned_row_shape(model: RepoModel, f: Func, depth: int = 0) -> Shape:
    """Shape of the rows in what ``f`` returns (a row, or a list of rows)."""
    sh = Shape()
    if depth > 4:
        sh.unknown = True
        return sh
    rets = [n for n in walk_no_nested(f.node) if isinstance(n, ast.Return) and n.value is not None]
    if not rets:
        sh.unknown = True
    if any(isinstance(n, ast.Call) and call_name(n) == "dataclasses.fields" for n in walk_no_nested(f.node)):
        # generic dataclass serialiser: keys are the annotated fields of the concrete class (resolved by the caller)
        sh.unknown = True
        return sh
    for r in rets:
        sh.merge(_rows_of(model, f, r.value, depth))
    return sh


def _rows_of(model: RepoModel, f: Func, v, depth: int, window: Optional[Tuple[int, int]] = None) -> Shape:
    """Shape of the rows of table expression ``v``.  ``window`` = (lo, hi) line range: only list
    definitions/appends inside it are considered (locals such as ``results`` are re-used for several tables)."""
    sh = Shape()

    def inwin(n):
        return window is None or window[0] <= getattr(n, "lineno", 0) <= window[1]

    if isinstance(v, ast.Dict):
        return row_shape(model, f, v, depth)
    if isinstance(v, ast.ListComp):
        return row_shape(model, f, v.elt, depth)
    if isinstance(v, ast.List) and v.elts:
        for e in v.elts:
            sh.merge(row_shape(model, f, e, depth))
        return sh
    if isinstance(v, ast.Name):
        assigns = [n for n in walk_no_nested(f.node) if isinstance(n, ast.Assign) and len(n.targets) == 1
                   and isinstance(n.targets[0], ast.Name) and n.targets[0].id == v.id and inwin(n)]
        if window is not None and assigns:
            # the latest (re)definition before the use starts the table
            last = max(assigns, key=lambda n: n.lineno)
            assigns = [last]
            window = (last.lineno, window[1])
        defs = [n.value for n in assigns]
        if any(isinstance(d, ast.List) for d in defs):
            for d in defs:
                if isinstance(d, ast.List):
                    for e in d.elts:
                        sh.merge(row_shape(model, f, e, depth))
                else:
                    sh.unknown = True
            found = any(isinstance(d, ast.List) and d.elts for d in defs)
            for n in walk_no_nested(f.node):
                if not inwin(n):
                    continue
                if isinstance(n, ast.Call) and isinstance(n.func, ast.Attribute) and n.func.attr == "append" \
                        and isinstance(n.func.value, ast.Name) and n.func.value.id == v.id and n.args:
                    found = True
                    sh.merge(row_shape(model, f, n.args[0], depth))
                if isinstance(n, ast.Call) and isinstance(n.func, ast.Attribute) and n.func.attr == "extend" \
                        and isinstance(n.func.value, ast.Name) and n.func.value.id == v.id:
                    sh.unknown = True
            if not found:
                sh.unknown = True
            return sh
        if defs and all(isinstance(d, ast.Dict) for d in defs):
            return row_shape(model, f, v, depth)  # dict local, including later  name["k"] = v  stores
        for d in defs:
            if isinstance(d, ast.Call):
                sh.merge(_rows_of(model, f, d, depth + 1))
            elif isinstance(d, ast.Dict):
                sh.merge(row_shape(model, f, d, depth))
            else:
                sh.unknown = True
        if not defs:
            sh.unknown = True
        return sh
    if isinstance(v, ast.Call) and isinstance(v.func, ast.Attribute):
        return row_shape(model, f, v, depth)
    sh.unknown = True
    return sh


def row_reads(f: Func, source_param_index: int = 2) -> Tuple[Set[str], bool]:
    """Attributes read off rows iterated from the table parameter of an unflatten/restore function.
    Returns (attrs, iterates_rows)."""
    attrs: Set[str] = set()
    rowvars: Set[str] = set()
    params = f.params
    table = params[source_param_index] if len(params) > source_param_index else None
    tables = {table} if table else set()
    # locals assigned from DataModel().load(...) are tables too
    for n in walk_no_nested(f.node):
        if isinstance(n, ast.Assign) and len(n.targets) == 1 and isinstance(n.targets[0], ast.Name) \
                and isinstance(n.value, ast.Call) and isinstance(n.value.func, ast.Attribute) and n.value.func.attr == "load":
            tables.add(n.targets[0].id)
    for n in walk_no_nested(f.node):
        if isinstance(n, ast.For) and isinstance(n.iter, ast.Name) and n.iter.id in tables and isinstance(n.target, ast.Name):
            rowvars.add(n.target.id)
    for n in walk_no_nested(f.node):
        if isinstance(n, ast.Attribute) and isinstance(n.value, ast.Name) and n.value.id in rowvars \
                and isinstance(n.ctx, ast.Load) and n.attr not in ROW_METHODS:
            attrs.add(n.attr)
    return attrs, bool(rowvars)


def query_columns(f: Func) -> Set[str]:
    out = set()
    for n in walk_no_nested(f.node):
        if isinstance(n, ast.Call) and isinstance(n.func, ast.Attribute) and n.func.attr.startswith("query_index_column_value") \
                and n.args:
            s = const_str(n.args[0])
            if s is not None:
                out.add(s)
    return out


# ---------------------------------------------------------------------- the rules
def schema_value(model: RepoModel, expr, ctx_func: Func):
    """List of column names for a schema expression, None if unresolvable, [] if empty."""
    if isinstance(expr, (ast.List, ast.Tuple)):
        v = literal(expr)
        return list(v) if v is not NotImplemented else None
    d = dotted(expr)
    if d and "." in d:
        modalias, name = d.rsplit(".", 1)
        mod = model.resolve_module_alias(modalias, ctx_func.module)
        if mod and name in mod.assigns:
            v = literal(mod.assigns[name])
            if v is not NotImplemented and isinstance(v, (list, tuple)):
                return list(v)
            if v is not NotImplemented and isinstance(v, dict):
                return list(v.keys())
    return None


def run(model: RepoModel, rep, tier: str):
    rep.not_decided = ("LRU eviction interleavings, byte-level round trip through feather, value equality of restored items, "
                       "reverse-map staleness of dict-backed loaders")
    m = model.module(FILE)
    gl = m.classes.get("GeneralLoader")
    ld = m.classes.get("Loader")
    if gl is None or ld is None:
        raise AnalysisError("GeneralLoader / Loader vanished from util/loader.py")
    family = [gl] + [c for c in m.classes.values() if c is not gl and gl in model.mro(c)]
    rep.analysed["GeneralLoader family"] = [c.name for c in family]

    rep.rule("C15.R1", "every save/remove path of a bundle loader evicts or replaces the item-cache entry that reads consult first",
             min_instances=2)
    rep.rule("C15.R2", "bundle export: the write precedes re-pointing every active (-1) index entry to the new bundle id, "
                       "which precedes clearing the active bundle; the bundle counter advances", min_instances=2)
    rep.rule("C15.R3", "writer/reader/schema agreement: every column a loader queries or reads back is a column its writer emits "
                       "(and, when a schema is given, one the schema keeps)", min_instances=20)
    rep.rule("C15.R4", "every object owned by Loader whose class has export() is collected by the export/restore driver; "
                       "every exporting class can restore", min_instances=40)
    rep.rule("C15.R5", "no exception handler on the export path swallows a failed write silently", min_instances=1)
    rep.rule("C15.R6", "rows are filed under the key they are saved with: a loader that looks items up by a key column stamps that column "
                       "with the save key unconditionally when flattening (a row that already carries another value must not keep it)", 1)
    from ..model import enclosing_map as _encmap
    lmod = model.module(FILE)
    n_stamp = 0
    for c_ in lmod.classes.values():
        q_ = c_.methods.get("query_flattened_item_when_loading")
        fl_ = c_.methods.get("flatten_item_when_saving")
        if q_ is None or fl_ is None or len(fl_.params) < 2:
            continue
        cols = {const_str(x.args[0]) for x in walk_no_nested(q_.node) if isinstance(x, ast.Call) and isinstance(x.func, ast.Attribute)
                and x.func.attr.startswith("query_index_column_value") and x.args and const_str(x.args[0])}
        keyp = fl_.params[1]
        enc_ = _encmap(fl_.node)
        for n in walk_no_nested(fl_.node):
            if isinstance(n, ast.Assign) and isinstance(n.targets[0], ast.Subscript) and const_str(n.targets[0].slice) in cols \
                    and isinstance(n.value, ast.Name) and n.value.id == keyp:
                n_stamp += 1
                col = const_str(n.targets[0].slice)
                dvar = n.targets[0].value.id if isinstance(n.targets[0].value, ast.Name) else None
                cur, conds = n, []
                while id(cur) in enc_:
                    cur = enc_[id(cur)]
                    if isinstance(cur, ast.If):
                        conds.append(cur.test)
                key = f"{FILE}::{c_.name}.flatten_item_when_saving::column `{col}` stamped with the save key"

                def always_true(t) -> bool:
                    # a constant true test, or `not hasattr(<the row dict>, "...")`: a dict has no such attribute, the test is constantly true
                    if isinstance(t, ast.Constant) and t.value:
                        return True
                    return isinstance(t, ast.UnaryOp) and isinstance(t.op, ast.Not) and isinstance(t.operand, ast.Call) \
                        and call_name(t.operand) == "hasattr" and t.operand.args and isinstance(t.operand.args[0], ast.Name) and t.operand.args[0].id == dvar
                real = [t for t in conds if not always_true(t)]
                if not real:
                    rep.holds("C15.R6", key, FILE, n.lineno, "unconditional" + (" (guard `not hasattr(dict, ...)` is constantly true)" if conds else ""))
                else:
                    rep.violation("C15.R6", key, FILE, n.lineno,
                                  f"{c_.name} stamps `{col}` only when `{norm(real[0])}`: a row that already carries a `{col}` of its own (a node "
                                  f"cloned from another unit) keeps it, is exported under that value and -- since items are read back with "
                                  f"query_index_column_value(\"{col}\", key) -- disappears from the unit it was saved for and shows up in another")
    if n_stamp == 0:
        raise AnalysisError("no key-column stamp found in any flatten_item_when_saving")
    rep.rule("C15.R7", "storage keys derived from a hash separate what equality separates: CallSite.__hash__ (written to the hash_id column "
                       "and used as the phase-3 item id) involves every field __eq__ compares", 2)
    from .c09 import check_callsite_identity
    check_callsite_identity(model, rep, "C15.R7")
    from ..generic import check_shared_class_state
    rep.rule("C15.R8", "every loader keeps its own tables: a mutable object bound in a class body of the loader / table modules is never written "
                       "through self (one loader's index or cache would be every loader's)", 0)
    check_shared_class_state(model, rep, "C15.R8", ["util/loader.py", "util/data_model.py"])
    from .. import generic6
    rep.rule("C15.R9", "an id range written as (min, max) is read back whole: restore rebuilds range(min, max + 1)", 1)
    generic6.check_inclusive_bounds_roundtrip(model, rep, "C15.R9")
    rep.rule("C15.R10", "a summary is exported under the keys it was built with: tables keyed by raw indices are never read under an index "
                        "that went through raw_to_new_index", 1)
    generic6.check_raw_index_keys(model, rep, "C15.R10")

    # ------------------------------------------------------------------ R1
    # role: the cache consulted first by the reader
    reader = gl.methods.get("get_raw_item_by_id")
    if reader is None:
        raise AnalysisError("GeneralLoader.get_raw_item_by_id vanished")
    first_cache = None
    for st in reader.node.body:
        for n in ast.walk(st):
            if isinstance(n, ast.Call) and isinstance(n.func, ast.Attribute) and n.func.attr in ("contain", "get") \
                    and is_self_attr(n.func.value):
                first_cache = n.func.value.attr
                break
        if first_cache:
            break
    if first_cache is None:
        raise AnalysisError("cannot identify the cache consulted first by get_raw_item_by_id")
    rep.analysed["first-consulted cache"] = first_cache
    active_attr = "active_bundle"
    index_attr = "item_id_to_bundle_id"

    def evict_nodes(cfg, key_param: Optional[str]) -> Set[int]:
        out = set()
        for n in cfg.g.nodes:
            for c in cfg.calls_at(n):
                if isinstance(c.func, ast.Attribute) and is_self_attr(c.func.value, first_cache):
                    if c.func.attr in ("remove", "put", "pop", "delete") and c.args and (
                            key_param is None or (isinstance(c.args[0], ast.Name) and c.args[0].id == key_param)):
                        out.add(n)
                    if c.func.attr in ("clean", "clear"):
                        out.add(n)
        return out

    for c in family:
        for mname in ("save", "remove_unit_id"):
            f = c.methods.get(mname)
            if f is None:
                continue
            cfg = cfg_of(f.node)
            key_param = f.params[1] if len(f.params) > 1 else None
            # writes to the index / active bundle for this key
            writes = []
            for n in cfg.g.nodes:
                st = cfg.stmt.get(n)
                if cfg.kind[n] == "stmt" and isinstance(st, (ast.Assign, ast.Delete)):
                    for t in store_targets(st):
                        if isinstance(t, ast.Subscript) and root_self_attr(t) in (active_attr, index_attr):
                            writes.append(n)
            # delegation to another save (e.g. save_all -> self.save) is covered by that method
            if not writes:
                continue
            ev = evict_nodes(cfg, key_param)
            key = f"{FILE}::{f.qualname}::item cache entry of `{key_param}`"
            # every path entry->exit that passes a write must also pass an eviction: check both halves
            bad = None
            for w in writes:
                p_after = cfg.path_avoiding(w, cfg.EXIT, ev)
                before_ok = any(cfg.dominates(e, w) for e in ev)
                if p_after is not None and not before_ok and w not in ev:
                    bad = (w, p_after)
                    break
            if bad is None:
                rep.holds("C15.R1", key, FILE, f.node.lineno,
                          f"every path through a store to self.{active_attr}/self.{index_attr} also evicts self.{first_cache}[{key_param}]")
            else:
                w, p = bad
                rep.violation("C15.R1", key, FILE, cfg.stmt[w].lineno,
                              f"{f.qualname} replaces the stored item for `{key_param}` but never evicts self.{first_cache}[{key_param}], "
                              f"which get_raw_item_by_id consults first: a read after re-save returns the old content",
                              path=cfg.describe_path(p))

    # memo inside the active bundle: <item>.data_model is built lazily from <item>.flattened_item by the reader
    memo_pairs = []   # (memo attr, source attr)
    for n in walk_no_nested(reader.node):
        if isinstance(n, ast.Assign) and len(n.targets) == 1 and isinstance(n.targets[0], ast.Attribute) \
                and isinstance(n.targets[0].value, ast.Name) and isinstance(n.value, ast.Call):
            base = n.targets[0].value.id
            for x in ast.walk(n.value):
                if isinstance(x, ast.Attribute) and isinstance(x.value, ast.Name) and x.value.id == base and x.attr != n.targets[0].attr:
                    memo_pairs.append((n.targets[0].attr, x.attr))
    rep.analysed["memo fields of active items"] = memo_pairs
    for memo, srcattr in sorted(set(memo_pairs)):
        sites = 0
        for c in family:
            for f in c.methods.values():
                cfg = cfg_of(f.node)
                for n in cfg.g.nodes:
                    st = cfg.stmt.get(n)
                    if cfg.kind[n] == "stmt" and isinstance(st, (ast.Assign, ast.AugAssign)):
                        for t in store_targets(st):
                            if isinstance(t, ast.Attribute) and t.attr == srcattr and isinstance(t.value, ast.Name) and t.value.id != "self":
                                sites += 1
                                base = t.value.id
                                resets = {k for k in cfg.g.nodes if cfg.kind[k] == "stmt" and isinstance(cfg.stmt[k], ast.Assign)
                                          and any(isinstance(t2, ast.Attribute) and t2.attr == memo and isinstance(t2.value, ast.Name)
                                                  and t2.value.id == base for t2 in cfg.stmt[k].targets)
                                          and isinstance(cfg.stmt[k].value, ast.Constant) and cfg.stmt[k].value.value is None}
                                key = f"{FILE}::{f.qualname}::{base}.{srcattr} replaced => {base}.{memo} reset"
                                pth = cfg.path_avoiding(n, cfg.EXIT, resets)
                                before = any(cfg.dominates(r, n) for r in resets)
                                if pth is None or before:
                                    rep.holds("C15.R1", key, FILE, st.lineno, f"the memo {memo} is reset on every path")
                                else:
                                    rep.violation("C15.R1", key, FILE, st.lineno,
                                                  f"{f.qualname} replaces `{base}.{srcattr}` of an item in the active bundle but keeps its "
                                                  f"`{base}.{memo}`, the copy get_raw_item_by_id memoised from the old rows and serves first: "
                                                  f"save(A); get; save(B); get returns A", path=cfg.describe_path(pth))
        # constructing a fresh item always starts with an empty memo
        for c in family:
            for f in c.methods.values():
                for n in walk_no_nested(f.node):
                    if isinstance(n, ast.Call) and call_name(n) == "ActiveItem":
                        mv = kwarg(n, memo)
                        key = f"{FILE}::{f.qualname}::ActiveItem(... {memo}=None)"
                        if mv is None or (isinstance(mv, ast.Constant) and mv.value is None):
                            rep.holds("C15.R1", key, FILE, n.lineno, "fresh active item starts without a memoised table")
                        else:
                            rep.violation("C15.R1", key, FILE, n.lineno, f"a new active item is created with a pre-filled memo `{norm(mv)}`")

    # ------------------------------------------------------------------ R2
    for c in family:
        f = c.methods.get("export")
        if f is None:
            continue
        cfg = cfg_of(f.node)
        clear_nodes, write_nodes, repoint_nodes, newid_nodes = [], [], [], []
        for n in cfg.g.nodes:
            st = cfg.stmt.get(n)
            if cfg.kind[n] == "stmt" and isinstance(st, ast.Assign):
                for t in st.targets:
                    if is_self_attr(t, active_attr):
                        clear_nodes.append(n)
                    if isinstance(t, ast.Subscript) and is_self_attr(t.value, index_attr):
                        repoint_nodes.append(n)
            for cl in cfg.calls_at(n):
                if isinstance(cl.func, ast.Attribute) and cl.func.attr == "save" and not is_self_attr(cl.func.value):
                    write_nodes.append(n)
                if isinstance(cl.func, ast.Attribute) and is_self_attr(cl.func) and cl.func.attr == "new_bundle_id":
                    newid_nodes.append(n)
        key = f"{FILE}::{f.qualname}::write -> re-point -> clear"
        if not clear_nodes and write_nodes:
            rep.violation("C15.R2", key, FILE, f.node.lineno,
                          f"{f.qualname} writes the active bundle to a file but never empties `self.{active_attr}`: the items stay active, so the next "
                          f"export writes them AGAIN into the next bundle file -- after a spill (more than MAX_ROWS rows) every unit of the first bundle is "
                          f"duplicated in the second, with the same ids")
            continue
        if not clear_nodes:
            rep.unknown("C15.R2", key, FILE, f.node.lineno, "export does not clear the active bundle in a recognised way")
            continue
        problems = []
        for cn in clear_nodes:
            if not any(cfg.dominates(w, cn) for w in write_nodes):
                problems.append("the active bundle is cleared on a path that has not written it to a file")
            if not any(cfg.dominates(nn, cn) for nn in newid_nodes):
                problems.append("the bundle counter is not advanced before the active bundle is cleared")
            # the re-pointing store sits in a loop; its loop header must dominate the clear
            ok = False
            for rn in repoint_nodes:
                for d in cfg.dominators_of(rn):
                    if cfg.kind[d] == "iter" and cfg.dominates(d, cn) and is_self_attr(_iter_root(cfg.stmt[d].iter), index_attr):
                        ok = True
                # the stored value must be the new id and guarded by == -1
                if ok:
                    st = cfg.stmt[rn]
                    brs = cfg.controlling_branches(rn)
                    guarded = any((truth and _is_minus_one_test(atom)) or (not truth and _is_minus_one_test(atom, ne=True))
                                  for atom, truth in cfg.conditions_at(rn))
                    if not guarded:
                        problems.append("index entries are re-pointed without the `== -1` (active) guard")
            if not ok:
                problems.append("index entries of the active items (-1) are not re-pointed to the new bundle before the active bundle is cleared")
            if any(cfg.dominates(cn, w) for w in write_nodes):
                problems.append("the active bundle is cleared before it is written")
        # same id for file name and index
        if not problems:
            rep.holds("C15.R2", key, FILE, f.node.lineno, "write, re-point loop over the index with == -1 guard, counter advance all dominate the clear")
        else:
            rep.violation("C15.R2", key, FILE, f.node.lineno, f"{f.qualname}: " + "; ".join(sorted(set(problems))))

    # the bundle counter must stay above every bundle id in the index (new_bundle_id() returns it as the next file suffix)
    for c in family:
        f = c.methods.get("restore_indexing")
        if f is None:
            continue
        cfg = cfg_of(f.node)
        stores = [n for n in cfg.g.nodes if cfg.kind[n] == "stmt" and isinstance(cfg.stmt[n], ast.Assign)
                  and any(isinstance(t, ast.Subscript) and is_self_attr(t.value, index_attr) for t in cfg.stmt[n].targets)]
        cnt_assigns = [n for n in cfg.g.nodes if cfg.kind[n] == "stmt" and isinstance(cfg.stmt[n], ast.Assign)
                       and any(is_self_attr(t, "bundle_count") for t in cfg.stmt[n].targets)]

        def is_max_plus_one(st) -> bool:
            v = st.value
            return isinstance(v, ast.Call) and call_name(v) == "max" and any(is_self_attr(a, "bundle_count") for a in v.args) \
                and any(isinstance(a, ast.BinOp) and isinstance(a.op, ast.Add) and is_const(a.right, 1) for a in v.args)

        def is_global_max(st) -> bool:
            v = st.value
            return any(isinstance(x, ast.Call) and call_name(x) == "max" for x in ast.walk(v)) and \
                any(isinstance(x, ast.BinOp) and isinstance(x.op, ast.Add) and is_const(x.right, 1) for x in ast.walk(v))

        key = f"{FILE}::{f.qualname}::bundle counter restored above every indexed bundle id"
        bad_forms = [n for n in cnt_assigns if not (is_max_plus_one(cfg.stmt[n]) or is_global_max(cfg.stmt[n]))]
        good = {n for n in cnt_assigns if n not in bad_forms}
        probs = []
        if bad_forms:
            probs.append(f"`{norm(cfg.stmt[bad_forms[0]])}` is not of the form max(<counter>, <bundle id> + 1)")
        for sn in stores:
            pth = cfg.path_avoiding(sn, cfg.EXIT, good)
            if pth is not None:
                probs.append("an index entry is restored on a path that never raises the counter above its bundle id")
                break
        if not stores:
            rep.unknown("C15.R2", key, FILE, f.node.lineno, "no index store recognised")
        elif probs:
            rep.violation("C15.R2", key, FILE, f.node.lineno,
                          f"{f.qualname}: " + "; ".join(probs) + ": after a restore the next export re-uses the id of an existing "
                          "bundle file and overwrites the items stored there")
        else:
            rep.holds("C15.R2", key, FILE, f.node.lineno, f"{len(stores)} index store(s), each followed by bundle_count = max(bundle_count, id + 1)")
    # "index entry == -1" <=> "item is in the active bundle" is what export (re-points every -1 entry to the bundle it has just written)
    # and remove_unit_id (deletes from the active bundle on -1) rely on.  A save establishes it with two stores; a call of a method
    # that reads either table must see both stores done or neither.
    def touches_tables(fn: Func, seen=None) -> bool:
        seen = seen if seen is not None else set()
        if fn.name in seen:
            return False
        seen.add(fn.name)
        for x in walk_no_nested(fn.node):
            if is_self_attr(x, active_attr) or is_self_attr(x, index_attr):
                return True
            if isinstance(x, ast.Call) and is_self_attr(x.func) and fn.cls is not None:
                callee = model.find_method(fn.cls, x.func.attr)
                if callee is not None and touches_tables(callee, seen):
                    return True
        return False
    for c in family:
        f = c.methods.get("save")
        if f is None:
            continue
        cfg = cfg_of(f.node)
        sa_ = [n for n in cfg.g.nodes if cfg.kind[n] == "stmt" and isinstance(cfg.stmt[n], ast.Assign)
               and any(isinstance(t, ast.Subscript) and is_self_attr(t.value, active_attr) for t in cfg.stmt[n].targets)]
        si_ = [n for n in cfg.g.nodes if cfg.kind[n] == "stmt" and isinstance(cfg.stmt[n], ast.Assign)
               and any(isinstance(t, ast.Subscript) and is_self_attr(t.value, index_attr) for t in cfg.stmt[n].targets)]
        if not sa_ or not si_:
            continue
        key = f"{FILE}::{f.qualname}::index entry and active bundle entry are stored together"
        bad = None
        for n in cfg.g.nodes:
            for cl in cfg.calls_at(n):
                if not (is_self_attr(cl.func) and n not in sa_ and n not in si_):
                    continue
                callee = model.find_method(c, cl.func.attr)
                if callee is None or not touches_tables(callee):
                    continue
                after_a = any(n in cfg.reachable(a) for a in sa_)
                after_i = any(n in cfg.reachable(i) for i in si_)
                dom_a = any(cfg.dominates(a, n) for a in sa_)
                dom_i = any(cfg.dominates(i, n) for i in si_)
                if (after_a or after_i) and not (dom_a and dom_i):
                    bad = (n, cl, callee, "the index entry" if after_i and not dom_a else "the active-bundle entry")
        if bad:
            n, cl, callee, which = bad
            rep.violation("C15.R2", key, FILE, cl.lineno,
                          f"{f.qualname} calls `{norm(cl)}` after storing {which} of the item but before the other store; {callee.qualname} reads "
                          f"self.{index_attr} / self.{active_attr}: an export at that point re-points the item's -1 entry to a bundle file that "
                          f"does not contain it (or writes a bundle the index does not know), so the item just saved cannot be read back")
        else:
            rep.holds("C15.R2", key, FILE, f.node.lineno, "every call that reads the tables is dominated by both stores (or precedes both)")
    # index keys survive the round trip: a loader whose export_indexing turns an object key into a sequence (`key.to_tuple()`) gets that
    # column back from feather as numpy arrays -- restore_indexing has to recognise that container (and lists) to rebuild the key object,
    # otherwise the restored index holds tuples that no lookup by the original key ever equals
    for c in family:
        ex, rs = c.methods.get("export_indexing"), c.methods.get("restore_indexing")
        if ex is None or rs is None or not any(isinstance(x, ast.Call) and isinstance(x.func, ast.Attribute) and x.func.attr == "to_tuple" for x in walk_no_nested(ex.node)):
            continue
        key = f"{FILE}::{rs.qualname}::sequence keys written by export_indexing are rebuilt from what feather returns"
        tested = set()
        for x in walk_no_nested(rs.node):
            if isinstance(x, ast.Call) and call_name(x) == "isinstance" and len(x.args) == 2:
                for t in ast.walk(x.args[1]):
                    if isinstance(t, ast.Name):
                        tested.add(t.id)
                    elif isinstance(t, ast.Attribute):
                        tested.add(t.attr)
        rebuilds = any(isinstance(x, ast.Call) and (call_name(x) or "")[:1].isupper() and len(x.args) >= 3 for x in walk_no_nested(rs.node))
        if "ndarray" in tested and rebuilds:
            rep.holds("C15.R3", key, FILE, rs.node.lineno, f"container types recognised: {sorted(tested & {'list', 'tuple', 'ndarray'})}; the key object is rebuilt")
        else:
            rep.violation("C15.R3", key, FILE, rs.node.lineno,
                          f"{ex.qualname} writes object keys as sequences (to_tuple), and a list column comes back from feather as numpy.ndarray; "
                          f"{rs.qualname} recognises only {sorted(tested & {'list', 'tuple', 'ndarray'}) or 'no container type'}: the array falls through to the "
                          f"unhashable-key fallback and is stored as a plain tuple, so a fresh loader never finds an item under the key it was saved with")
    nb = gl.methods.get("new_bundle_id")
    key = f"{FILE}::GeneralLoader.new_bundle_id::returns the counter and advances it"
    if nb is not None:
        rets = [n for n in walk_no_nested(nb.node) if isinstance(n, ast.Return)]
        inc = any(isinstance(n, ast.AugAssign) and is_self_attr(n.target, "bundle_count") and isinstance(n.op, ast.Add) for n in walk_no_nested(nb.node))
        (rep.holds if inc and rets else rep.violation)("C15.R2", key, FILE, nb.node.lineno,
                                                     "post-incremented counter" if inc and rets else "new_bundle_id no longer advances the bundle counter: every export overwrites bundle0")

    # ------------------------------------------------------------------ loader table
    init = ld.methods.get("__init__")
    if init is None:
        raise AnalysisError("Loader.__init__ vanished")
    owned: List[Tuple[str, ClassInfo, ast.Call]] = []
    for n in walk_no_nested(init.node):
        tgt = val = None
        if isinstance(n, ast.Assign) and len(n.targets) == 1:
            tgt, val = n.targets[0], n.value
        elif isinstance(n, ast.AnnAssign):
            tgt, val = n.target, n.value
        if tgt is not None and is_self_attr(tgt) and isinstance(val, ast.Call):
            c = model.resolve_class_name(call_name(val) or "", m)
            if c is not None and c.module is m:
                owned.append((tgt.attr, c, val))
    rep.analysed["objects owned by Loader"] = len(owned)

    # ------------------------------------------------------------------ R4
    il = ld.methods.get("init_loading")
    if il is None:
        raise AnalysisError("Loader.init_loading vanished")
    prefixes, suffixes = [], []
    for n in walk_no_nested(il.node):
        if isinstance(n, ast.Call) and isinstance(n.func, ast.Attribute) and n.args and const_str(n.args[0]) is not None:
            if n.func.attr == "startswith":
                prefixes.append(const_str(n.args[0]))
            elif n.func.attr == "endswith":
                suffixes.append(const_str(n.args[0]))
    if not prefixes and not suffixes:
        rep.unknown("C15.R4", f"{FILE}::Loader.init_loading::naming filter", FILE, il.node.lineno, "collection filter not recognised")
    else:
        for attr, c, call in owned:
            has_export = model.find_method(c, "export") is not None
            if not has_export:
                continue
            key = f"{FILE}::Loader.__init__::self.{attr} = {c.name}(...)"
            ok = all(attr.startswith(p) for p in prefixes) and all(attr.endswith(s) for s in suffixes)
            if ok:
                rep.holds("C15.R4", key, FILE, call.lineno, f"self.{attr} matches the driver's filter {prefixes}…{suffixes}")
            else:
                rep.violation("C15.R4", key, FILE, call.lineno,
                              f"Loader.{attr} holds a {c.name} (has export/restore) but its name does not match the filter "
                              f"startswith{prefixes}/endswith{suffixes} of init_loading: what is saved through it is never "
                              f"exported nor restored")
        seen_cls = set()
        for attr, c, call in owned:
            if c.name in seen_cls or model.find_method(c, "export") is None:
                continue
            seen_cls.add(c.name)
            key = f"{FILE}::{c.name}::export has a restoring sibling"
            if model.find_method(c, "restore") or model.find_method(c, "restore_indexing"):
                rep.holds("C15.R4", key, FILE, c.node.lineno, "class defines restore()/restore_indexing()")
            else:
                # composite loaders delegate to parts that are themselves owned
                rep.info("C15.R4", key, FILE, c.node.lineno, f"{c.name} has export() but no restore(): composite or write-only")

    # ------------------------------------------------------------------ R3 (bundle loaders)
    def resolve(c: ClassInfo, name: str) -> Optional[Func]:
        return model.find_method(c, name)

    inst_by_class: Dict[str, List[Tuple[str, ast.Call]]] = {}
    for attr, c, call in owned:
        inst_by_class.setdefault(c.name, []).append((attr, call))
    for c in family:
        if c is gl:
            continue
        fl = resolve(c, "flatten_item_when_saving")
        un = resolve(c, "unflatten_item_dataframe_when_loading")
        qu = resolve(c, "query_flattened_item_when_loading")
        if fl is None or fl.cls is gl:
            continue  # abstract intermediate (no writer of its own)
        W = returned_row_shape(model, fl)
        Q = query_columns(qu) if qu else set()
        U, _ = row_reads(un) if un and un.cls is not gl else (set(), False)
        schemas = []
        for attr, call in inst_by_class.get(c.name, []):
            if len(call.args) >= 2:
                schemas.append((attr, schema_value(model, call.args[1], init)))
        key_base = f"{FILE}::{c.name}"
        # (a) queried columns
        for q in sorted(Q):
            key = f"{key_base}::query column `{q}`"
            # the hash_id/method_id alternatives of MethodLevelAnalysisResultLoader: at least one must be written
            if W.seen_dict and not W.unknown:
                pass
            if q in W.keys:
                rep.holds("C15.R3", key, FILE, qu.node.lineno, f"{qu.qualname} queries `{q}`, written by {fl.qualname}")
            elif W.arity is not None and not W.seen_dict:
                sc = [s for _, s in schemas if s]
                if sc and all(q in s for s in sc) and all(len(s) == W.arity for s in sc):
                    rep.holds("C15.R3", key, FILE, qu.node.lineno, f"positional rows of arity {W.arity} named by schema containing `{q}`")
                elif sc and any(len(s) != W.arity for s in sc):
                    rep.violation("C15.R3", key, FILE, fl.node.lineno,
                                  f"{fl.qualname} writes rows of {W.arity} values but the schema given in Loader.__init__ has "
                                  f"{[len(s) for s in sc]} columns")
                elif sc:
                    rep.violation("C15.R3", key, FILE, qu.node.lineno, f"{qu.qualname} queries column `{q}` that the schema does not contain")
                else:
                    rep.unknown("C15.R3", key, FILE, qu.node.lineno, "positional rows without schema")
            elif W.unknown:
                if qu.cls is not gl and _alt_query(qu, q, W):
                    rep.holds("C15.R3", key, FILE, qu.node.lineno, "alternative key column of a multi-key query; another alternative is written")
                else:
                    rep.unknown("C15.R3", key, FILE, qu.node.lineno, f"writer shape not fully resolved ({W})")
            else:
                if _alt_query(qu, q, W):
                    rep.holds("C15.R3", key, FILE, qu.node.lineno, "alternative key column of a multi-key query; another alternative is written")
                else:
                    rep.violation("C15.R3", key, FILE, qu.node.lineno,
                                  f"{c.name}: {qu.qualname} looks items up by column `{q}`, but {fl.qualname} writes only "
                                  f"{sorted(W.keys)}: once the bundle has been exported a read of any item fails "
                                  f"(DataModel.query_index_column_value_indices quits on an unknown column)")
        # (b) columns read back
        for u in sorted(U):
            key = f"{key_base}::reads back `{u}`"
            if u in W.keys:
                ok_schema = all((not s) or u in s for _, s in schemas if s is not None)
                if ok_schema:
                    rep.holds("C15.R3", key, FILE, un.node.lineno, f"`{u}` is written by {fl.qualname}")
                else:
                    rep.violation("C15.R3", key, FILE, un.node.lineno,
                                  f"{un.qualname} reads `{u}`, which {fl.qualname} writes but the schema passed in Loader.__init__ drops")
            elif W.arity is not None and not W.seen_dict:
                sc = [s for _, s in schemas if s]
                if sc and all(u in s for s in sc):
                    rep.holds("C15.R3", key, FILE, un.node.lineno, f"positional row; schema names `{u}`")
                elif sc:
                    rep.violation("C15.R3", key, FILE, un.node.lineno, f"{un.qualname} reads `{u}` which the schema does not name")
                else:
                    rep.unknown("C15.R3", key, FILE, un.node.lineno, "positional rows without schema")
            elif W.unknown:
                rep.unknown("C15.R3", key, FILE, un.node.lineno, f"writer shape not fully resolved")
            else:
                rep.violation("C15.R3", key, FILE, un.node.lineno,
                              f"{un.qualname} reads column `{u}` but {fl.qualname} never writes it (writes {sorted(W.keys)}): "
                              f"the restored item silently gets None for it")
    # ------------------------------------------------------------------ R3 (dict-backed loaders: export vs restore)
    for c in m.classes.values():
        if c in family or c is ld:
            continue
        ex, rs = c.methods.get("export"), c.methods.get("restore")
        if ex is None or rs is None:
            continue
        reads_by_path = _restore_reads_by_path(rs)
        writes = []  # (path text, DataModel call, save call line)
        for n in walk_no_nested(ex.node):
            if isinstance(n, ast.Call) and isinstance(n.func, ast.Attribute) and n.func.attr == "save" and n.args \
                    and isinstance(n.func.value, ast.Call) and call_name(n.func.value) == "DataModel" and n.func.value.args:
                writes.append((norm(n.args[0]), n.func.value, n.lineno))
        writes.sort(key=lambda w: w[2])
        prev_line = ex.node.lineno
        for path_txt, dmcall, line in writes:
            cols = kwarg(dmcall, "columns")
            sch = None
            if cols is not None and not is_self_attr(cols):
                sch = schema_value(model, cols, ex)
            W = _rows_of(model, ex, dmcall.args[0], 0, window=(prev_line, line))
            prev_line = line
            U = reads_by_path.get(path_txt)
            if U is None:
                rep.info("C15.R3", f"{FILE}::{c.name}::table {path_txt}", FILE, line, "written by export, not read by restore")
                continue
            for u in sorted(U):
                key = f"{FILE}::{c.name}::restore reads `{u}` from {path_txt}"
                if sch:
                    if u in sch:
                        rep.holds("C15.R3", key, FILE, rs.node.lineno, f"`{u}` is a column of the schema export writes with")
                    else:
                        rep.violation("C15.R3", key, FILE, rs.node.lineno,
                                      f"{c.name}.restore reads column `{u}` but export writes columns {sch}")
                elif W.seen_dict and not W.unknown:
                    if u in W.keys:
                        rep.holds("C15.R3", key, FILE, rs.node.lineno, f"`{u}` is a key of the rows export writes")
                    else:
                        rep.violation("C15.R3", key, FILE, rs.node.lineno,
                                      f"{c.name}.restore reads column `{u}` but export writes rows with keys {sorted(W.keys)}: "
                                      f"the restored object silently gets None for it")
                else:
                    rep.unknown("C15.R3", key, FILE, rs.node.lineno, "export row shape not resolved")
            if sch and W.arity is not None and not W.seen_dict:
                key = f"{FILE}::{c.name}::export row arity for {path_txt}"
                if W.arity == len(sch):
                    rep.holds("C15.R3", key, FILE, ex.node.lineno, f"rows of {W.arity} values for {len(sch)} schema columns")
                else:
                    rep.violation("C15.R3", key, FILE, ex.node.lineno,
                                  f"{c.name}.export writes rows of {W.arity} values under a schema of {len(sch)} columns {sch}")

    # ------------------------------------------------------------------ R5
    dm = model.module("util/data_model.py").classes.get("DataModel")
    targets: List[Func] = []
    if dm and "save" in dm.methods:
        targets.append(dm.methods["save"])
    targets.append(ld.methods["export"]) if "export" in ld.methods else None
    for c in m.classes.values():
        for nm in ("export", "export_indexing"):
            if nm in c.methods and c is not ld:
                targets.append(c.methods[nm])
    n_handlers = 0
    for f in targets:
        for n in walk_no_nested(f.node):
            if isinstance(n, ast.Try):
                for h in n.handlers:
                    n_handlers += 1
                    reports = False
                    for x in ast.walk(h):
                        if isinstance(x, ast.Raise):
                            reports = True
                        if isinstance(x, ast.Call):
                            cn = call_name(x) or ""
                            # util.debug prints only when the debug flag is set: not a report
                            if cn in ("print", "util.error", "util.warn", "util.error_and_quit", "logging.error",
                                      "traceback.print_exc", "sys.exit") or cn.endswith(".error") or cn.endswith(".warn") \
                                    or cn.endswith(".exception"):
                                reports = True
                    key = f"{f.module.rel}::{f.qualname}::except {norm(h.type) if h.type else ''}"
                    if reports:
                        rep.holds("C15.R5", key, f.module.rel, h.lineno, "handler re-raises or reports the failure")
                    else:
                        rep.violation("C15.R5", key, f.module.rel, h.lineno,
                                      f"{f.qualname} catches an exception on the export path and neither re-raises nor reports it: "
                                      f"a failed write is silently dropped")
    rep.analysed["export-path functions scanned for handlers"] = len(targets)
    rep.analysed["exception handlers on export path"] = n_handlers


def _restore_reads_by_path(rs: Func) -> Dict[str, Set[str]]:
    """path expression text -> attributes read off rows of the table loaded from that path (statement order aware)."""
    out: Dict[str, Set[str]] = {}
    binding: Dict[str, str] = {}
    attr_binding: Dict[str, str] = {}

    def visit(stmts):
        for st in stmts:
            if isinstance(st, ast.Assign) and len(st.targets) == 1 and isinstance(st.value, ast.Call) \
                    and isinstance(st.value.func, ast.Attribute) and st.value.func.attr == "load" and st.value.args:
                t = st.targets[0]
                if isinstance(t, ast.Name):
                    binding[t.id] = norm(st.value.args[0])
                elif is_self_attr(t):
                    attr_binding[t.attr] = norm(st.value.args[0])
            elif isinstance(st, ast.For):
                path = None
                if isinstance(st.iter, ast.Name):
                    path = binding.get(st.iter.id)
                elif is_self_attr(st.iter):
                    path = attr_binding.get(st.iter.attr)
                if path is not None and isinstance(st.target, ast.Name):
                    rv = st.target.id
                    for b in st.body:
                        for n in ast.walk(b):
                            if isinstance(n, ast.Attribute) and isinstance(n.value, ast.Name) and n.value.id == rv \
                                    and isinstance(n.ctx, ast.Load) and n.attr not in ROW_METHODS:
                                out.setdefault(path, set()).add(n.attr)
                    out.setdefault(path, set())
                visit(st.body)
            elif isinstance(st, (ast.If, ast.With, ast.Try)):
                for fld in ("body", "orelse", "finalbody"):
                    visit(getattr(st, fld, []) or [])
                for h in getattr(st, "handlers", []) or []:
                    visit(h.body)

    visit(rs.node.body)
    return out


def _iter_root(it):
    cur = it
    while isinstance(cur, ast.Call):
        cur = cur.func
        if isinstance(cur, ast.Attribute) and cur.attr in ("items", "keys", "values", "copy"):
            cur = cur.value
        elif isinstance(cur, ast.Name) and cur.id in ("list", "sorted", "tuple") :
            return None
    return cur


def _is_minus_one_test(t, ne: bool = False) -> bool:
    """`x == -1` (or, with ne=True, `x != -1`), operands in either order"""
    if isinstance(t, ast.Compare) and len(t.ops) == 1 and isinstance(t.ops[0], ast.NotEq if ne else ast.Eq):
        for side in (t.left, t.comparators[0]):
            if isinstance(side, ast.UnaryOp) and isinstance(side.op, ast.USub) and is_const(side.operand, 1):
                return True
            if is_const(side, -1):
                return True
    return False


def _alt_query(qu: Func, q: str, W: Shape) -> bool:
    """The query function chooses between several key columns by the key's type (if/elif/else);
    a column is acceptable if a sibling alternative is a written column."""
    cols = query_columns(qu)
    return len(cols) > 1 and any(c != q and c in W.keys for c in cols) and any(isinstance(n, ast.If) for n in walk_no_nested(qu.node))


# ---------------------------------------------------------------- self-test mutants
def _mut_save_no_evict(src):
    from ..mutate import delete_stmt_where
    return delete_stmt_where(src, "GeneralLoader", "save",
                             lambda st: isinstance(st, ast.Expr) and isinstance(st.value, ast.Call)
                             and isinstance(st.value.func, ast.Attribute) and is_self_attr(st.value.func.value, "item_cache"))


def _mut_export_no_repoint(cls):
    def mut(src):
        from ..mutate import replace_stmt_where
        return replace_stmt_where(src, cls, "export", lambda st: isinstance(st, ast.For), "pass")
    return mut


def _mut_export_clear_first(src):
    from ..mutate import insert_before_stmt_where
    return insert_before_stmt_where(src, "GeneralLoader", "export",
                                    lambda st: isinstance(st, ast.Assign) and isinstance(st.value, ast.Call)
                                    and call_name(st.value) == "self.new_bundle_id",
                                    "self.active_bundle = {}")


def _mut_export_no_write(src):
    from ..mutate import delete_stmt_where
    return delete_stmt_where(src, "UnitGIRLoader", "export",
                             lambda st: isinstance(st, ast.Expr) and isinstance(st.value, ast.Call)
                             and isinstance(st.value.func, ast.Attribute) and st.value.func.attr == "save")


def _mut_rename_written_key(cls, old, new):
    def mut(src):
        from ..mutate import replace_expr_where
        return replace_expr_where(src, cls, "flatten_item_when_saving",
                                  lambda e: isinstance(e, ast.Constant) and e.value == old, repr(new))
    return mut


def _mut_rename_read_attr(cls, func, old, new):
    def mut(src):
        from ..mutate import replace_expr_where
        return replace_expr_where(src, cls, func,
                                  lambda e: isinstance(e, ast.Attribute) and e.attr == old and isinstance(e.value, ast.Name)
                                  and e.value.id == "row", lambda n: f"row.{new}")
    return mut


def _mut_swallow(src):
    from ..mutate import replace_stmt_where
    return replace_stmt_where(src, "DataModel", "save",
                              lambda st: isinstance(st, ast.Expr) and isinstance(st.value, ast.Call) and call_name(st.value) == "print",
                              "pass")


def _mut_rename_loader_attr(src):
    from ..mutate import text_replace
    return text_replace(src, "self._cfg_loader", "self._cfg_store", count=10**6)


def _mut_reuse_active_item(src):
    from ..mutate import replace_stmt_where
    return replace_stmt_where(src, "GeneralLoader", "save",
                              lambda st: isinstance(st, ast.Assign) and isinstance(st.value, ast.Call) and call_name(st.value) == "ActiveItem",
                              "active_item = self.active_bundle.get(_id, None)\nif active_item is None:\n    self.active_bundle[_id] = ActiveItem(flattened_item = flattened_item, data_model = None)\nelse:\n    active_item.flattened_item = flattened_item")


def _mut_count_bundles(src):
    from ..mutate import replace_stmt_where
    return replace_stmt_where(src, "GeneralLoader", "restore_indexing",
                              lambda st: isinstance(st, ast.Assign) and any(is_self_attr(t, "bundle_count") for t in st.targets),
                              "self.bundle_count = len(set(self.item_id_to_bundle_id.values()) - {-1})", nth=0)


MUTANTS = [
    ("unit-key-stamp-conditional", FILE,
     lambda src: __import__("sa.mutate", fromlist=["x"]).text_replace(src, '            if not hasattr(to_dict_result, "unit_id"):\n                to_dict_result["unit_id"] = unit_id', '            if "unit_id" not in to_dict_result:\n                to_dict_result["unit_id"] = unit_id'),
     "column `unit_id` stamped with the save key"),
    ("save-reuses-active-item", FILE, _mut_reuse_active_item, "flattened_item replaced"),
    ("restore-counts-bundles", FILE, _mut_count_bundles, "bundle counter restored"),
    ("save-no-evict", FILE, _mut_save_no_evict, "GeneralLoader.save"),
    ("export-no-repoint", FILE, _mut_export_no_repoint("GeneralLoader"), "GeneralLoader.export"),
    ("gir-export-no-repoint", FILE, _mut_export_no_repoint("UnitGIRLoader"), "UnitGIRLoader.export"),
    ("export-clear-first", FILE, _mut_export_clear_first, "GeneralLoader.export"),
    ("gir-export-no-write", FILE, _mut_export_no_write, "UnitGIRLoader.export"),
    ("scope-ids-key-renamed", FILE, _mut_rename_written_key("SymbolNameToScopeIDsLoader", "scope_ids", "scopes"), "SymbolNameToScopeIDsLoader"),
    ("decl-ids-unit-key-renamed", FILE, _mut_rename_written_key("SymbolNameToDeclIDsLoader", "unit_id", "unit"), "SymbolNameToDeclIDsLoader"),
    ("cfg-read-renamed", FILE, _mut_rename_read_attr("CFGLoader", "unflatten_item_dataframe_when_loading", "dst_stmt_id", "dst_id"), "CFGLoader"),
    ("stmt-scope-restore-renamed", FILE, _mut_rename_read_attr("StmtIDToScopeIDLoader", "restore", "scope_id", "scope"), "StmtIDToScopeIDLoader"),
    ("datamodel-save-swallows", "util/data_model.py", _mut_swallow, "DataModel.save"),
    ("loader-attr-renamed", FILE, _mut_rename_loader_attr, "self._cfg_store"),
]
