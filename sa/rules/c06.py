"""C06 -- reaching definitions are sound and flow-sensitive (DESIGN section 3, C06).

The dataflow solution is a fixed point over run-time CFGs: not static.  Decided on
core/prelim_semantics.py + basics/control_flow.py: the shape of the transfer function, the merge, the
back-edge protocol between CFG builder and consumer, and the visit bookkeeping.
"""
from __future__ import annotations

import ast
from typing import Dict, List, Optional, Set, Tuple

from ..astutil import is_const
from ..cfg import cfg_of
from ..model import AnalysisError, Func, RepoModel, call_name, const_str, dotted, is_self_attr, literal, norm, walk_no_nested

PS = "core/prelim_semantics.py"
CF = "basics/control_flow.py"


def _assign_chain(f: Func, var: str) -> List[ast.Assign]:
    out = [n for n in walk_no_nested(f.node) if isinstance(n, ast.Assign) and any(isinstance(t, ast.Name) and t.id == var for t in n.targets)]
    out.sort(key=lambda n: n.lineno)
    return out


def _returned_names(f: Func) -> Set[str]:
    return {x.id for n in walk_no_nested(f.node) if isinstance(n, ast.Return) and n.value is not None for x in ast.walk(n.value) if isinstance(x, ast.Name)}


def _resolve_acc(f: Func, acc: str) -> str:
    if acc == "@returned":
        # the accumulator the function hands back: the name returned by its last return statement
        rets = [n for n in walk_no_nested(f.node) if isinstance(n, ast.Return) and isinstance(n.value, ast.Name)]
        return rets[-1].value.id if rets else "in_state_bits"
    if acc.startswith("@status."):
        return _status_var(f) + "." + acc.split(".", 1)[1]
    return acc


def _status_var(f: Func) -> str:
    """the local (or parameter) holding the statement's status record"""
    for n in walk_no_nested(f.node):
        if isinstance(n, ast.Assign) and isinstance(n.targets[0], ast.Name) and isinstance(n.value, ast.Subscript) \
                and isinstance(n.value.value, ast.Attribute) and n.value.value.attr == "stmt_id_to_status":
            return n.targets[0].id
    return "status"


def _is_attr(e, base: str, attr: str) -> bool:
    return isinstance(e, ast.Attribute) and e.attr == attr and isinstance(e.value, ast.Name) and e.value.id == base


def _acc_matches(target, acc: str) -> bool:
    """acc is either a local name or '<status>.attr'"""
    if "." in acc:
        b, a = acc.split(".", 1)
        return _is_attr(target, b, a)
    return isinstance(target, ast.Name) and target.id == acc


def run(model: RepoModel, rep, tier: str):
    rep.not_decided = ("exactness of the solution on loop-free code, soundness under the bounded-round schedule, correctness of the "
                       "CFG the solution is computed over (see C04)")
    ps = model.module(PS)
    p2 = next((c for c in ps.classes.values() if "update_current_symbol_bit" in c.methods), None)
    if p2 is None:
        raise AnalysisError("update_current_symbol_bit vanished")
    rep.rule("C06.R1", "transfer function: out = gen U (in - kill) with kill = the other definitions of the same symbol/state id, applied "
                       "to a copy of the in-set, kill before gen, and the result is what becomes the out-set", 6)
    rep.rule("C06.R2", "merge: the in-set starts empty and is the union (|=) of the retained predecessors' out-sets", 4)
    rep.rule("C06.R3", "back-edge protocol: every edge kind the CFG builder can put on an edge from inside a loop body to its header is "
                       "treated as a back edge by the consumer", 2)
    rep.rule("C06.R4", "visit bookkeeping: every completed visit advances the per-statement counter and clears the first-round flag; "
                       "symbol and state level split loop-header predecessors the same way", 3)

    # ------------------------------------------------------------------ R1
    for fname, idattr, table in (("update_current_symbol_bit", "symbol_id", "defined_symbols"),
                                 ("update_current_state_bit", "state_id", "defined_states")):
        f = p2.methods.get(fname)
        if f is None:
            raise AnalysisError(f"{fname} vanished")
        bit = f.params[1]
        bits = next((p for p in f.params if "bits" in p), None)
        key = f"{PS}::{fname}"
        # id taken from the bit being generated
        idvar = None
        for n in walk_no_nested(f.node):
            if isinstance(n, ast.Assign) and isinstance(n.targets[0], ast.Name) and dotted(n.value) == f"{bit}.{idattr}":
                idvar = n.targets[0].id
        kills = [n for n in walk_no_nested(f.node) if isinstance(n, ast.Call) and isinstance(n.func, ast.Attribute) and n.func.attr == "kill_bit_ids"]
        gens = [n for n in walk_no_nested(f.node) if isinstance(n, ast.Call) and isinstance(n.func, ast.Attribute) and n.func.attr == "gen_bit_ids"]
        probs = []
        if idvar is None:
            probs.append(f"the {idattr} is not taken from the definition being generated")
        if not kills or not gens:
            probs.append("kill_bit_ids / gen_bit_ids are not both applied")
        else:
            k, g = kills[0], gens[0]
            if k.lineno > g.lineno:
                probs.append("gen is applied before kill: the new definition kills itself")
            if not (k.args and isinstance(k.args[0], ast.Name) and k.args[0].id == bits and g.args and isinstance(g.args[0], ast.Name) and g.args[0].id == bits):
                probs.append("kill and gen are not applied to the same working set")
            # the kill set derives from frame.<table>[<idvar>]
            kv = k.args[1] if len(k.args) > 1 else None
            src_ok = False
            names = {kv.id} if isinstance(kv, ast.Name) else set()
            for _ in range(3):
                for n in walk_no_nested(f.node):
                    if isinstance(n, ast.Assign) and isinstance(n.targets[0], ast.Name) and n.targets[0].id in names:
                        if isinstance(n.value, ast.Subscript) and isinstance(n.value.value, ast.Attribute) and n.value.value.attr == table \
                                and isinstance(n.value.slice, ast.Name) and n.value.slice.id == idvar:
                            src_ok = True
                    if isinstance(n, ast.For) and isinstance(n.iter, ast.Name) and any(
                            isinstance(x, ast.Call) and isinstance(x.func, ast.Attribute) and x.func.attr == "add" and isinstance(x.func.value, ast.Name)
                            and x.func.value.id in names for x in ast.walk(n)):
                        names = names | {n.iter.id}
            if not src_ok:
                probs.append(f"the kill set does not derive from frame.{table}[{idvar}] (the definitions of the same {idattr})")
            # generated id is the function's own bit
            gv = g.args[1] if len(g.args) > 1 else None
            if not (isinstance(gv, (ast.List, ast.Tuple, ast.Set)) and len(gv.elts) == 1 and isinstance(gv.elts[0], ast.Name) and gv.elts[0].id == bit):
                probs.append("the generated id is not the definition passed in")
            # results are re-bound to the working set and returned
            rebinds = [n for n in walk_no_nested(f.node) if isinstance(n, ast.Assign) and isinstance(n.targets[0], ast.Name) and n.targets[0].id == bits
                       and n.value in (k, g)]
            if len(rebinds) < 2:
                probs.append("the results of kill/gen are not bound back to the working set")
        rets = [n for n in walk_no_nested(f.node) if isinstance(n, ast.Return)]
        if not (rets and all(isinstance(r.value, ast.Name) and r.value.id == bits for r in rets)):
            probs.append("the updated set is not what is returned")
        if probs:
            rep.violation("C06.R1", key, PS, f.node.lineno, f"{fname}: " + "; ".join(probs))
        else:
            rep.holds("C06.R1", key, PS, f.node.lineno, f"kill(frame.{table}[{idattr}]) then gen([this definition]) on `{bits}`, returned")
        # the bookkeeping that feeds the kill set: the new definition is registered under its id
        reg = any(isinstance(n, ast.Call) and ((isinstance(n.func, ast.Attribute) and n.func.attr == "add" and table in norm(n.func.value))
                                               or ((call_name(n) or "").endswith("add_to_dict_with_default_set") and table in norm(n.args[0])))
                  for n in walk_no_nested(f.node))
        k2 = f"{key}::definition registered under its {idattr}"
        (rep.holds if reg else rep.violation)("C06.R1", k2, PS, f.node.lineno,
                                              f"frame.{table}[{idattr}] receives the definition" if reg else
                                              f"{fname} no longer records the definition in frame.{table}: later definitions of the same {idattr} cannot kill it")
    ar = p2.methods.get("analyze_reachable_symbols")
    if ar is None:
        raise AnalysisError("analyze_reachable_symbols vanished")
    # working set is a copy of the in-set, threaded through the transfer function, stored as the out-set
    key = f"{PS}::analyze_reachable_symbols::working set"
    ST = _status_var(ar)
    work = next((n.targets[0].id for n in walk_no_nested(ar.node) if isinstance(n, ast.Assign) and isinstance(n.targets[0], ast.Name)
                 and isinstance(n.value, ast.Call) and isinstance(n.value.func, ast.Attribute) and n.value.func.attr == "copy"
                 and _is_attr(n.value.func.value, ST, "in_symbol_bits")), None)
    if work is None:     # fall back: whatever is stored as the out-set
        work = next((n.value.id for n in walk_no_nested(ar.node) if isinstance(n, ast.Assign) and _is_attr(n.targets[0], ST, "out_symbol_bits")
                     and isinstance(n.value, ast.Name)), "current_bits")
    chain = _assign_chain(ar, work)
    probs = []
    if not chain:
        probs.append("no working set")
    else:
        first = chain[0].value
        if not (isinstance(first, ast.Call) and isinstance(first.func, ast.Attribute) and first.func.attr == "copy" and _is_attr(first.func.value, ST, "in_symbol_bits")):
            probs.append(f"the working set is `{norm(first)}`, not a copy of status.in_symbol_bits: kill/gen mutate sets in place, so the "
                         f"statement's own kills and gens show up in its in-set (and in every set aliased with it)")
        if not any(isinstance(c.value, ast.Call) and is_self_attr(c.value.func, "update_current_symbol_bit") and any(
                isinstance(a, ast.Name) and a.id == work for a in c.value.args) for c in chain[1:]):
            probs.append("the transfer function's result is not bound back to the working set")
    outs = [n for n in walk_no_nested(ar.node) if isinstance(n, ast.Assign) and _is_attr(n.targets[0], ST, "out_symbol_bits")]
    if not (outs and all(isinstance(o.value, ast.Name) and o.value.id == work for o in outs)):
        probs.append("status.out_symbol_bits is not assigned the working set")
    (rep.violation if probs else rep.holds)("C06.R1", key, PS, ar.node.lineno,
                                            ("analyze_reachable_symbols: " + "; ".join(probs)) if probs else
                                            "current_bits = in.copy(); current_bits = transfer(...); out = current_bits")
    # every defined symbol (explicit + implicit) goes through the transfer function
    key = f"{PS}::analyze_reachable_symbols::all defined symbols generated"
    ok = any(isinstance(n, ast.Assign) and any(_is_attr(x, ST, "defined_symbol") for x in ast.walk(n.value))
             and any(_is_attr(x, ST, "implicitly_defined_symbols") for x in ast.walk(n.value)) for n in walk_no_nested(ar.node))
    (rep.holds if ok else rep.violation)("C06.R1", key, PS, ar.node.lineno,
                                         "[status.defined_symbol] + status.implicitly_defined_symbols" if ok else
                                         "not every symbol the statement defines is generated")

    # ------------------------------------------------------------------ R2
    for fname, acc, src in (("analyze_reachable_symbols", "@status.in_symbol_bits", "out_symbol_bits"),
                            ("collect_in_state_bits", "@returned", "out_state_bits")):
        f = p2.methods.get(fname)
        if f is None:
            raise AnalysisError(f"{fname} vanished")
        acc = _resolve_acc(f, acc)
        key = f"{PS}::{fname}::merge"
        inits = [n for n in walk_no_nested(f.node) if isinstance(n, ast.Assign) and _acc_matches(n.targets[0], acc)]
        unions = [n for n in walk_no_nested(f.node) if isinstance(n, ast.AugAssign) and _acc_matches(n.target, acc)]
        probs = []
        if not (inits and isinstance(inits[0].value, ast.Call) and call_name(inits[0].value) == "set" and not inits[0].value.args):
            probs.append(f"`{acc}` does not start as the empty set")
        if not unions:
            probs.append(f"`{acc}` is not accumulated over the predecessors")
        for u in unions:
            if not isinstance(u.op, ast.BitOr):
                probs.append(f"predecessors are combined with `{type(u.op).__name__}` instead of union: a definition reaching along one "
                             f"path only is dropped")
            if not norm(u.value).endswith("." + src):
                probs.append(f"the merged value is `{norm(u.value)}`, not the predecessor's {src}")
            # inside a loop over the (retained) predecessors
            lp = [l for l in walk_no_nested(f.node) if isinstance(l, ast.For) and any(x is u for x in ast.walk(l))]
            pred_vars = set()
            for _ in range(3):
                for a_ in walk_no_nested(f.node):
                    if isinstance(a_, ast.Assign) and isinstance(a_.targets[0], ast.Name):
                        if isinstance(a_.value, ast.Call) and (call_name(a_.value) or "").endswith("graph_predecessors"):
                            pred_vars.add(a_.targets[0].id)
                        elif isinstance(a_.value, ast.Name) and a_.value.id in pred_vars:
                            pred_vars.add(a_.targets[0].id)
                        elif isinstance(a_.value, ast.List) and not a_.value.elts:
                            # a filtered copy: appended with elements drawn from a predecessor list
                            for l_ in walk_no_nested(f.node):
                                if isinstance(l_, ast.For) and isinstance(l_.iter, ast.Name) and l_.iter.id in pred_vars and any(
                                        isinstance(c_, ast.Call) and isinstance(c_.func, ast.Attribute) and c_.func.attr == "append"
                                        and isinstance(c_.func.value, ast.Name) and c_.func.value.id == a_.targets[0].id for c_ in ast.walk(l_)):
                                    pred_vars.add(a_.targets[0].id)
            if not lp or not (isinstance(lp[-1].iter, ast.Name) and lp[-1].iter.id in pred_vars):
                probs.append("the union is not taken over the predecessor statements")
        (rep.violation if probs else rep.holds)("C06.R2", key, PS, f.node.lineno,
                                                (f"{fname}: " + "; ".join(probs)) if probs else f"{acc} = set(); for each predecessor: {acc} |= pred.{src}")
        check_merge_fresh(model, rep, "C06.R2", fname, acc, src)
        # predecessors come from the CFG
        k2 = f"{PS}::{fname}::predecessors from the CFG"
        ok = any(isinstance(n, ast.Call) and (call_name(n) or "").endswith("graph_predecessors") and "cfg" in norm(n) for n in walk_no_nested(f.node))
        (rep.holds if ok else rep.violation)("C06.R2", k2, PS, f.node.lineno,
                                             "util.graph_predecessors(frame.cfg, stmt_id)" if ok else "predecessors are not read from the method's CFG")

    # ------------------------------------------------------------------ R3
    cfa = model.cls(CF, "ControlFlowAnalysis")
    kinds = literal(model.module("config/constants.py").assigns["CONTROL_FLOW_KIND"].args[0])
    dl = cfa.methods.get("deal_with_last_stmts_of_loop_body")
    if dl is None:
        raise AnalysisError("deal_with_last_stmts_of_loop_body vanished")
    produced: Dict[str, str] = {}
    # (1) what deal_with_last_stmts_of_loop_body labels itself
    for n in walk_no_nested(dl.node):
        if isinstance(n, ast.Call) and call_name(n) == "CFGNode" and len(n.args) == 2:
            k = (dotted(n.args[1]) or "").split(".")[-1]
            # only those that are linked *to* the loop statement (not the LOOP_FALSE exit node that is returned)
            produced.setdefault(k, f"deal_with_last_stmts_of_loop_body line {n.lineno}")
    returned_only = set()
    for n in walk_no_nested(dl.node):
        if isinstance(n, ast.Call) and isinstance(n.func, ast.Attribute) and n.func.attr == "append" and n.args and isinstance(n.args[0], ast.Call) \
                and call_name(n.args[0]) == "CFGNode" and isinstance(n.func.value, ast.Name) and n.func.value.id in _returned_names(dl):
            returned_only.add((dotted(n.args[0].args[1]) or "").split(".")[-1])
    for k in returned_only:
        produced[k] = "deal_with_last_stmts_of_loop_body returns it as the inner loop's exit; it keeps that kind when an enclosing loop closes over it"
    # (2) CFGNodes that handlers return as part of a frontier keep their own kind when a loop closes over them
    for f in cfa.methods.values():
        if f is dl:
            continue
        for n in walk_no_nested(f.node):
            if isinstance(n, ast.Call) and call_name(n) == "CFGNode" and len(n.args) == 2:
                k = (dotted(n.args[1]) or "").split(".")[-1]
                if k in ("LOOP_TRUE", "PARAMETER_UNINIT", "PARAMETER_INIT"):
                    continue   # entry edges into a body / parameter plumbing, never the last statement of a loop body
                produced.setdefault(k, f"{f.name} line {n.lineno} (frontier node that keeps its kind when an enclosing loop closes)")
    accepted: Set[str] = set()
    for fname in ("analyze_reachable_symbols", "collect_in_state_bits"):
        f = p2.methods[fname]
        weight_vars = {a_.targets[0].id for a_ in walk_no_nested(f.node) if isinstance(a_, ast.Assign) and isinstance(a_.targets[0], ast.Name)
                       and isinstance(a_.value, ast.Call) and (call_name(a_.value) or "").endswith("get_graph_edge_weight")}
        for n in walk_no_nested(f.node):
            if isinstance(n, ast.Compare) and isinstance(n.left, ast.Name) and n.left.id in weight_vars and isinstance(n.ops[0], (ast.Eq, ast.In)):
                for c in n.comparators:
                    for x in ast.walk(c):
                        d = dotted(x) if isinstance(x, ast.Attribute) else None
                        if d and d.startswith("CONTROL_FLOW_KIND."):
                            accepted.add(d.split(".")[-1])
    rep.analysed["back-edge kinds"] = {"producible": produced, "accepted by the consumer": sorted(accepted)}
    if not accepted:
        raise AnalysisError("the consumer's back-edge test was not found")
    for k in sorted(produced):
        key = f"back-edge kind {k}"
        if k in accepted:
            rep.holds("C06.R3", key, PS, 0, f"produced ({produced[k]}) and accepted as a back edge")
        else:
            rep.violation("C06.R3", key, CF, 0,
                          f"the CFG builder can label an edge from inside a loop body to the loop header {k} ({produced[k]}), but "
                          f"analyze_reachable_symbols / collect_in_state_bits only read predecessors over {sorted(accepted)} edges in rounds "
                          f"after the first: definitions arriving along {k} edges never reach the loop header or the code after the loop")

    # ------------------------------------------------------------------ R4
    an = p2.methods.get("analyze_stmts")
    cfg = cfg_of(an.node)
    incs = [n for n in cfg.g.nodes if cfg.kind[n] == "stmt" and isinstance(cfg.stmt[n], ast.AugAssign) and "stmt_counters" in norm(cfg.stmt[n].target)]
    clears = [n for n in cfg.g.nodes if cfg.kind[n] == "stmt" and isinstance(cfg.stmt[n], ast.Assign) and "is_first_round" in norm(cfg.stmt[n].targets[0])
              and is_const(cfg.stmt[n].value, False)]
    comp = [n for n in cfg.g.nodes for c in cfg.calls_at(n) if is_self_attr(c.func, "compute_stmt_states")]
    key = f"{PS}::analyze_stmts::counter and first-round flag after each completed visit"
    heads = [n for n in cfg.g.nodes if cfg.kind[n] == "test" and isinstance(cfg.stmt[n], ast.While)]
    if comp and heads and incs and clears:
        within = cfg.loop_body_nodes[heads[0]] | {heads[0]}
        p1 = cfg.path_avoiding(comp[0], heads[0], set(incs), within=within)
        p2_ = cfg.path_avoiding(comp[0], heads[0], set(clears), within=within)
        if p1 is None and p2_ is None:
            rep.holds("C06.R4", key, PS, cfg.stmt[incs[0]].lineno, "every path from compute_stmt_states back to the loop head increments the counter and clears the flag")
        else:
            rep.violation("C06.R4", key, PS, cfg.stmt[comp[0]].lineno,
                          "a completed visit can return to the worklist loop without " + ("incrementing stmt_counters" if p1 else "clearing is_first_round")
                          + ": loop headers keep reading their first-round predecessors (definitions from the loop body never arrive)")
    else:
        rep.violation("C06.R4", key, PS, an.node.lineno, "analyze_stmts no longer maintains stmt_counters / is_first_round")
    # a visit is counted when it is completed, not when it is interrupted: the function also returns from inside the loop (a call
    # statement interrupts the frame so that the callee is analysed first; the statement stays on the work-list and is visited --
    # and counted -- again when the frame resumes).  An increment that can be followed by such a return, without the statement having
    # been popped, counts one visit twice and uses up the budget one round early.
    key = f"{PS}::analyze_stmts::an interrupted visit is not counted"
    if comp and heads and incs:
        pops = {n for n in cfg.g.nodes for c in cfg.calls_at(n) if isinstance(c.func, ast.Attribute) and c.func.attr == "pop" and "worklist" in norm(c.func.value)}
        bad = None
        for i_ in incs:
            if any(cfg.dominates(p_, i_) and p_ in cfg.loop_body_nodes[heads[0]] for p_ in pops):
                continue
            pth = cfg.path_avoiding(i_, cfg.EXIT, pops | {heads[0]})
            if pth is not None:
                bad = (i_, pth)
        if bad:
            rep.violation("C06.R4", key, PS, cfg.stmt[bad[0]].lineno,
                          f"`{norm(cfg.stmt[bad[0]])}` is followed by a return from inside the work-list loop ({' -> '.join(cfg.describe_path(bad[1])[:6])}) "
                          f"without the statement having been popped: the interrupted visit is counted, the statement is visited again when the "
                          f"frame resumes and counted again -- a call statement runs out of visits one round early, so definitions that arrive "
                          f"in the last round (the later `break`s of a loop before it) never reach it")
        else:
            rep.holds("C06.R4", key, PS, cfg.stmt[incs[0]].lineno, "every counter increment belongs to a visit whose statement is popped in the same iteration")
    # sibling agreement of the header split
    def split_shape(f: Func) -> Tuple:
        tests = []
        for n in walk_no_nested(f.node):
            if isinstance(n, ast.Compare) and "stmt_counters" in norm(n):
                tests.append(("round", type(n.ops[0]).__name__, norm(n.comparators[0])))
            if isinstance(n, ast.Compare) and isinstance(n.left, ast.Name) and "weight" in n.left.id:
                tests.append(("edge", type(n.ops[0]).__name__, norm(n.comparators[0])))
        # normal form: the edge tests, and whether the round is compared with FIRST_ROUND at all (== / != / else are equivalent splits)
        edge = tuple(sorted({t for t in tests if t[0] == "edge"}))
        rnd = any(t[0] == "round" and "FIRST_ROUND" in t[2] for t in tests)
        return (edge, rnd)
    s1, s2 = split_shape(p2.methods["analyze_reachable_symbols"]), split_shape(p2.methods["collect_in_state_bits"])
    key = f"{PS}::loop-header predecessor split agrees between symbol and state level"
    if s1 == s2 and s1:
        rep.holds("C06.R4", key, PS, 0, f"both use {s1}")
    else:
        rep.violation("C06.R4", key, PS, p2.methods["collect_in_state_bits"].node.lineno,
                      f"symbol level splits loop-header predecessors by {s1}, state level by {s2}: symbol and state reaching definitions "
                      f"disagree at loop headers")
    key = f"{PS}::loop operations table"
    lo = model.module("config/constants.py").assigns.get("LOOP_OPERATIONS")
    lov = literal(lo.args[0]) if isinstance(lo, ast.Call) and lo.args else (literal(lo) if lo is not None else NotImplemented)
    cf_loops = {op for op, h in _cfg_handlers(model).items() if h in ("analyze_while_stmt", "analyze_for_stmt", "analyze_dowhile_stmt")}
    if lov is NotImplemented:
        rep.unknown("C06.R4", key, "config/constants.py", 0, "LOOP_OPERATIONS not a literal")
    elif cf_loops <= set(lov):
        rep.holds("C06.R4", key, "config/constants.py", lo.lineno, f"every operation the CFG builder treats as a loop ({sorted(cf_loops)}) is in LOOP_OPERATIONS")
    else:
        rep.violation("C06.R4", key, "config/constants.py", lo.lineno,
                      f"{sorted(cf_loops - set(lov))} are loops for the CFG builder but not in LOOP_OPERATIONS: their headers read back edges "
                      f"in the first round and entry edges forever")

    _r5_change_propagation(model, rep, p2)
    _r6_worklist_protocol(model, rep, p2)
    _r8_visit_bound(model, rep)
    # which declaration an assignment defines is decided by the hoisting pass: its rules are necessary conditions here too (a
    # parameter shadowed by a spurious local declaration loses its incoming definition)
    from .c05 import _r9_hoisting
    _r9_hoisting(model, rep, "C06.R9")
    from ..generic import check_accumulators
    check_accumulators(model, rep, "C06.R7", ["basics/stmt_def_use_analysis.py"], C06_ADJUDICATED,
                       "used or defined symbols of a statement are missing from its status, so definitions reaching those uses are not linked", 20)


def _r8_visit_bound(model: RepoModel, rep):
    """How often a statement may be visited decides how many definitions can arrive at it (one more `break` before it needs one more
    visit).  Each phase object takes its bound from the configuration when it is constructed; decided: no other method lowers it."""
    rep.rule("C06.R8", "the per-statement visit bound a phase runs with is not lowered after construction: an assignment to max_analysis_round "
                       "outside __init__ evaluates (by constant propagation over the config constants) to at least the constructed value", 2)
    consts = {k: literal(v) for k, v in model.module("config/config.py").assigns.items() if isinstance(literal(v), int)}
    for rel in ("core/prelim_semantics.py", "core/global_semantics.py"):
        for c in model.module(rel).classes.values():
            init = c.methods.get("__init__")
            if init is None:
                continue
            v0 = None
            for st in walk_no_nested(init.node):
                if isinstance(st, ast.Assign) and any(is_self_attr(t, "max_analysis_round") for t in st.targets):
                    d = dotted(st.value) or ""
                    v0 = consts.get(d.split(".")[-1]) if d.startswith("config.") else literal(st.value)
            if v0 is None:
                continue
            key = f"{rel}::{c.name}::max_analysis_round is not lowered after construction"
            bad = unk = None
            for f in c.methods.values():
                if f.name == "__init__":
                    continue
                env = dict(consts)
                for st in sorted((x for x in walk_no_nested(f.node) if isinstance(x, ast.Assign)), key=lambda x: x.lineno):
                    val = None
                    d = dotted(st.value) or ""
                    if d.startswith("config."):
                        val = env.get(d.split(".")[-1])
                    elif isinstance(literal(st.value), int):
                        val = literal(st.value)
                    for t in st.targets:
                        dt = dotted(t) or ""
                        if dt.startswith("config.") and val is not None:
                            env[dt.split(".")[-1]] = min(val, env.get(dt.split(".")[-1], val))     # may or may not run: keep the lower value
                        if is_self_attr(t, "max_analysis_round"):
                            if val is None:
                                unk = (f, st)
                            elif val < v0:
                                bad = (f, st, val)
            if bad:
                f, st, val = bad
                rep.violation("C06.R8", key, rel, st.lineno,
                              f"{f.qualname} assigns `{norm(st)}`, which evaluates to {val}; the object was constructed with {v0}: every statement of "
                              f"this phase is visited at most {val} instead of {v0} times, so a statement that several paths reach one after the "
                              f"other (the statement after a loop with several `break`s) stops being re-analysed before the last definitions arrive")
            elif unk:
                rep.unknown("C06.R8", key, rel, unk[1].lineno, f"`{norm(unk[1])}` in {unk[0].qualname} is not a constant the propagation can evaluate")
            else:
                rep.holds("C06.R8", key, rel, init.node.lineno, f"constructed with {v0}; no other method assigns a lower value")


def _r5_change_propagation(model: RepoModel, rep, p2):
    """C06.R5: what triggers re-linking uses / re-visiting successors."""
    rep.rule("C06.R5", "change propagation compares like with like: the uses of a statement are re-linked whenever its in-set changed, its "
                       "successors are re-visited whenever its out-set (or its definitions) changed, and the old sets handed in are the ones "
                       "captured before the merge and the transfer", 4)
    f = p2.methods.get("update_symbols_if_changed")
    if f is None:
        raise AnalysisError("update_symbols_if_changed vanished")
    params = f.params
    p_in = next((p for p in params if "old_in" in p), None)
    p_out = next((p for p in params if "old_out" in p), None)
    if p_in is None or p_out is None:
        raise AnalysisError(f"{f.ref}: old in/out parameters not found")

    def expand(e, depth=0):
        if isinstance(e, ast.Name) and depth < 4:
            ds = [n.value for n in walk_no_nested(f.node) if isinstance(n, ast.Assign) and isinstance(n.targets[0], ast.Name) and n.targets[0].id == e.id]
            if len(ds) == 1:
                return expand(ds[0], depth + 1)
        if isinstance(e, ast.BoolOp):
            return ast.BoolOp(op=e.op, values=[expand(v, depth + 1) for v in e.values])
        return e

    def compares(test, attr: str, old: str) -> bool:
        t = expand(test)
        for x in ast.walk(t):
            x = expand(x) if isinstance(x, ast.Name) else x
            if isinstance(x, ast.Compare) and len(x.ops) == 1 and isinstance(x.ops[0], (ast.NotEq, ast.Eq)):
                sides = [x.left, x.comparators[0]]
                if any(isinstance(s_, ast.Attribute) and s_.attr == attr for s_ in sides) and any(isinstance(s_, ast.Name) and s_.id == old for s_ in sides):
                    return True
        return False
    # (i) full re-link of the uses
    relink = None
    for n in walk_no_nested(f.node):
        if isinstance(n, ast.If):
            # the innermost `if` whose own body (not a nested if's) holds the call
            for b in n.body:
                if isinstance(b, ast.Expr) and isinstance(b.value, ast.Call):
                    c = b.value
                    if (call_name(c) or "").endswith("update_used_symbols_to_symbol_graph") \
                            and not any(k.arg == "only_implicitly_used_symbols" for k in c.keywords):
                        relink = (n, c)
    key = f"{PS}::update_symbols_if_changed::uses are re-linked when the in-set changed"
    if relink is None:
        rep.violation("C06.R5", key, PS, f.node.lineno, "the uses of a re-visited statement are never re-linked to the definitions that now reach it")
    else:
        n, c = relink
        if compares(n.test, "in_symbol_bits", p_in):
            rep.holds("C06.R5", key, PS, n.lineno, f"`{norm(n.test)}`")
        elif compares(n.test, "out_symbol_bits", p_out):
            rep.violation("C06.R5", key, PS, n.lineno,
                          f"re-linking the uses is triggered by `{norm(expand(n.test))}` (a change of the OUT set): a statement that redefines "
                          f"the variable it reads (`x = x + 1`) keeps the same out-set when a new definition of x arrives, so the new "
                          f"definition is never linked to this use -- a definition that reaches the use is dropped")
        else:
            rep.unknown("C06.R5", key, PS, n.lineno, f"trigger `{norm(n.test)}` not recognised")
    # (ii) successors
    key = f"{PS}::update_symbols_if_changed::successors are re-visited when the out-set changed"
    sched = [n for n in walk_no_nested(f.node) if isinstance(n, ast.If) and any(
        isinstance(b, ast.Expr) and isinstance(b.value, ast.Call) and "stmts_with_symbol_update.add" in (call_name(b.value) or "") for b in n.body)]
    if not sched:
        rep.violation("C06.R5", key, PS, f.node.lineno, "successors are never queued when the out-set of a statement changes")
    elif compares(sched[0].test, "out_symbol_bits", p_out):
        rep.holds("C06.R5", key, PS, sched[0].lineno, f"`{norm(sched[0].test)}`")
    elif compares(sched[0].test, "in_symbol_bits", p_in):
        rep.violation("C06.R5", key, PS, sched[0].lineno,
                      f"successors are queued on `{norm(expand(sched[0].test))}` (a change of the IN set) instead of the OUT set")
    else:
        rep.unknown("C06.R5", key, PS, sched[0].lineno, f"trigger `{norm(sched[0].test)}` not recognised")
    # (iii) what the callers hand in
    ar = p2.methods.get("analyze_reachable_symbols")
    idx_in, idx_out = params.index(p_in) - 1, params.index(p_out) - 1
    caps: Dict[str, ast.Assign] = {}
    for n in walk_no_nested(ar.node):
        if isinstance(n, ast.Assign) and isinstance(n.targets[0], ast.Name) and isinstance(n.value, ast.Attribute) \
                and n.value.attr in ("in_symbol_bits", "out_symbol_bits"):
            caps[n.targets[0].id] = n
    calls = [c for c in walk_no_nested(ar.node) if isinstance(c, ast.Call) and (call_name(c) or "").endswith("update_symbols_if_changed")]
    if not calls:
        raise AnalysisError("analyze_reachable_symbols no longer calls update_symbols_if_changed")
    reset = [n for n in walk_no_nested(ar.node) if isinstance(n, ast.Assign) and isinstance(n.targets[0], ast.Attribute) and n.targets[0].attr == "in_symbol_bits"]
    for i, c in enumerate(calls):
        key = f"{PS}::analyze_reachable_symbols::call #{i + 1} hands in the sets captured before the merge"
        a_in = c.args[idx_in] if len(c.args) > idx_in else None
        a_out = c.args[idx_out] if len(c.args) > idx_out else None
        ok_in = isinstance(a_in, ast.Name) and a_in.id in caps and caps[a_in.id].value.attr == "in_symbol_bits" \
            and (not reset or caps[a_in.id].lineno < reset[0].lineno)
        ok_out = isinstance(a_out, ast.Name) and a_out.id in caps and caps[a_out.id].value.attr == "out_symbol_bits"
        if ok_in and ok_out:
            rep.holds("C06.R5", key, PS, c.lineno, f"({a_in.id}, {a_out.id}) captured from status before `status.in_symbol_bits = set()`")
        else:
            rep.violation("C06.R5", key, PS, c.lineno,
                          f"update_symbols_if_changed receives (`{norm(a_in) if a_in is not None else '?'}`, `{norm(a_out) if a_out is not None else '?'}`) "
                          f"as the old in/out sets; they are not the in-set captured before the merge and the out-set captured before the "
                          f"transfer, so a change is compared against the wrong set")


def _r6_worklist_protocol(model: RepoModel, rep, p2):
    """C06.R6: the statement work-list is a priority queue (reverse post-order of the CFG); what is taken off it must be what was visited,
    and an edge's kind must be readable from the graph class the CFG is loaded into."""
    rep.rule("C06.R6", "work-list and edge protocol: a heap is only shrunk with heappop; the entry removed at the end of a visit is the "
                       "statement that was visited (no insertion between peek and the argument-less pop of a priority queue); the edge "
                       "kind lookup used for the back-edge test understands the graph class control-flow graphs are loaded into; the priority "
                       "order of the statement work-list is reverse post-order", 4)
    CS = "common_structs.py"
    wl = model.cls(CS, "SimpleWorkList")
    heap_attrs: Set[str] = set()
    for f in wl.methods.values():
        for c in walk_no_nested(f.node):
            if isinstance(c, ast.Call) and call_name(c) == "heapq.heappush" and c.args and is_self_attr(c.args[0]):
                heap_attrs.add(c.args[0].attr)
    key = f"{CS}::SimpleWorkList::a list filled with heappush is only shrunk with heappop"
    if not heap_attrs:
        rep.holds("C06.R6", key, CS, wl.node.lineno, "the work-list is not heap ordered")
    else:
        bad = []
        for f in wl.methods.values():
            for c in walk_no_nested(f.node):
                if isinstance(c, ast.Call) and isinstance(c.func, ast.Attribute) and c.func.attr in ("pop", "remove") \
                        and is_self_attr(c.func.value) and c.func.value.attr in heap_attrs:
                    bad.append((f, c))
                if isinstance(c, ast.Delete) and any(isinstance(t, ast.Subscript) and is_self_attr(t.value) and t.value.attr in heap_attrs for t in c.targets):
                    bad.append((f, c))
        if bad:
            f, c = bad[0]
            rep.violation("C06.R6", key, CS, c.lineno,
                          f"SimpleWorkList.{f.name} removes with `{norm(c)}` from a list that is kept with heapq.heappush: what remains is no "
                          f"longer a heap, so later peeks/pops do not return the statement that comes first in reverse post-order -- "
                          f"statements are visited before their predecessors' facts are final and use up their visit budget")
        else:
            rep.holds("C06.R6", key, CS, wl.node.lineno, "heappush / heappop only")
    # the priority order of the statement work-list is a topological order of the acyclic part of the CFG
    key = f"{CS}::SimpleWorkList::statements are ordered by reverse post-order"
    ini = wl.methods.get("__init__")
    prio = [n for n in walk_no_nested(ini.node) if isinstance(n, ast.Assign) and any(is_self_attr(t, "priority_dict") for t in n.targets)
            and isinstance(n.value, (ast.DictComp, ast.Call))] if ini else []
    order_src = None
    for n in prio:
        for x in ast.walk(n.value):
            if isinstance(x, ast.Call) and call_name(x) == "enumerate" and x.args:
                order_src = x.args[0]
    if order_src is None:
        rep.unknown("C06.R6", key, CS, wl.node.lineno, "construction of the priority table not recognised")
    else:
        e = order_src
        if isinstance(e, ast.Name):
            ds = [a.value for a in walk_no_nested(ini.node) if isinstance(a, ast.Assign) and isinstance(a.targets[0], ast.Name) and a.targets[0].id == e.id]
            e = ds[-1] if ds else e
        txt = " ".join(ast.unparse(e).split())
        calls = [call_name(x) or "" for x in ast.walk(e) if isinstance(x, ast.Call)]
        rpo = any(c.endswith("dfs_postorder_nodes") for c in calls) and any(c == "reversed" for c in calls) \
            or any(c.endswith("topological_sort") or c.endswith("lexicographical_topological_sort") for c in calls)
        if rpo:
            rep.holds("C06.R6", key, CS, prio[0].lineno, f"`{txt[:100]}`")
        elif any(c.endswith("dfs_preorder_nodes") or c.endswith("bfs_tree") or c.endswith("dfs_postorder_nodes") for c in calls):
            rep.violation("C06.R6", key, CS, prio[0].lineno,
                          f"the work-list ranks statements by `{txt[:100]}`, which is not a topological order of the CFG: the statement after an "
                          f"if/else can be ranked before the end of the longer branch, is visited before that branch's out-set exists and -- "
                          f"because a statement is re-queued only when a predecessor's out-set changes -- never sees its definitions")
        else:
            rep.unknown("C06.R6", key, CS, prio[0].lineno, f"order `{txt[:100]}` not recognised")
    # peek ... add ... pop
    an = p2.methods.get("analyze_stmts")
    if an is None:
        raise AnalysisError("analyze_stmts vanished")
    cfg = cfg_of(an.node)
    peeks = [n for n in cfg.g.nodes if any((call_name(c) or "").endswith("stmt_worklist.peek") for c in cfg.calls_at(n))]
    pops = [n for n in cfg.g.nodes if any((call_name(c) or "").endswith("stmt_worklist.pop") and not c.args for c in cfg.calls_at(n))]
    adds = {n for n in cfg.g.nodes if any((call_name(c) or "").endswith("stmt_worklist.add") for c in cfg.calls_at(n))}
    key = f"{PS}::analyze_stmts::the entry popped at the end of a visit is the visited statement"
    prio = any(isinstance(c, ast.Call) and call_name(c) == "SimpleWorkList" and any(k.arg == "graph" for k in c.keywords)
               for f in p2.methods.values() for c in walk_no_nested(f.node))
    if not peeks or not pops:
        rep.unknown("C06.R6", key, PS, an.node.lineno, "peek/pop protocol not recognised")
    elif not prio or not heap_attrs:
        rep.holds("C06.R6", key, PS, an.node.lineno, "FIFO work-list: insertions go behind the visited statement")
    else:
        witness = None
        for pk in peeks:
            for pp in pops:
                for ad in adds:
                    p1 = cfg.path_avoiding(pk, ad, set(pops))
                    p2_ = cfg.path_avoiding(ad, pp, set(peeks) | (set(pops) - {pp}))
                    if p1 is not None and p2_ is not None:
                        witness = (pk, ad, pp)
                        break
                if witness:
                    break
            if witness:
                break
        if witness:
            pk, ad, pp = witness
            rep.violation("C06.R6", key, PS, cfg.stmt[pp].lineno,
                          f"analyze_stmts peeks the first statement (line {cfg.stmt[pk].lineno}), inserts its successors into the priority "
                          f"queue (line {cfg.stmt[ad].lineno}) and then removes `the first entry` with pop() (line {cfg.stmt[pp].lineno}): when a "
                          f"successor sorts before the visited statement -- the loop header seen from the last statement of the body -- the "
                          f"header is thrown away unvisited and the visited statement stays queued; loop headers are never re-visited, so a "
                          f"definition made in a loop body does not reach the code after the loop")
        else:
            rep.holds("C06.R6", key, PS, an.node.lineno, "no insertion between peek and pop")
    # edge kind lookup vs graph class
    um = model.module("util/util.py")
    gw = um.functions.get("get_graph_edge_weight")
    key = "util/util.py::get_graph_edge_weight::understands the graph class of loaded control-flow graphs"
    bg = model.cls(CS, "BasicGraph")
    multi = any(isinstance(n, ast.Assign) and is_self_attr(n.targets[0], "graph") and isinstance(n.value, ast.Call)
                and (call_name(n.value) or "").endswith("MultiDiGraph") for f in bg.methods.values() for n in walk_no_nested(f.node))
    cfg_is_basic = any(b.name == "BasicGraph" for b in model.mro(model.cls(CS, "ControlFlowGraph")))
    if gw is None:
        raise AnalysisError("util.get_graph_edge_weight vanished")
    direct = [n for n in walk_no_nested(gw.node) if isinstance(n, ast.Call) and isinstance(n.func, ast.Attribute) and n.func.attr == "get"
              and n.args and const_str(n.args[0]) == "weight" and isinstance(n.func.value, ast.Name)]
    handles_multi = any(isinstance(n, ast.Call) and isinstance(n.func, ast.Attribute) and n.func.attr in ("is_multigraph", "values", "items")
                        for n in walk_no_nested(gw.node)) or any(isinstance(n, ast.Subscript) and isinstance(n.slice, ast.Constant) and n.slice.value == 0
                                                                 for n in walk_no_nested(gw.node))
    if multi and cfg_is_basic and direct and not handles_multi:
        rep.violation("C06.R6", key, "util/util.py", direct[0].lineno,
                      "control-flow graphs are loaded into BasicGraph.graph, an nx.MultiDiGraph, whose get_edge_data(u, v) returns "
                      "{edge key: attributes}; get_graph_edge_weight reads `.get('weight')` from that outer dict and therefore always "
                      "returns None: the LOOP_BACK tests in analyze_reachable_symbols / collect_in_state_bits never see a back edge, so a "
                      "re-visited loop header gets an empty in-set")
    elif direct or handles_multi:
        rep.holds("C06.R6", key, "util/util.py", gw.node.lineno, "edge attributes are read in the shape the graph class returns")
    else:
        rep.unknown("C06.R6", key, "util/util.py", gw.node.lineno, "weight lookup not recognised")


def _cfg_handlers(model: RepoModel) -> Dict[str, str]:
    from .. import gir
    reg = gir.find_registry(model, CF, "ControlFlowAnalysis", "stmt_handlers")
    return {op: h.name for op, h in reg.handlers.items()}


def check_merge_fresh(model: RepoModel, rep, RID: str, fname: str, acc: str, src: str):
    """The merged in-set must be a fresh object on every path: the transfer functions kill and generate in place on what the
    merge hands them (or on what is stored as the in-set), so handing out a predecessor's stored out-set lets one statement rewrite
    another statement's result (shared by C06.R2 and C09.R2)."""
    p2 = model.cls(PS, "P2PrelimSemanticAnalysis")
    f = p2.methods.get(fname)
    if f is None:
        raise AnalysisError(f"{fname} vanished")
    acc = _resolve_acc(f, acc)
    key = f"{PS}::{fname}::the merged set is a fresh object on every path"
    bad = []

    def stored(e) -> bool:
        # a set owned by another statement's status (or any attribute ending in the out-set name) handed out without a copy
        return isinstance(e, ast.Attribute) and e.attr == src or isinstance(e, ast.Subscript) and stored(e.value) \
            or isinstance(e, ast.IfExp) and (stored(e.body) or stored(e.orelse))
    for n in walk_no_nested(f.node):
        if isinstance(n, ast.Return) and n.value is not None and stored(n.value):
            bad.append((n, f"`{norm(n)}` returns a predecessor's stored {src} itself"))
        if isinstance(n, ast.Assign) and _acc_matches(n.targets[0], acc) and stored(n.value):
            bad.append((n, f"`{norm(n)}` makes the in-set the very object stored as a predecessor's {src}"))
    if bad:
        n, what = bad[0]
        rep.violation(RID, key, PS, n.lineno,
                      f"{fname}: {what}: the statement's transfer (kill/gen in place) then rewrites the predecessor's out-set, so the "
                      f"sibling successors of that predecessor (the other arm of a branch, the path round a one-armed `if`) lose the "
                      f"definitions this statement kills")
    else:
        rep.holds(RID, key, PS, f.node.lineno, f"`{acc}` is only ever a new set that predecessors' {src} are merged into")


# ---------------------------------------------------------------- self-test mutants
def _t(old, new, count=1):
    return lambda src: __import__("sa.mutate", fromlist=["x"]).text_replace(src, old, new, count)


C06_ADJUDICATED = {
    "basics/stmt_def_use_analysis.py::StmtDefUseAnalysis.analyze_and_save_call_stmt_args::`named_args_info`::break under `index >= len(named_symbol_list)`":
        "bound check: there is no symbol behind the index, nothing to contribute",
}

MUTANTS = [
    ("worklist-preorder", "common_structs.py",
     _t("                cfg_order = list(reversed(list(\n                    nx.dfs_postorder_nodes(self.graph, source = entry_node)\n                )))",
        "                cfg_order = list(nx.dfs_preorder_nodes(self.graph, source = entry_node))"),
     "statements are ordered by reverse post-order"),
    ("first-used-symbol-only", "basics/stmt_def_use_analysis.py",
     _t("            for symbol in stmt_symbol_list:\n                if not util.isna(symbol):\n                    used_symbol_list.append(\n                        self.create_symbol_or_state_and_add_space(stmt_id, symbol)\n                    )\n",
        "            for symbol in stmt_symbol_list:\n                if not util.isna(symbol):\n                    used_symbol_list.append(\n                        self.create_symbol_or_state_and_add_space(stmt_id, symbol)\n                    )\n                else:\n                    break\n"),
     "C06.R7"),
    ("relink-on-out-change", PS,
     _t("        elif status.in_symbol_bits != old_in_symbol_bits:\n            self.update_used_symbols_to_symbol_graph(stmt_id, stmt, frame)",
        "        elif status.out_symbol_bits != old_out_symbol_bits:\n            self.update_used_symbols_to_symbol_graph(stmt_id, stmt, frame)"),
     "uses are re-linked when the in-set changed"),
    ("old-sets-swapped", PS,
     _t("                self.update_symbols_if_changed(stmt_id, stmt, frame, status, old_in_symbol_bits, old_out_symbol_bits)",
        "                self.update_symbols_if_changed(stmt_id, stmt, frame, status, old_out_symbol_bits, old_in_symbol_bits)"),
     "hands in the sets captured before the merge"),
    ("state-merge-aliases-single-predecessor", PS,
     _t("        for each_parent_stmt_id in parent_stmt_ids:\n            if each_parent_stmt_id in frame.stmt_id_to_status:\n                in_state_bits |= frame.stmt_id_to_status[each_parent_stmt_id].out_state_bits",
        "        if len(parent_stmt_ids) == 1 and parent_stmt_ids[0] in frame.stmt_id_to_status:\n            return frame.stmt_id_to_status[parent_stmt_ids[0]].out_state_bits\n        for each_parent_stmt_id in parent_stmt_ids:\n            if each_parent_stmt_id in frame.stmt_id_to_status:\n                in_state_bits |= frame.stmt_id_to_status[each_parent_stmt_id].out_state_bits"),
     "collect_in_state_bits::the merged set is a fresh object"),
    ("gen-before-kill", PS, _t("        current_bits = frame.symbol_bit_vector_manager.kill_bit_ids(current_bits, all_def_stmts)\n        current_bits = frame.symbol_bit_vector_manager.gen_bit_ids(current_bits, [bit_id])",
                               "        current_bits = frame.symbol_bit_vector_manager.gen_bit_ids(current_bits, [bit_id])\n        current_bits = frame.symbol_bit_vector_manager.kill_bit_ids(current_bits, all_def_stmts)"),
     "update_current_symbol_bit"),
    ("kill-dropped", PS, _t("        current_bits = frame.symbol_bit_vector_manager.kill_bit_ids(current_bits, all_def_stmts)\n", ""), "update_current_symbol_bit"),
    ("kill-wrong-table", PS, _t("        all_def_stmts = frame.defined_symbols[symbol_id]", "        all_def_stmts = frame.all_symbol_defs"), "update_current_symbol_bit"),
    ("state-kill-by-stmt", PS, _t("        all_def_states = frame.defined_states[state_id]", "        all_def_states = frame.defined_states.get(bit_id.stmt_id, set())"),
     "update_current_state_bit"),
    ("working-set-aliased", PS, _t("        current_bits = status.in_symbol_bits.copy()", "        current_bits = status.in_symbol_bits"), "working set"),
    ("merge-intersection", PS, _t("                status.in_symbol_bits |= frame.stmt_id_to_status[each_parent_stmt_id].out_symbol_bits",
                                  "                status.in_symbol_bits &= frame.stmt_id_to_status[each_parent_stmt_id].out_symbol_bits"), "analyze_reachable_symbols::merge"),
    ("state-merge-from-in", PS, _t("                in_state_bits |= frame.stmt_id_to_status[each_parent_stmt_id].out_state_bits",
                                   "                in_state_bits |= frame.stmt_id_to_status[each_parent_stmt_id].in_state_bits"), "collect_in_state_bits::merge"),
    ("out-not-stored", PS, _t("        status.out_symbol_bits = current_bits\n", "        status.out_symbol_bits = status.in_symbol_bits\n"), "working set"),
    ("loop-back-renamed-in-consumer", PS, _t("edge_weight == CONTROL_FLOW_KIND.LOOP_BACK", "edge_weight == CONTROL_FLOW_KIND.LOOP_TRUE", count=10), "back-edge kind LOOP_BACK"),
    ("state-split-diverges", PS, _t("                elif frame.stmt_counters[stmt_id] != config.FIRST_ROUND and edge_weight == CONTROL_FLOW_KIND.LOOP_BACK:",
                                    "                elif frame.stmt_counters[stmt_id] != config.FIRST_ROUND:"), "split agrees"),
    ("first-round-flag-not-cleared", PS, _t("            frame.is_first_round[stmt_id] = False\n", ""), "counter and first-round flag"),
    ("implicit-defs-not-generated", PS, _t("        all_defined_symbols = [status.defined_symbol] + status.implicitly_defined_symbols",
                                           "        all_defined_symbols = [status.defined_symbol]"), "all defined symbols"),
]
