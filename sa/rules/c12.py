"""C12 -- results are invariant under meaning-preserving edits (DESIGN section 3, C12).

A relation between pairs of runs is not static.  One clause is: results are identified by source line,
so every rewriter of the source text that runs before parsing has to preserve the line structure (R1,
E6 = regex line-effect analysis on ``re._parser`` syntax trees).  R2: name-keyed state is per unit.
"""
from __future__ import annotations

import ast
import re
from typing import Dict, List, Optional, Set, Tuple

from ..cfg import cfg_of
from ..model import AnalysisError, Func, RepoModel, call_name, const_str, dotted, enclosing_map, is_self_attr, literal, norm, walk_no_nested

try:  # the regex parser moved in 3.11
    import re._parser as sre_parse
    import re._constants as sre_c
except ImportError:  # pragma: no cover
    import sre_parse
    import sre_constants as sre_c

BASIC = "events/default_event_handlers/basic.py"
INF = 10 ** 9
SEVEN = {"python", "javascript", "typescript", "java", "go", "c", "php"}


def _flags_value(e) -> int:
    v = 0
    if e is None:
        return 0
    for n in ast.walk(e):
        d = dotted(n) if isinstance(n, ast.Attribute) else None
        if d and d.startswith("re."):
            v |= int(getattr(re, d.split(".")[1], 0))
    return v


def newline_range(pattern: str, flags: int) -> Tuple[int, int]:
    """(min, max) number of newline characters a match of ``pattern`` can contain (max INF = unbounded)."""
    tree = sre_parse.parse(pattern, flags)
    dotall = bool(flags & re.DOTALL)

    def rng(items) -> Tuple[int, int]:
        lo = hi = 0
        for op, av in items:
            a, b = one(op, av)
            lo, hi = lo + a, min(INF, hi + b)
        return lo, hi

    def charset_can_nl(av) -> bool:
        negate = any(op == sre_c.NEGATE for op, _ in av)
        hit = False
        for op, x in av:
            if op == sre_c.LITERAL and x == 10:
                hit = True
            elif op == sre_c.RANGE and x[0] <= 10 <= x[1]:
                hit = True
            elif op == sre_c.CATEGORY and x in (sre_c.CATEGORY_SPACE, sre_c.CATEGORY_NOT_DIGIT, sre_c.CATEGORY_NOT_WORD, sre_c.CATEGORY_LINEBREAK):
                hit = True
        return (not hit) if negate else hit

    def one(op, av) -> Tuple[int, int]:
        if op == sre_c.LITERAL:
            return (1, 1) if av == 10 else (0, 0)
        if op == sre_c.NOT_LITERAL:
            return (0, 1) if av != 10 else (0, 0)
        if op == sre_c.ANY:
            return (0, 1) if dotall else (0, 0)
        if op == sre_c.IN:
            return (0, 1) if charset_can_nl(av) else (0, 0)
        if op == sre_c.CATEGORY:
            return (0, 1) if av in (sre_c.CATEGORY_SPACE, sre_c.CATEGORY_NOT_DIGIT, sre_c.CATEGORY_NOT_WORD, sre_c.CATEGORY_LINEBREAK) else (0, 0)
        if op == sre_c.BRANCH:
            rs = [rng(x) for x in av[1]]
            return min(r[0] for r in rs), max(r[1] for r in rs)
        if op in (sre_c.MAX_REPEAT, sre_c.MIN_REPEAT) or getattr(sre_c, "POSSESSIVE_REPEAT", None) == op:
            mn, mx, sub = av
            a, b = rng(sub)
            hi = INF if (mx == sre_c.MAXREPEAT and b > 0) else min(INF, b * (mx if mx != sre_c.MAXREPEAT else 1))
            return a * mn, hi
        if op == sre_c.SUBPATTERN:
            return rng(av[3])
        if op in (sre_c.ASSERT, sre_c.ASSERT_NOT, sre_c.AT):
            return (0, 0)   # zero width
        if op == sre_c.GROUPREF:
            return (0, INF)
        if getattr(sre_c, "ATOMIC_GROUP", None) == op:
            return rng(av)
        if op == sre_c.GROUPREF_EXISTS:
            a = rng(av[1]); b = rng(av[2]) if av[2] else (0, 0)
            return min(a[0], b[0]), max(a[1], b[1])
        return (0, INF)

    return rng(tree)


def _const_pattern(e, f: Func, m) -> Optional[str]:
    if isinstance(e, ast.Constant) and isinstance(e.value, str):
        return e.value
    if isinstance(e, ast.Name):
        for scope in [f] + [g for g in m.all_funcs() if g is not f and any(x is f.node for x in ast.walk(g.node))]:
            defs = [n.value for n in walk_no_nested(scope.node) if isinstance(n, ast.Assign) and any(isinstance(t, ast.Name) and t.id == e.id for t in n.targets)]
            if len(defs) == 1 and isinstance(defs[0], ast.Constant) and isinstance(defs[0].value, str):
                return defs[0].value
    return None


def _repl_newlines(e, f: Func) -> Tuple[Optional[int], str]:
    """(number of newlines a replacement inserts or None if not constant, description)."""
    if isinstance(e, ast.Constant) and isinstance(e.value, str):
        return e.value.count("\n"), repr(e.value)
    if isinstance(e, ast.Lambda):
        counts_nl = any(isinstance(x, ast.Call) and isinstance(x.func, ast.Attribute) and x.func.attr == "count" and x.args
                        and const_str(x.args[0]) == "\n" for x in ast.walk(e))
        if counts_nl:
            return -1, "lambda that re-emits m.count('\\n') newlines"
        consts = [x.value for x in ast.walk(e) if isinstance(x, ast.Constant) and isinstance(x.value, str)]
        return (None if any("\n" in c for c in consts) else 0), f"lambda `{norm(e.body)}`"
    if isinstance(e, ast.Name):
        # a local function used as replacement callback
        for n in ast.walk(f.node):
            if isinstance(n, ast.FunctionDef) and n.name == e.id:
                consts = [x.value for x in ast.walk(n) if isinstance(x, ast.Constant) and isinstance(x.value, str)]
                counts_nl = any(isinstance(x, ast.Call) and isinstance(x.func, ast.Attribute) and x.func.attr == "count" and x.args
                                and const_str(x.args[0]) == "\n" for x in ast.walk(n))
                strips = any(isinstance(x, ast.Call) and isinstance(x.func, ast.Attribute) and x.func.attr in ("strip", "lstrip", "rstrip") for x in ast.walk(n))
                if counts_nl:
                    return -1, "callback that re-emits m.count('\\n') newlines"
                nl = sum(c.count("\n") for c in consts)
                return (None if (strips or nl) else 0), f"callback `{e.id}`" + (" (strips matched text)" if strips else "") + (f" adding {nl} newline(s)" if nl else "")
    return None, norm(e)


def run(model: RepoModel, rep, tier: str):
    rep.not_decided = ("invariance itself (a relation between two runs) for renaming, reordering definitions, inserting no-ops and moving "
                       "functions between files; for these edits only two necessary conditions on the binding mechanism are decided "
                       "(R3: the bound declaration is chosen by nesting, never by position in the file; R4: import paths follow re-exports "
                       "and do not depend on the order units are visited in)")
    rep.rule("C12.R1", "every rewriter of the source text that runs before parsing preserves the line structure: a substitution whose "
                       "match can contain newlines re-emits as many, and a line-by-line rewriter emits exactly one line per input line", 4)
    rep.rule("C12.R2", "name-keyed state is created per unit (a consistent rename cannot collide across files)", 1)

    regm = model.module("events/event_registers.py")
    bm = model.module(BASIC)
    handlers: List[Tuple[str, Set[str]]] = []
    for n in ast.walk(regm.tree):
        if isinstance(n, ast.Call) and call_name(n) == "EventHandler":
            ev = next((k.value for k in n.keywords if k.arg == "event"), None)
            h = next((k.value for k in n.keywords if k.arg == "handler"), None)
            lg = next((k.value for k in n.keywords if k.arg == "langs"), None)
            if (dotted(ev) or "").endswith("SOURCE_CODE_READY") and isinstance(h, ast.Attribute):
                langs = {const_str(e) or "%any" for e in lg.elts} if isinstance(lg, ast.List) else {"%any"}
                handlers.append((h.attr, langs))
    rep.analysed["source-text rewriters registered"] = {h: sorted(l) for h, l in handlers}
    if len(handlers) < 4:
        raise AnalysisError("fewer source-text rewriters registered than on the pinned tree; registration table not recognised")

    for hname, langs in handlers:
        f = bm.functions.get(hname)
        if f is None:
            rep.unknown("C12.R1", f"{BASIC}::{hname}", BASIC, 0, "handler not found in basic.py")
            continue
        in_scope = bool(langs & SEVEN) or "%any" in langs
        report = rep.violation if in_scope else rep.info
        subs = [c for c in ast.walk(f.node) if isinstance(c, ast.Call) and call_name(c) in ("re.sub", "re.subn") and len(c.args) >= 3]
        for c in subs:
            pat = _const_pattern(c.args[0], f, bm)
            flags = _flags_value(next((k.value for k in c.keywords if k.arg == "flags"), c.args[4] if len(c.args) > 4 else None))
            key = f"{BASIC}::{hname}::`re.sub({norm(c.args[0])[:50]})`"
            # substitutions applied to a single line (inside a `for line in ...splitlines()` loop) cannot change the line count
            per_line = any(isinstance(l, ast.For) and any(x is c for x in ast.walk(l)) and "splitlines" in norm(l.iter) or
                           (isinstance(l, ast.For) and isinstance(l.iter, ast.Name) and l.iter.id == "lines" and any(x is c for x in ast.walk(l)))
                           for l in ast.walk(f.node))
            if pat is None:
                if per_line:
                    rep.holds("C12.R1", key, BASIC, c.lineno, "applied to one line at a time; the pattern is built from escaped names (no newline)")
                else:
                    rep.unknown("C12.R1", key, BASIC, c.lineno, "pattern is not a constant")
                continue
            try:
                lo, hi = newline_range(pat, flags)
            except Exception as e:  # malformed pattern: not ours to judge
                rep.unknown("C12.R1", key, BASIC, c.lineno, f"pattern not parsed: {e}")
                continue
            rn, rdesc = _repl_newlines(c.args[1], f)
            if per_line and hi == 0:
                rep.holds("C12.R1", key, BASIC, c.lineno, "per-line substitution, match cannot contain a newline")
            elif hi == 0 and rn == 0:
                rep.holds("C12.R1", key, BASIC, c.lineno, f"a match cannot contain a newline and the replacement ({rdesc}) adds none")
            elif rn == -1:
                rep.holds("C12.R1", key, BASIC, c.lineno, f"a match can contain {lo}..{'many' if hi >= INF else hi} newlines; the {rdesc}")
            elif rn is not None and lo == hi == rn:
                rep.holds("C12.R1", key, BASIC, c.lineno, f"every match contains exactly {lo} newline(s) and the replacement {rdesc} re-emits {rn}")
            else:
                report("C12.R1", key, BASIC, c.lineno,
                       f"{hname} (registered for {sorted(langs)}): a match of `{pat}` can contain {lo}..{'any number of' if hi >= INF else hi} "
                       f"newline(s) but the replacement ({rdesc}) emits {'an unknown number' if rn is None else rn}: every later line of the "
                       f"file is reported under a shifted line number, and line-restricted rules stop matching")
        # line-by-line rewriters
        loops = [l for l in ast.walk(f.node) if isinstance(l, ast.For) and ("splitlines" in norm(l.iter) or (isinstance(l.iter, ast.Name) and l.iter.id == "lines"))]
        joins = [x for x in ast.walk(f.node) if isinstance(x, ast.Call) and isinstance(x.func, ast.Attribute) and x.func.attr == "join"
                 and const_str(x.func.value) == "\n"]
        for l in loops:
            if not joins:
                continue
            outv = joins[0].args[0].id if joins[0].args and isinstance(joins[0].args[0], ast.Name) else None
            key = f"{BASIC}::{hname}::one output line per input line"
            ext = [x for x in ast.walk(l) if isinstance(x, ast.Call) and isinstance(x.func, ast.Attribute) and x.func.attr == "extend"
                   and isinstance(x.func.value, ast.Name) and x.func.value.id == outv]
            from ..cfg import cfg_of
            cfg = cfg_of(f.node)
            head = cfg.node(l)
            apps = {n for n in cfg.loop_body_nodes[head] for cl in cfg.calls_at(n) if isinstance(cl.func, ast.Attribute) and cl.func.attr == "append"
                    and isinstance(cl.func.value, ast.Name) and cl.func.value.id == outv}
            multi = []
            for x in ext:
                a = x.args[0] if x.args else None
                single = isinstance(a, (ast.List, ast.Tuple)) and len(a.elts) == 1
                if not single:
                    multi.append(x)
            skipping = cfg.back_paths_all_pass(head, apps | {n for n in cfg.loop_body_nodes[head] for cl in cfg.calls_at(n) if cl in ext})
            if multi:
                report("C12.R1", key, BASIC, multi[0].lineno,
                       f"{hname} (registered for {sorted(langs)}) replaces one input line by `{norm(multi[0].args[0])}`, a list that can hold several "
                       f"lines (`import a.b, c` becomes two import lines): every later line of the file moves down, so reported lines and "
                       f"line-restricted rules are off by one per such import")
            elif skipping is not None:
                report("C12.R1", key, BASIC, l.lineno, f"{hname}: a path through the per-line loop emits no line for an input line")
            else:
                rep.holds("C12.R1", key, BASIC, l.lineno, "every path through the loop appends exactly one line")
        # str.replace on the whole text with constants containing newlines
        for c in ast.walk(f.node):
            if isinstance(c, ast.Call) and isinstance(c.func, ast.Attribute) and c.func.attr == "replace" and len(c.args) >= 2:
                a, b = c.args[0], c.args[1]
                if isinstance(a, ast.Constant) and isinstance(b, ast.Constant) and isinstance(a.value, str) and isinstance(b.value, str) \
                        and a.value.count("\n") != b.value.count("\n"):
                    report("C12.R1", f"{BASIC}::{hname}::replace({a.value!r}, {b.value!r})", BASIC, c.lineno,
                           f"{hname} replaces text containing {a.value.count(chr(10))} newline(s) by text containing {b.value.count(chr(10))}")

    # ------------------------------------------------------------------ R2
    ba = model.module("basics/basic_analysis.py")
    p1 = next((c for c in ba.classes.values() if "run" in c.methods and "analyze_method" in c.methods), None)
    if p1 is None:
        raise AnalysisError("P1 analysis class not found")
    runf = p1.methods["run"]
    # the per-unit loop by role: the outermost loop that (transitively) calls analyze_method; the table by role: the argument
    # passed to analyze_method at the position of its `external_symbol_id_collection` parameter
    am_ = p1.methods["analyze_method"]
    pos = am_.params.index("external_symbol_id_collection") - 1 if "external_symbol_id_collection" in am_.params else None
    all_loops = [l for l in walk_no_nested(runf.node) if isinstance(l, ast.For)
                 and any(isinstance(x, ast.Call) and is_self_attr(x.func, "analyze_method") for x in ast.walk(l))]
    unit_loops = [l for l in all_loops if not any(l is not o and any(x is l for x in ast.walk(o)) for o in all_loops)]
    table_vars = {c.args[pos].id for l in unit_loops for c in ast.walk(l) if isinstance(c, ast.Call) and is_self_attr(c.func, "analyze_method")
                  and pos is not None and pos < len(c.args) and isinstance(c.args[pos], ast.Name)}
    key = "basics/basic_analysis.py::run::external_symbol_id_collection is created per unit"
    if not unit_loops:
        rep.unknown("C12.R2", key, ba.rel, runf.node.lineno, "per-unit def-use loop not recognised")
    else:
        l = unit_loops[0]
        created_in = [x for x in l.body if isinstance(x, ast.Assign) and isinstance(x.targets[0], ast.Name)
                      and x.targets[0].id in table_vars and isinstance(x.value, ast.Dict) and not x.value.keys]
        first_use = min((x.lineno for x in ast.walk(l) if isinstance(x, ast.Call) and is_self_attr(x.func, "analyze_method")), default=0)
        if created_in and min(c.lineno for c in created_in) < first_use:
            rep.holds("C12.R2", key, ba.rel, created_in[0].lineno, "a fresh dict at the top of every unit iteration")
        else:
            rep.violation("C12.R2", key, ba.rel, l.lineno,
                          "the name -> external symbol id table is not re-created for every unit: an unresolved name in one file receives the id "
                          "the same name got in a previously analysed file, so renaming it in one file changes bindings in the other")


    # ------------------------------------------------------------------ R3 / R4 (shared with C05.R5 / C05.R7)
    from . import c05
    c05._r5(model, rep, "C12.R3")
    c05._r7(model, rep, "C12.R4")
    # renaming a parameter renames the keyword at its call sites: the pairing of keyword values with parameter names must not depend
    # on the spelling of the names beyond their agreed (sorted) order at both ends (shared with C07.R4)
    from .c07 import _r4_keyword_order
    _r4_keyword_order(model, rep, "C12.R5")
    _r6_names_and_module_tree(model, rep)
    _r1b_reader_keeps_lines(model, rep)
    from .c07 import check_base_order
    rep.rule("C12.R7", "re-ordering independent top-level class definitions changes nothing: the bases of a class are visited in the order of "
                       "its class statement, never in the order of the class ids", 1)
    check_base_order(model, rep, "C12.R7")
    from .. import generic4, gir
    rep.rule("C12.R8", "moving a function into a sibling module of a package keeps it resolvable: " + "a relative import is searched in the right package: n leading dots climb n-1 packages above the importing file's own package (dot counter, guarded level assignment and the range of the climbing loop evaluated for 1..5 dots)", 1)
    generic4.check_relative_import_levels(model, rep, "C12.R8")
    rep.rule("C12.R9", "a comment inserted between the elements of a list/array literal changes no element index: a loop that numbers the children "
                       "with enumerate() does not skip children inside the counted loop", 4)
    generic4.check_skip_counted_indices(model, rep, "C12.R9", [m_.rel for lg_, m_ in gir.frontend_modules(model, gir.SEVEN)], min_sites=4)


def _r1b_reader_keeps_lines(model: RepoModel, rep):
    """line numbers are those of the file: the text read from the source file reaches the parser (and the preprocessors) without
    whitespace trimming -- strip()/lstrip() removes leading blank lines and every row number of the file becomes too small"""
    la = model.module("lang/lang_analysis.py")
    n = 0
    for ci in la.classes.values():
        for f in ci.methods.values():
            reads = [c for c in walk_no_nested(f.node) if isinstance(c, ast.Call) and isinstance(c.func, ast.Attribute) and c.func.attr == "read" and not c.args]
            if not reads or not any(isinstance(c, ast.Call) and (call_name(c) or "") == "open" for c in walk_no_nested(f.node)):
                continue
            for rd in reads:
                n += 1
                key = f"lang/lang_analysis.py::{f.qualname}::`{norm(rd)}`::the source text is parsed as read"
                enc = enclosing_map(f.node)
                par = enc.get(id(rd))
                trimmed = None
                if isinstance(par, ast.Attribute) and par.attr in ("strip", "lstrip", "splitlines", "expandtabs"):
                    trimmed = par
                # or the variable it is bound to is trimmed later
                tgt = None
                cur = rd
                while id(cur) in enc and not isinstance(cur, ast.stmt):
                    cur = enc[id(cur)]
                if isinstance(cur, ast.Assign) and isinstance(cur.targets[0], ast.Name):
                    tgt = cur.targets[0].id
                    for c in walk_no_nested(f.node):
                        if isinstance(c, ast.Call) and isinstance(c.func, ast.Attribute) and c.func.attr in ("strip", "lstrip") and isinstance(c.func.value, ast.Name) \
                                and c.func.value.id == tgt and isinstance(enc.get(id(c)), ast.Assign):
                            trimmed = c.func
                if trimmed is not None:
                    rep.violation("C12.R1", key, "lang/lang_analysis.py", trimmed.lineno,
                                  f"{f.qualname} trims the text of the source file (`.{trimmed.attr}()`) before it is parsed: blank lines at the top of the file "
                                  f"vanish, so every statement of that file is reported {'' if trimmed.attr != 'splitlines' else 'possibly '}too high up -- "
                                  f"inserting blank lines at the top no longer shifts the reported source and sink lines accordingly")
                else:
                    rep.holds("C12.R1", key, "lang/lang_analysis.py", rd.lineno, "not trimmed")
    if not n:
        raise AnalysisError("lang_analysis.py: the place where a source file is read was not found")


def _r6_names_and_module_tree(model: RepoModel, rep):
    rep.rule("C12.R6", "fresh names and new files behave like the old ones: a name is classified as a variable by its shape alone (the only words "
                       "refused are reserved words, which no program can use as a name), and the module tree mirrors the directory tree (the "
                       "entries of a directory are registered under the id created for that directory), so an import into a package resolves", 2)
    # (a) is_variable
    um = model.module("util/util.py")
    iv = um.functions.get("is_variable")
    if iv is None:
        raise AnalysisError("util.is_variable vanished")
    key = "util/util.py::is_variable::only reserved words are refused"
    # word lists that contain legal identifiers: soft keywords (match, case, type, _), builtins, any literal collection of words that
    # leads to a refusal
    LEGAL_WORD_SOURCES = ("keyword.issoftkeyword", "keyword.softkwlist", "dir", "builtins")
    icfg = cfg_of(iv.node)
    bad = None
    for n in icfg.g.nodes:
        st = icfg.stmt.get(n)
        if icfg.kind[n] == "stmt" and isinstance(st, ast.Return) and isinstance(st.value, ast.Constant) and st.value.value is False:
            for atom, truth in icfg.conditions_at(n):
                if not truth:
                    continue
                for x in ast.walk(atom):
                    if isinstance(x, ast.Call) and (call_name(x) or "") in LEGAL_WORD_SOURCES:
                        bad = bad or (atom, f"`{call_name(x)}`")
                    if isinstance(x, ast.Attribute) and (dotted(x) or "") in LEGAL_WORD_SOURCES:
                        bad = bad or (atom, f"`{dotted(x)}`")
                # `name in [<words>]` that leads to a refusal
                if isinstance(atom, ast.Compare) and isinstance(atom.ops[0], ast.In) and isinstance(atom.comparators[0], (ast.List, ast.Tuple, ast.Set)) \
                        and any(isinstance(e, ast.Constant) and isinstance(e.value, str) and e.value.isidentifier() and not __import__("keyword").iskeyword(e.value)
                                for e in atom.comparators[0].elts):
                    bad = bad or (atom, "a list of words that are legal identifiers")
    if bad:
        rep.violation("C12.R6", key, "util/util.py", bad[0].lineno,
                      f"is_variable refuses a name under `{norm(bad[0])[:100]}`, i.e. by {bad[1]}: those words are legal identifiers (a local may be "
                      f"called match, type, case, list ...), so renaming a variable to one of them turns every use of it into a constant and the "
                      f"flows through it disappear")
    else:
        rep.holds("C12.R6", key, "util/util.py", iv.node.lineno, "the refusing conditions only consult keyword.iskeyword and the shape of the name")
    # (b) module tree
    pm = model.module("preparation.py")
    scan = None
    for c in pm.classes.values():
        for f in c.methods.values():
            if any(isinstance(x, ast.Call) and is_self_attr(x.func, f.name) for x in walk_no_nested(f.node)) and any(
                    isinstance(x, ast.Call) and (call_name(x) or "") == "os.scandir" for x in walk_no_nested(f.node)):
                scan = f
    if scan is None:
        raise AnalysisError("the recursive directory scan of preparation.py (self-recursive method calling os.scandir) vanished")
    key = f"preparation.py::{scan.qualname}::a directory's entries are registered under the directory's own id"
    recs = [d for d in walk_no_nested(scan.node) if isinstance(d, ast.Dict) and any(isinstance(k, ast.Constant) and isinstance(k.value, str) and "parent" in k.value for k in d.keys)]
    parent_params = {norm(v) for d in recs for k, v in zip(d.keys, d.values) if isinstance(k, ast.Constant) and "parent" in str(k.value) and isinstance(v, ast.Name) and v.id in scan.params}
    if len(parent_params) != 1:
        rep.unknown("C12.R6", key, "preparation.py", scan.node.lineno, f"parent-id parameter not identified ({sorted(parent_params)})")
        return
    P = parent_params.pop()
    ppos = scan.params.index(P) - 1
    probs = []
    n_calls = 0
    enc = enclosing_map(scan.node)
    for c in walk_no_nested(scan.node):
        if not (isinstance(c, ast.Call) and is_self_attr(c.func, scan.name)):
            continue
        n_calls += 1
        a = c.args[ppos] if ppos < len(c.args) else next((k.value for k in c.keywords if k.arg == P), None)
        # the record appended in the same block gives the id created for this directory
        blk = enc.get(id(c))
        while blk is not None and not isinstance(blk, (ast.If, ast.For, ast.While)):
            blk = enc.get(id(blk))
        own_ids = {norm(v) for d in recs if blk is not None and any(x is d for x in ast.walk(blk)) for k, v in zip(d.keys, d.values)
                   if isinstance(k, ast.Constant) and isinstance(k.value, str) and k.value.endswith("_id") and "parent" not in k.value}
        if a is None:
            probs.append((c.lineno, f"`{norm(c)[:80]}` leaves `{P}` to its default: the sub-directory's entries hang under the root"))
        elif norm(a) == P:
            probs.append((c.lineno, f"`{norm(c)[:80]}` hands its own `{P}` down: the entries of the sub-directory become siblings of the directory "
                                    f"instead of its children, so `from pkg.mod import f` finds no `mod` below `pkg`"))
        elif own_ids and norm(a) not in own_ids:
            probs.append((c.lineno, f"`{norm(c)[:80]}` passes `{norm(a)}` as `{P}`, not the id recorded for the directory ({sorted(own_ids)})"))
    if not n_calls:
        raise AnalysisError("recursive call of the directory scan not found")
    if probs:
        rep.violation("C12.R6", key, "preparation.py", probs[0][0], f"{scan.qualname}: " + "; ".join(p for _, p in probs))
    else:
        rep.holds("C12.R6", key, "preparation.py", scan.node.lineno, f"{n_calls} recursive call(s) pass the id recorded for the directory as `{P}`")


# ---------------------------------------------------------------- self-test mutants
def _t(old, new, count=1):
    return lambda src: __import__("sa.mutate", fromlist=["x"]).text_replace(src, old, new, count)


MUTANTS = [
    ("latest-declaration-wins", "core/resolver.py",
     _t("nearest_scope_id = max(target_scope_ids)",
        "nearest_scope_id = max(target_scope_ids, key = lambda scope_id: unit_symbol_decl_summary.scope_id_to_symbol_info[scope_id][symbol_name])"),
     "C12.R3"),
    ("re-export-edges-not-followed", "basics/import_hierarchy.py",
     _t("                    children_list = util.graph_successors(self.import_graph, candidate_node.symbol_id)",
        "                    children_list = util.graph_successors_with_weight(self.import_graph, candidate_node.symbol_id, IMPORT_GRAPH_EDGE_KIND.INTERNAL_SYMBOL)"),
     "C12.R4"),
    ("php-comment-newlines-dropped", BASIC, _t("    code = re.sub(r'/\\*.*?\\*/', lambda m: '\\n' * m.group(0).count('\\n'), code, flags=re.DOTALL)", "    code = re.sub(r'/\\*.*?\\*/', '', code, flags=re.DOTALL)"),
     "remove_php_comments"),
    ("php-line-comment-eats-newline", BASIC, _t("    code = re.sub(r'//.*?\\n', '\\n', code)", "    code = re.sub(r'//.*?\\n', '', code)"), "remove_php_comments"),
    ("python-imports-split-into-lines", BASIC, _t("            processed_lines.append('; '.join(new_imports))", "            processed_lines.extend(new_imports)"), "preprocess_python_import_statements"),
    ("python-blank-lines-dropped", BASIC, _t("            # Append the line after processing replacements\n            processed_lines.append(line)",
                                             "            # Append the line after processing replacements\n            if line.strip():\n                processed_lines.append(line)"),
     "preprocess_python_import_statements"),
    ("mock-percent-adds-newline", BASIC, _t("        return f'{a}_1_{b}'", "        return f'{a}_1_\\n{b}'"), "replace_percent_symbol_in_mock"),
    ("external-ids-shared-across-units", "basics/basic_analysis.py",
     _t("        for unit_id in unit_list:\n            external_symbol_id_collection = {}\n", "        external_symbol_id_collection = {}\n        for unit_id in unit_list:\n"),
     "external_symbol_id_collection"),
]
