"""C04 -- every concrete execution of a method is a path in its control-flow graph.

Structural soundness conditions of ``basics/control_flow.ControlFlowAnalysis`` (a structural recursion
over GIR) and of its agreement with what the frontends emit (E2).  DESIGN section 3, C04.
"""
from __future__ import annotations

import ast
from typing import Dict, List, Optional, Set, Tuple

from .. import gir
from ..astutil import is_const
from ..cfg import cfg_of
from ..model import AnalysisError, Func, RepoModel, call_name, const_str, dotted, is_self_attr, norm, walk_no_nested

FILE = "basics/control_flow.py"
DESCRIPTIVE = {"attrs", "type", "supers", "type_parameters", "decorators", "data_type"}
DECL_OPS = {"method_decl", "class_decl", "record_decl", "interface_decl", "struct_decl", "enum_decl"}
# operations that own a block which is correctly executed once, in sequence (reason each)
STRAIGHT_LINE_OK = {
    "with_stmt": "body runs exactly once after the header",
    "namespace_decl": "declaration container; members run once in order",
    "module_decl": "declaration container; members run once in order",
    "enum_decl": "constant declarations run once in order",
    "sync_stmt": "body runs exactly once",
    "unsafe_block": "body runs exactly once",
    "block": "plain nested block",
    "case_stmt": "dispatched by analyze_switch_stmt on the rows of the switch body",
    "default_stmt": "dispatched by analyze_switch_stmt on the rows of the switch body",
    "catch_clause": "dispatched by name inside analyze_try_stmt",
    "parameter_decl": "C attribute list",
    "variable_decl": "C attribute list",
    "union_decl": "C attribute list", "export_stmt": "declaration wrapper",
}


def handler_block_use(h: Func) -> Tuple[Set[str], Set[str], str]:
    """(attributes passed to read_block, attributes listed in boundary_of_multi_blocks, stmt param)."""
    sp = "current_stmt" if "current_stmt" in h.params else (h.params[2] if len(h.params) > 2 else "")
    alias: Dict[str, str] = {}
    for n in walk_no_nested(h.node):
        if isinstance(n, ast.Assign) and len(n.targets) == 1 and isinstance(n.targets[0], ast.Name) \
                and isinstance(n.value, ast.Attribute) and isinstance(n.value.value, ast.Name) and n.value.value.id == sp:
            alias[n.targets[0].id] = n.value.attr

    def attr_of(e) -> Optional[str]:
        if isinstance(e, ast.Attribute) and isinstance(e.value, ast.Name) and e.value.id == sp:
            return e.attr
        if isinstance(e, ast.Name):
            return alias.get(e.id)
        return None

    read, bound = set(), set()
    for n in walk_no_nested(h.node):
        if isinstance(n, ast.Call) and isinstance(n.func, ast.Attribute) and n.func.attr == "read_block" and n.args:
            a = attr_of(n.args[0])
            if a:
                read.add(a)
        if isinstance(n, ast.Call) and isinstance(n.func, ast.Attribute) and n.func.attr == "boundary_of_multi_blocks":
            lst = n.args[-1] if n.args else None
            if isinstance(lst, (ast.List, ast.Tuple)):
                for e in lst.elts:
                    a = attr_of(e)
                    if a:
                        bound.add(a)
    return read, bound, sp


def _is_empty_list(v) -> bool:
    return (isinstance(v, (ast.List, ast.Tuple)) and not v.elts) or (isinstance(v, ast.Call) and isinstance(v.func, ast.Name) and v.func.id == "list" and not v.args)


def run(model: RepoModel, rep, tier: str):
    rep.not_decided = ("that the edge set equals each language's control flow for each construct (where `continue` in a C-style for "
                       "lands, while-else labelling, labelled break/continue, goto), exceptions as implicit edges")
    cfa = model.cls(FILE, "ControlFlowAnalysis")
    reg = gir.find_registry(model, FILE, "ControlFlowAnalysis", "stmt_handlers")
    langs = gir.SEVEN if tier == "quick" else gir.ALL_FRONTENDS
    ems: List[gir.Emission] = []
    for lg, m in gir.frontend_modules(model, langs):
        ems.extend(gir.emissions_in_module(lg, m))
    rep.analysed.update({"cfg handlers": {op: h.name for op, h in reg.handlers.items()}, "emission sites": len(ems)})

    rep.rule("C04.R1", "every body a frontend attaches to a control statement is read into the CFG by that statement's handler and is "
                       "covered by the boundary the handler returns (or laid out before a covered body)", min_instances=60)
    rep.rule("C04.R2", "every operation that owns a body and branches or loops has a CFG handler (or is dispatched by name inside one)", 10)
    rep.rule("C04.R3", "walker discipline: every row of a block is visited exactly once; a negative boundary means 'control does not continue'; a handler that can return a negative "
                       "boundary together with a live frontier must not make the block walker drop the rest of the block", 5)
    rep.rule("C04.R4", "break/continue/return plumbing: loop handlers create a fresh special list, pass it to the body and resolve it; "
                       "return links to the exit and cuts the frontier; analyze() links the final frontier to the exit", 6)
    rep.rule("C04.R6", "frontier conservation: the frontier a sub-block returns is handed on whole -- never filtered, never dropped -- and "
                       "a list of pending statements is not mutated while it is iterated forward", 8)
    rep.rule("C04.R5", "no state leaks through the shared mutable default `special_stmts=[]` of the block walkers", 2)

    seven = set(gir.SEVEN)

    def report(rule, key, lang, *a, **kw):
        (rep.violation if lang in seven else rep.info)(rule, key, *a, **kw)

    # ------------------------------------------------------------------ R1 / R2
    use = {op: handler_block_use(h) for op, h in reg.handlers.items()}
    seen = set()
    for e in ems:
        blocks = [a for a, k in e.attrs.items() if k == "block" and a not in DESCRIPTIVE]
        if not blocks or e.op == "<dynamic>":
            continue
        if e.op in reg.handlers:
            read, bound, _ = use[e.op]
            order = list(e.attrs.keys())
            for a in blocks:
                key = f"{e.lang}::{e.op}::{a}"
                if key in seen:
                    continue
                consumed = a in read or (e.op in DECL_OPS and a in bound)
                if not consumed:
                    seen.add(key)
                    report("C04.R1", key, e.lang, e.rel, e.line,
                           f"{e.lang} ({e.func}) attaches body `{a}` to `{e.op}`, but {reg.handlers[e.op].qualname} never reads it "
                           f"(reads {sorted(read)}): the statements of that body are "
                           + ("skipped" if (a in bound or any(b in bound for b in order[order.index(a) + 1:])) else "walked as straight-line code after the construct")
                           + ", no execution through them is a path of the CFG")
                    continue
                covered = a in bound or any((b in bound and e.attrs.get(b) == "block") for b in order[order.index(a) + 1:])
                if not covered:
                    seen.add(key)
                    report("C04.R1", key + "::boundary", e.lang, e.rel, e.line,
                           f"{e.lang} ({e.func}) lays body `{a}` of `{e.op}` out after every body in the handler's boundary list "
                           f"{sorted(bound)}: after the construct the walker re-enters `{a}` as straight-line code")
                    continue
                seen.add(key)
                rep.holds("C04.R1", key, e.rel, e.line, f"read by {reg.handlers[e.op].name}; inside the returned boundary")
        else:
            key = f"{e.lang}::{e.op}"
            if key in seen:
                continue
            seen.add(key)
            if e.op in STRAIGHT_LINE_OK or e.op in DECL_OPS:
                rep.holds("C04.R2", key, e.rel, e.line, STRAIGHT_LINE_OK.get(e.op, "declaration"))
            else:
                # dispatched by name inside a handler?
                named = any(isinstance(n, ast.Compare) and any(const_str(c) == e.op for c in n.comparators)
                            for f in cfa.methods.values() for n in walk_no_nested(f.node))
                if named:
                    rep.holds("C04.R2", key, e.rel, e.line, "dispatched by name inside a handler")
                else:
                    report("C04.R2", key, e.lang, e.rel, e.line,
                           f"{e.lang} ({e.func}) emits `{e.op}` with bodies {blocks}, but no CFG handler is registered for it and no "
                           f"handler dispatches on its name: its bodies are walked as one straight line (branches not represented)")

    # ------------------------------------------------------------------ R3
    def walker_roles(f):
        """(frontier var, boundary var) of a block walker: the pair unpacked from the call of a handler looked up in self.stmt_handlers."""
        hvars = {n.targets[0].id for n in walk_no_nested(f.node) if isinstance(n, ast.Assign) and isinstance(n.targets[0], ast.Name)
                 and any(is_self_attr(x, "stmt_handlers") for x in ast.walk(n.value))}
        for n in walk_no_nested(f.node):
            if isinstance(n, ast.Assign) and isinstance(n.targets[0], ast.Tuple) and len(n.targets[0].elts) == 2 \
                    and all(isinstance(e, ast.Name) for e in n.targets[0].elts) and isinstance(n.value, ast.Call) \
                    and isinstance(n.value.func, ast.Name) and n.value.func.id in hvars:
                return n.targets[0].elts[0].id, n.targets[0].elts[1].id
        return None
    roles = {f.name: walker_roles(f) for f in cfa.methods.values()}
    walkers = [f for f in cfa.methods.values() if roles[f.name] and any(
        isinstance(n, ast.Compare) and isinstance(n.left, ast.Name) and n.left.id == roles[f.name][1] and isinstance(n.ops[0], ast.Lt)
        for n in walk_no_nested(f.node))]
    if len(walkers) < 1:
        raise AnalysisError("no block walker testing `boundary < 0` found in ControlFlowAnalysis")
    # handlers that may return a negative boundary with a live frontier: boundary comes from boundary_of_multi_blocks (returns -1
    # when no id names a block) and the frontier expression is not the empty list literal
    risky = []
    for op, h in sorted(reg.handlers.items()):
        for r in walk_no_nested(h.node):
            if isinstance(r, ast.Return) and isinstance(r.value, ast.Tuple) and len(r.value.elts) == 2:
                fr, bd = r.value.elts
                empty_frontier = isinstance(fr, ast.List) and not fr.elts
                neg_const = isinstance(bd, ast.UnaryOp) and isinstance(bd.op, ast.USub)
                from_blocks = isinstance(bd, ast.Name) and any(
                    isinstance(n, ast.Assign) and isinstance(n.targets[0], ast.Name) and n.targets[0].id == bd.id
                    and isinstance(n.value, ast.Call) and (call_name(n.value) or "").endswith("boundary_of_multi_blocks")
                    for n in walk_no_nested(h.node))
                if from_blocks and not empty_frontier:
                    risky.append((op, h))
                if neg_const and not empty_frontier:
                    risky.append((op, h))
    risky_names = sorted({h.name for _, h in risky})
    rep.analysed["handlers that can return boundary -1 with a live frontier"] = risky_names
    for w in walkers:
        cfg = cfg_of(w.node)
        key = f"{FILE}::{w.qualname}::negative boundary with live frontier"
        # find the `if boundary < 0` test and what its T-branch does
        tests = [n for n in cfg.g.nodes if cfg.kind[n] == "test" and isinstance(cfg.stmt[n], ast.If)
                 and isinstance(cfg.stmt[n].test, ast.Compare) and isinstance(cfg.stmt[n].test.left, ast.Name)
                 and cfg.stmt[n].test.left.id == roles[w.name][1]]
        if not tests:
            rep.unknown("C04.R3", key, FILE, w.node.lineno, "sentinel test not recognised")
            continue
        t = tests[0]
        tb = cfg.branch_of[(t, "T")]
        # does every path from the T branch to a loop exit pass a test of the frontier (`previous`)?
        frontier_tests = set()
        for n in cfg.g.nodes:
            st = cfg.stmt.get(n)
            if cfg.kind[n] == "test" and isinstance(st, ast.If) and any(isinstance(x, ast.Name) and x.id == roles[w.name][0] for x in ast.walk(st.test)):
                frontier_tests.add(n)
        breaks = [n for n in cfg.reachable(tb) | {tb} if cfg.kind.get(n) == "stmt" and isinstance(cfg.stmt[n], ast.Break)]
        unguarded = [b for b in breaks if cfg.path_avoiding(tb, b, frontier_tests) is not None or b in set(cfg.g.successors(tb))]
        if not risky_names:
            rep.holds("C04.R3", key, FILE, cfg.stmt[t].lineno, "no handler can return a negative boundary with a live frontier")
        elif unguarded and not frontier_tests:
            rep.violation("C04.R3", key, FILE, cfg.stmt[t].lineno,
                          f"{w.qualname} stops walking the block whenever a handler returns boundary < 0, but {risky_names} return "
                          f"boundary_of_multi_blocks(...) == -1 together with a live frontier when the statement has no body "
                          f"(`if (a) {{}}`, `while (p) {{}}`): every statement after it is missing from the CFG")
        else:
            rep.holds("C04.R3", key, FILE, cfg.stmt[t].lineno, "the walker only stops when the frontier is empty; otherwise it steps over the statement")

    # the walker visits every row exactly once: inside its loop the position only moves to `<position> + 1` (a statement without a
    # handler) or to `<boundary> + 1`, and the boundary is what the handler claimed or, for a statement without blocks, the statement's
    # own position -- any other arithmetic skips a row (a statement missing from the CFG) or visits one twice
    for w in walkers:
        fr_v, bd_v = roles[w.name]
        loops_w = [L for L in walk_no_nested(w.node) if isinstance(L, ast.While) and any(
            isinstance(x, ast.Assign) and isinstance(x.targets[0], ast.Tuple) and any(isinstance(e, ast.Name) and e.id == bd_v for e in x.targets[0].elts)
            for x in ast.walk(L))]
        key = f"{FILE}::{w.qualname}::the position advances by exactly what was handled"
        if not loops_w or not (isinstance(loops_w[0].test, ast.Compare) and isinstance(loops_w[0].test.left, ast.Name)):
            rep.unknown("C04.R3", key, FILE, w.node.lineno, "walker loop not recognised")
            continue
        L = loops_w[0]
        pos_v = L.test.left.id
        bad = []
        for x in ast.walk(L):
            if isinstance(x, ast.Assign) and len(x.targets) == 1 and isinstance(x.targets[0], ast.Name):
                t_, v_ = x.targets[0].id, norm(x.value)
                if t_ == bd_v and v_ != pos_v:
                    bad.append((x.lineno, f"`{norm(x)}`: a statement without blocks ends at its own position `{pos_v}`"))
                if t_ == pos_v and v_ not in (f"{bd_v} + 1", f"1 + {bd_v}", f"{pos_v} + 1", f"1 + {pos_v}"):
                    bad.append((x.lineno, f"`{norm(x)}`: the next position is `{bd_v} + 1` or `{pos_v} + 1`"))
            if isinstance(x, ast.AugAssign) and isinstance(x.target, ast.Name) and x.target.id in (pos_v, bd_v):
                if not (x.target.id == pos_v and isinstance(x.op, ast.Add) and isinstance(x.value, ast.Constant) and x.value.value == 1):
                    bad.append((x.lineno, f"`{norm(x)}`: the position moves one row at a time"))
        if bad:
            rep.violation("C04.R3", key, FILE, bad[0][0], f"{w.qualname}: " + "; ".join(b for _, b in bad)
                          + " -- a row of the block is skipped (the statement is no CFG node and has no edges) or handled twice")
        else:
            rep.holds("C04.R3", key, FILE, L.lineno, f"position `{pos_v}` moves to `{pos_v} + 1` or `{bd_v} + 1`; `{bd_v}` is a handler result or `{pos_v}`")

    # the extent of a statement with several blocks is the LARGEST end over all its blocks, in whatever order the caller lists them
    # (frontends lay a class out as methods-then-fields, the handler lists fields-then-methods): the helper keeps a running maximum
    gb = model.module("util/gir_block.py").classes.get("GIRBlockViewer") if "util/gir_block.py" in model.modules else None
    bm = gb.methods.get("boundary_of_multi_blocks") if gb else None
    if bm is None:
        raise AnalysisError("GIRBlockViewer.boundary_of_multi_blocks vanished")
    key = "util/gir_block.py::GIRBlockViewer.boundary_of_multi_blocks::running maximum over all listed blocks"
    rets = [r.value.id for r in walk_no_nested(bm.node) if isinstance(r, ast.Return) and isinstance(r.value, ast.Name)]
    bcfg = cfg_of(bm.node)
    bad = None
    n_upd = 0
    for n_ in bcfg.g.nodes:
        st_ = bcfg.stmt.get(n_)
        if bcfg.kind[n_] == "stmt" and isinstance(st_, ast.Assign) and len(st_.targets) == 1 and isinstance(st_.targets[0], ast.Name) \
                and st_.targets[0].id in rets and any(n_ in body for body in bcfg.loop_body_nodes.values()):
            n_upd += 1
            R, V = st_.targets[0].id, st_.value
            if isinstance(V, ast.Call) and call_name(V) == "max" and any(isinstance(a, ast.Name) and a.id == R for a in V.args):
                continue
            guarded = False
            for atom, truth in bcfg.conditions_at(n_):
                if isinstance(atom, ast.Compare) and len(atom.ops) == 1:
                    l, r, op = norm(atom.left), norm(atom.comparators[0]), atom.ops[0]
                    if {l, r} == {norm(V), R}:
                        greater = (l == norm(V) and isinstance(op, (ast.Gt, ast.GtE))) or (r == norm(V) and isinstance(op, (ast.Lt, ast.LtE)))
                        if greater == truth:
                            guarded = True
            if not guarded:
                bad = st_
    if bad is not None:
        rep.violation("C04.R3", key, "util/gir_block.py", bad.lineno,
                      f"`{norm(bad)}` replaces the result without comparing it with what was found so far: the helper returns the end of the LAST "
                      f"listed block that exists, not the largest end -- when a frontend lays the blocks out in another order than the handler "
                      f"lists them (a Python class: methods before fields) the walker resumes inside the statement and walks one of its blocks "
                      f"as straight-line code of the enclosing method")
    elif n_upd:
        rep.holds("C04.R3", key, "util/gir_block.py", bm.node.lineno, "every update of the result is a maximum with the previous result")
    else:
        rep.unknown("C04.R3", key, "util/gir_block.py", bm.node.lineno, "no update of the returned variable inside a loop recognised")

    # ------------------------------------------------------------------ R4
    dl = cfa.methods.get("deal_with_last_stmts_of_loop_body")
    if dl is None:
        raise AnalysisError("deal_with_last_stmts_of_loop_body vanished")
    resolved_ops = {const_str(c) for n in walk_no_nested(dl.node) if isinstance(n, ast.Compare) for c in n.comparators if const_str(c)}
    pushers = {}
    for op, h in reg.handlers.items():
        sp = h.params[-1]
        for n in walk_no_nested(h.node):
            if isinstance(n, ast.Call) and isinstance(n.func, ast.Attribute) and n.func.attr == "append" \
                    and isinstance(n.func.value, ast.Name) and n.func.value.id == sp and n.args \
                    and isinstance(n.args[0], ast.Name) and n.args[0].id in h.params:
                pushers[op] = h
    key = f"{FILE}::special statements pushed == resolved"
    if set(pushers) == resolved_ops and pushers:
        rep.holds("C04.R4", key, FILE, dl.node.lineno, f"pushed {sorted(pushers)} == dispatched {sorted(resolved_ops)}")
    else:
        rep.violation("C04.R4", key, FILE, dl.node.lineno,
                      f"operations pushed on the special list {sorted(pushers)} differ from those deal_with_last_stmts_of_loop_body "
                      f"resolves {sorted(resolved_ops)}: a break/continue is never connected to its loop")
    loop_handlers = sorted({h.name for op, h in reg.handlers.items() if op in ("while_stmt", "dowhile_stmt", "for_stmt", "forin_stmt", "for_value_stmt")})
    for hn in loop_handlers:
        h = cfa.methods[hn]
        cfg = cfg_of(h.node)
        key = f"{FILE}::{h.qualname}::fresh special list, passed to body, resolved"
        # by role: an empty-list local that is handed to the resolver of pending break/continue statements
        resolver_args = {a.id for c in walk_no_nested(h.node) if isinstance(c, ast.Call) and is_self_attr(c.func, dl.name)
                         for a in list(c.args) + [k.value for k in c.keywords] if isinstance(a, ast.Name)}
        fresh = [n.targets[0].id for n in walk_no_nested(h.node) if isinstance(n, ast.Assign) and isinstance(n.targets[0], ast.Name)
                 and isinstance(n.value, ast.List) and not n.value.elts and n.targets[0].id in resolver_args]
        probs = []
        if not fresh:
            probs.append("no fresh special-statement list is created for the loop")
        else:
            fv = fresh[0]
            # the variable holding the loop body: X = self.read_block(<current_stmt.body>)
            read_attrs, _, sp = handler_block_use(h)
            alias = {n.targets[0].id: n.value.attr for n in walk_no_nested(h.node)
                     if isinstance(n, ast.Assign) and isinstance(n.targets[0], ast.Name) and isinstance(n.value, ast.Attribute)
                     and isinstance(n.value.value, ast.Name) and n.value.value.id == sp}
            body_vars = set()
            for n in walk_no_nested(h.node):
                if isinstance(n, ast.Assign) and isinstance(n.targets[0], ast.Name) and isinstance(n.value, ast.Call) \
                        and is_self_attr(n.value.func, "read_block") and n.value.args:
                    a0 = n.value.args[0]
                    attr = a0.attr if isinstance(a0, ast.Attribute) else alias.get(getattr(a0, "id", None))
                    if attr == "body":
                        body_vars.add(n.targets[0].id)
            def is_body_arg(a) -> bool:
                """the loop body, either through a local bound to read_block(<body>) or as that call itself"""
                if isinstance(a, ast.Name):
                    return a.id in body_vars
                if isinstance(a, ast.Call) and is_self_attr(a.func, "read_block") and a.args:
                    a0_ = a.args[0]
                    return (a0_.attr if isinstance(a0_, ast.Attribute) else alias.get(getattr(a0_, "id", None))) == "body"
                return False
            all_body_calls = [n for n in walk_no_nested(h.node) if isinstance(n, ast.Call) and is_self_attr(n.func, "analyze_block")
                              and n.args and is_body_arg(n.args[0])]
            body_calls = [n for n in all_body_calls if any(isinstance(a, ast.Name) and a.id == fv for a in n.args)]
            if not all_body_calls:
                probs.append("the loop body is not analysed")
            elif len(body_calls) != len(all_body_calls):
                probs.append("the loop body is not analysed with the loop's own special list: break/continue inside it escape to an outer loop")
            dcalls = [n for n in cfg.g.nodes for c in cfg.calls_at(n) if is_self_attr(c.func, dl.name)
                      and any(isinstance(a, ast.Name) and a.id == fv for a in c.args)]
            if not dcalls:
                probs.append(f"{dl.name} is not called with the loop's special list")
            elif cfg.path_avoiding(cfg.ENTRY, cfg.EXIT, set(dcalls)) is not None:
                probs.append(f"a path returns from the handler without calling {dl.name}")
        if probs:
            rep.violation("C04.R4", key, FILE, h.node.lineno, f"{h.qualname}: " + "; ".join(probs))
        else:
            rep.holds("C04.R4", key, FILE, h.node.lineno, "fresh list -> analyze_block(body, ..., list) -> deal_with_last_stmts_of_loop_body on every path")
    # unresolved entries are forwarded outward
    key = f"{FILE}::{dl.qualname}::unresolved specials forwarded"
    fwd = any(isinstance(n, ast.Call) and isinstance(n.func, ast.Attribute) and n.func.attr == "extend"
              and isinstance(n.func.value, ast.Name) and n.func.value.id in dl.params for n in walk_no_nested(dl.node))
    (rep.holds if fwd else rep.violation)("C04.R4", key, FILE, dl.node.lineno,
                                          "global_special_stmts.extend(special_stmts)" if fwd else
                                          "unresolved special statements are not forwarded to the enclosing construct")
    # return: edge to -1, empty frontier
    rh = reg.handlers.get("return_stmt")
    key = f"{FILE}::return links to exit and cuts the frontier"
    if rh is None:
        rep.violation("C04.R4", key, FILE, cfa.node.lineno, "no CFG handler for return_stmt: code after a return is linked as reachable")
    else:
        edge = any(isinstance(n, ast.Call) and isinstance(n.func, ast.Attribute) and n.func.attr == "add_edge" and len(n.args) >= 2
                   and isinstance(n.args[1], ast.UnaryOp) and is_const(n.args[1].operand, 1) for n in walk_no_nested(rh.node))
        rets = [n for n in walk_no_nested(rh.node) if isinstance(n, ast.Return)]
        cut = all(isinstance(r.value, ast.Tuple) and isinstance(r.value.elts[0], ast.List) and not r.value.elts[0].elts
                  and isinstance(r.value.elts[1], ast.UnaryOp) for r in rets) and rets
        if edge and cut:
            rep.holds("C04.R4", key, FILE, rh.node.lineno, "add_edge(stmt, -1, RETURN); return ([], -1)")
        else:
            rep.violation("C04.R4", key, FILE, rh.node.lineno,
                          f"{rh.qualname}: " + ("no edge to the exit node -1; " if not edge else "") + ("the frontier is not cut after a return" if not cut else ""))
    # break / continue cut the frontier too
    for op in ("break_stmt", "continue_stmt"):
        h = reg.handlers.get(op)
        key = f"{FILE}::{op} cuts the frontier"
        if h is None:
            rep.violation("C04.R4", key, FILE, cfa.node.lineno, f"no CFG handler for {op}")
            continue
        rets = [n for n in walk_no_nested(h.node) if isinstance(n, ast.Return)]
        cut = all(isinstance(r.value, ast.Tuple) and isinstance(r.value.elts[0], ast.List) and not r.value.elts[0].elts for r in rets) and rets
        (rep.holds if cut else rep.violation)("C04.R4", key, FILE, h.node.lineno,
                                              "returns an empty frontier" if cut else f"{h.qualname} lets control fall through a {op}")
    # analyze(): final frontier -> -1
    an = cfa.methods.get("analyze")
    key = f"{FILE}::ControlFlowAnalysis.analyze::final frontier linked to exit"
    ok = an is not None and any(isinstance(n, ast.Call) and isinstance(n.func, ast.Attribute) and n.func.attr == "add_edge" and len(n.args) >= 2
                                and isinstance(n.args[1], ast.UnaryOp) and is_const(n.args[1].operand, 1) for n in walk_no_nested(an.node))
    (rep.holds if ok else rep.violation)("C04.R4", key, FILE, an.node.lineno if an else 1,
                                         "add_edge(last_stmts_of_body_block, -1)" if ok else "fall-through at the end of the method never reaches the exit node")

    # ------------------------------------------------------------------ R6
    handler_funcs = sorted({h.name for h in reg.handlers.values()} | {dl.name})
    for hn in handler_funcs:
        h = cfa.methods[hn]
        frontier_vars = set()
        for n in walk_no_nested(h.node):
            if isinstance(n, ast.Assign) and isinstance(n.value, ast.Call) and is_self_attr(n.value.func) \
                    and n.value.func.attr in ("analyze_block", "analyze_init_block", dl.name):
                for t in n.targets:
                    if isinstance(t, ast.Name):
                        frontier_vars.add(t.id)
        if hn == dl.name:
            frontier_vars |= {p for p in h.params if "stmts" in p}
        changed = True
        while changed:   # names derived from frontiers by + / comprehension / slicing
            changed = False
            for n in walk_no_nested(h.node):
                if isinstance(n, ast.Assign) and len(n.targets) == 1 and isinstance(n.targets[0], ast.Name) and n.targets[0].id not in frontier_vars:
                    if any(isinstance(x, ast.Name) and x.id in frontier_vars for x in ast.walk(n.value)) \
                            and isinstance(n.value, (ast.BinOp, ast.ListComp, ast.Name, ast.Subscript)):
                        frontier_vars.add(n.targets[0].id)
                        changed = True
        probs = []
        # (d) an empty frontier must stay empty: `analyze_block(...) or <something>` resurrects control flow out of a sub-block
        #     that ended in return/break/continue
        for n in walk_no_nested(h.node):
            if isinstance(n, (ast.BoolOp, ast.IfExp)):
                parts = n.values if isinstance(n, ast.BoolOp) else [n.body, n.orelse, n.test]
                if any(isinstance(x, ast.Call) and is_self_attr(x.func) and x.func.attr in ("analyze_block", "analyze_init_block", dl.name) for x in parts):
                    probs.append((n.lineno, f"`{norm(n)[:110]}` replaces the frontier a sub-block returns when it is empty: an empty frontier "
                                            f"means the sub-block never falls through (it ended in return/break/continue); substituting another "
                                            f"frontier adds an edge from before the sub-block to whatever follows the statement"))
                    for a in walk_no_nested(h.node):
                        if isinstance(a, ast.Assign) and a.value is n:
                            frontier_vars |= {t.id for t in a.targets if isinstance(t, ast.Name)}
        if not frontier_vars and not probs:
            continue
        # (a) filtered comprehension over a frontier
        for n in walk_no_nested(h.node):
            if isinstance(n, (ast.ListComp, ast.GeneratorExp, ast.SetComp)):
                for g in n.generators:
                    if g.ifs and any(isinstance(x, ast.Name) and x.id in frontier_vars for x in ast.walk(g.iter)):
                        # the one legitimate filter: the loop-false exit is taken out because the loop's else body, which is entered
                        # from the loop statement and whose own exits are added, takes its place
                        only_loop_false = all(isinstance(c_, ast.UnaryOp) and isinstance(c_.op, ast.Not)
                                              and any(isinstance(x, ast.Attribute) and x.attr == "LOOP_FALSE" for x in ast.walk(c_)) for c_ in g.ifs)
                        reads_else = any(isinstance(x, ast.Attribute) and x.attr == "else_body" for x in walk_no_nested(h.node))
                        if only_loop_false and reads_else:
                            continue
                        probs.append((n.lineno, f"`{norm(n)}` filters a frontier: the filtered-out statements get no edge to what follows"))
        # (b) a frontier that is never read
        loops_in_h = [x for x in walk_no_nested(h.node) if isinstance(x, (ast.For, ast.While))]
        for v in sorted(frontier_vars):
            reads = [x for x in walk_no_nested(h.node) if isinstance(x, ast.Name) and x.id == v and isinstance(x.ctx, ast.Load)]
            assigns = [x for x in walk_no_nested(h.node) if isinstance(x, ast.Assign) and any(isinstance(t, ast.Name) and t.id == v for t in x.targets)]
            if v in h.params and not assigns:
                if not reads:
                    probs.append((h.node.lineno, f"the incoming frontier `{v}` is never linked to anything"))
                continue
            if not assigns:
                continue
            last = max(assigns, key=lambda a: a.end_lineno)
            later = [r for r in reads if r.lineno > last.end_lineno]
            in_same_loop = any(any(y is last for y in ast.walk(lp)) and any(any(y is r for y in ast.walk(lp)) for r in reads) for lp in loops_in_h)
            if not later and not in_same_loop:
                probs.append((last.lineno, f"the frontier `{v}` (last assigned at line {last.lineno}) is not used afterwards: control leaving that "
                                           f"sub-block goes nowhere"))
        # (e) path-sensitive form of (b): on EVERY path from the point where a frontier is obtained to the handler's exit (or to the
        #     point where the variable is overwritten) the frontier is read -- linked, passed on as a parent list, merged into another
        #     frontier or returned.  A frontier that is only read on some paths leaves the exits of that sub-block dangling on the others.
        hcfg = cfg_of(h.node)
        use_nodes: Dict[str, Set[int]] = {}
        def_nodes: Dict[str, Set[int]] = {}
        for n_ in hcfg.g.nodes:
            for e_ in hcfg.exprs_at(n_):
                for x in ast.walk(e_):
                    if isinstance(x, ast.Name) and x.id in frontier_vars:
                        (use_nodes if isinstance(x.ctx, ast.Load) else def_nodes).setdefault(x.id, set()).add(n_)
            # `v += more` reads v (the old frontier stays part of the new one): a use, not an overwrite
            st_aug = hcfg.stmt.get(n_)
            if isinstance(st_aug, ast.AugAssign) and isinstance(st_aug.target, ast.Name) and st_aug.target.id in frontier_vars and isinstance(st_aug.op, ast.Add):
                use_nodes.setdefault(st_aug.target.id, set()).add(n_)
                def_nodes.get(st_aug.target.id, set()).discard(n_)
        for v in sorted(frontier_vars):
            if v in h.params:
                continue
            for d_ in sorted(def_nodes.get(v, ())):
                st_ = hcfg.stmt.get(d_)
                if not isinstance(st_, ast.Assign):
                    continue
                # obligations arise where a frontier comes back from a sub-block or is derived from one, not from `[current_stmt]`
                if not any((isinstance(x, ast.Call) and is_self_attr(x.func) and x.func.attr in ("analyze_block", "analyze_init_block", dl.name))
                           or (isinstance(x, ast.Name) and x.id in frontier_vars and isinstance(x.ctx, ast.Load)) for x in ast.walk(st_.value)):
                    continue
                if not hcfg.is_reachable(d_):
                    continue
                uses_ = use_nodes.get(v, set()) - {d_}
                targets_ = [hcfg.EXIT] + sorted(def_nodes[v] - {d_})
                for t_ in targets_:
                    path = hcfg.path_avoiding(d_, t_, uses_ | (def_nodes[v] - {d_, t_}))
                    if path is not None and not (t_ != hcfg.EXIT and t_ in use_nodes.get(v, set())):
                        where = "the handler returns" if t_ == hcfg.EXIT else f"`{v}` is overwritten at line {hcfg.stmt[t_].lineno}"
                        probs.append((st_.lineno, f"the frontier `{v}` obtained at line {st_.lineno} is not read on the path "
                                                  f"{' -> '.join(hcfg.describe_path(path)[:8])} before {where}: the statements that end that "
                                                  f"sub-block get no successor on that path"))
                        break
        # (c) forward iteration over a list the loop body mutates
        for n in walk_no_nested(h.node):
            if isinstance(n, ast.For) and isinstance(n.iter, ast.Name):
                L = n.iter.id
                for x in ast.walk(n):
                    if isinstance(x, ast.Call) and isinstance(x.func, ast.Attribute) and isinstance(x.func.value, ast.Name) and x.func.value.id == L \
                            and x.func.attr in ("remove", "pop", "insert", "clear"):
                        probs.append((x.lineno, f"`{norm(x)}` mutates `{L}` while `for {norm(n.target)} in {L}` iterates it forward: the element "
                                                f"after each removal is skipped (every second break/continue stays unresolved)"))
                    if isinstance(x, ast.Delete) and any(isinstance(t, ast.Subscript) and isinstance(t.value, ast.Name) and t.value.id == L for t in x.targets):
                        probs.append((x.lineno, f"`{norm(x)}` deletes from `{L}` while it is iterated forward"))
            if isinstance(n, ast.For) and isinstance(n.iter, ast.Call) and call_name(n.iter) == "range" and n.iter.args \
                    and isinstance(n.iter.args[-1], ast.Call) and call_name(n.iter.args[-1]) == "len":
                L = n.iter.args[-1].args[0].id if n.iter.args[-1].args and isinstance(n.iter.args[-1].args[0], ast.Name) else None
                for x in ast.walk(n):
                    if L and isinstance(x, ast.Delete) and any(isinstance(t, ast.Subscript) and isinstance(t.value, ast.Name) and t.value.id == L for t in x.targets):
                        probs.append((x.lineno, f"`{norm(x)}` inside a forward `range(len({L}))` loop skips the element after each deletion"))
        key = f"{FILE}::{h.qualname}::frontiers handed on whole"
        if probs:
            rep.violation("C04.R6", key, FILE, probs[0][0], f"{h.qualname}: " + "; ".join(p for _, p in probs))
        else:
            rep.holds("C04.R6", key, FILE, h.node.lineno, f"{len(frontier_vars)} frontier variable(s); no filter, no drop, no mutation under forward iteration")

    # every body analysed by a handler gets a special-statement list (the handler's own parameter or a fresh one it resolves):
    # without it the walker falls back to its shared default list and a break/continue inside that body is never connected
    for hn in sorted({h.name for h in reg.handlers.values()}):
        h = cfa.methods[hn]
        calls = [c for c in walk_no_nested(h.node) if isinstance(c, ast.Call) and is_self_attr(c.func) and c.func.attr in ("analyze_block", "analyze_init_block")]
        if not calls:
            continue
        short = [c for c in calls if len(c.args) < 3 and not any(k.arg and "special" in k.arg for k in c.keywords)]
        key = f"{FILE}::{h.qualname}::every analysed body receives a special-statement list"
        if short:
            rep.violation("C04.R4", key, FILE, short[0].lineno,
                          f"{h.qualname} analyses a body with `{norm(short[0])[:90]}` and passes no special-statement list: a break/continue/"
                          f"return-like statement inside that body is pushed on the walker's shared default list, which nobody resolves -- it "
                          f"gets no edge to the statement after the enclosing loop")
        else:
            rep.holds("C04.R4", key, FILE, h.node.lineno, f"{len(calls)} body call(s), each with a special-statement list")

    # ------------------------------------------------------------------ R8 protocols between the loop resolver and its callers
    rep.rule("C04.R8", "list protocols of the CFG builder: a frontier handed to a handler is never mutated in place (it belongs to the caller, "
                       "or is the shared default list of the block walkers), and the loop resolver appends the loop-false exit last, which is "
                       "what its caller pops when the loop has an else body", 8)
    MUT = ("append", "extend", "insert", "pop", "remove", "clear", "sort", "reverse")
    for f in cfa.methods.values():
        # frontier parameters by role: passed as the parents to link_parent_stmts_to_current_stmt, or as the frontier of analyze_block
        fps = set()
        # plain aliases of a parameter (`previous = parent_stmts`) are the same list
        alias_of = {n.targets[0].id: n.value.id for n in walk_no_nested(f.node) if isinstance(n, ast.Assign) and isinstance(n.targets[0], ast.Name)
                    and isinstance(n.value, ast.Name) and n.value.id in f.params}
        for c in walk_no_nested(f.node):
            if isinstance(c, ast.Call) and is_self_attr(c.func):
                for i_, a_ in enumerate(c.args[:2]):
                    if isinstance(a_, ast.Name) and a_.id in alias_of and ((c.func.attr == "link_parent_stmts_to_current_stmt" and i_ == 0)
                                                                            or (c.func.attr in ("analyze_block", "analyze_init_block") and i_ == 1)):
                        fps.add(alias_of[a_.id])
                        fps.add(a_.id)
                if c.func.attr == "link_parent_stmts_to_current_stmt" and c.args and isinstance(c.args[0], ast.Name) and c.args[0].id in f.params:
                    fps.add(c.args[0].id)
                if c.func.attr in ("analyze_block", "analyze_init_block") and len(c.args) > 1 and isinstance(c.args[1], ast.Name) and c.args[1].id in f.params:
                    fps.add(c.args[1].id)
        if not fps:
            continue
        bad = []
        for n in walk_no_nested(f.node):
            if isinstance(n, ast.Call) and isinstance(n.func, ast.Attribute) and n.func.attr in MUT and isinstance(n.func.value, ast.Name) and n.func.value.id in fps:
                bad.append(n)
            if isinstance(n, ast.AugAssign) and isinstance(n.target, ast.Name) and n.target.id in fps:
                bad.append(n)
            if isinstance(n, ast.Delete) and any(isinstance(t, ast.Subscript) and isinstance(t.value, ast.Name) and t.value.id in fps for t in n.targets):
                bad.append(n)
            if isinstance(n, ast.Assign) and any(isinstance(t, ast.Subscript) and isinstance(t.value, ast.Name) and t.value.id in fps for t in n.targets):
                bad.append(n)
        key = f"{FILE}::{f.qualname}::the incoming frontier is not mutated"
        if bad:
            rep.violation("C04.R8", key, FILE, bad[0].lineno,
                          f"{f.qualname} changes the frontier list it was given in place (`{norm(bad[0])[:80]}`): the list belongs to the caller -- "
                          f"for a method without parameters it is the shared default `[]` of the block walker -- so the added node leaks into "
                          f"the statements analysed afterwards (edges from this statement into other blocks or other methods)")
        else:
            rep.holds("C04.R8", key, FILE, f.node.lineno, f"frontier parameter(s) {sorted(fps)} only read / copied")
    # the loop-false exit is the last thing added to the resolver's result
    dcfg = cfg_of(dl.node)
    rets = {x.id for n in walk_no_nested(dl.node) if isinstance(n, ast.Return) and n.value is not None for x in ast.walk(n.value) if isinstance(x, ast.Name)}
    muts = [n for n in dcfg.g.nodes for c in dcfg.calls_at(n) if isinstance(c.func, ast.Attribute) and c.func.attr in ("append", "extend", "insert")
            and isinstance(c.func.value, ast.Name) and c.func.value.id in rets]
    lf = [n for n in muts for c in dcfg.calls_at(n) if any(isinstance(x, ast.Attribute) and x.attr == "LOOP_FALSE" for x in ast.walk(c))]
    consumers = [(f, c) for f in cfa.methods.values() for c in walk_no_nested(f.node)
                 if isinstance(c, ast.Call) and isinstance(c.func, ast.Attribute) and c.func.attr == "pop" and not c.args and isinstance(c.func.value, ast.Name)
                 and any(isinstance(a, ast.Assign) and isinstance(a.targets[0], ast.Name) and a.targets[0].id == c.func.value.id
                         and isinstance(a.value, ast.Call) and is_self_attr(a.value.func, dl.name) for a in walk_no_nested(f.node))]
    key = f"{FILE}::{dl.qualname}::the loop-false exit is appended last"
    if not consumers:
        rep.holds("C04.R8", key, FILE, dl.node.lineno, "no caller pops the resolver's result by position")
    elif not lf:
        rep.unknown("C04.R8", key, FILE, dl.node.lineno, "the loop-false exit is not appended to the returned list in a recognised way")
    else:
        later = [m_ for m_ in muts if m_ not in lf and any(m_ in dcfg.reachable(l) for l in lf)]
        front = [c for l in lf for c in dcfg.calls_at(l) if isinstance(c.func, ast.Attribute) and c.func.attr == "insert"]
        # a path that returns the result without the loop-false exit (constant-true condition): the popped element is something else
        skipping = dcfg.path_avoiding(dcfg.ENTRY, dcfg.EXIT, set(lf))
        if skipping is not None and not (later or front):
            rets_ = [n_ for n_ in skipping if dcfg.kind.get(n_) == "stmt" and isinstance(dcfg.stmt.get(n_), ast.Return)]
            w = rets_[-1] if rets_ else lf[0]
            rep.violation("C04.R8", key, FILE, dcfg.stmt[w].lineno,
                          f"{consumers[0][0].name} removes the loop-false exit from the resolver's result with pop() (the last element), but "
                          f"{dl.name} can return without having added one (line {dcfg.stmt[w].lineno}: a constant-true loop condition): for "
                          f"`while True: ... else:` a break is popped and loses its only outgoing edge, or pop() fails on an empty list")
        elif later or front:
            w = later[0] if later else lf[0]
            rep.violation("C04.R8", key, FILE, dcfg.stmt[w].lineno,
                          f"{consumers[0][0].name} removes the loop-false exit from the resolver's result with pop() (the last element), but "
                          f"{dl.name} adds other nodes after it (line {dcfg.stmt[w].lineno}): for a loop with an else body a `break` is popped "
                          f"instead and loses its only outgoing edge")
        else:
            rep.holds("C04.R8", key, FILE, dcfg.stmt[lf[0]].lineno, f"nothing is added to the result after the LOOP_FALSE node; popped by {consumers[0][0].name}")

    from ..generic3 import check_enum_distinct, check_repeated_fields
    check_enum_distinct(model, rep, "C04.R8", "config/constants.py", ["CONTROL_FLOW_KIND"])
    rep.rule("C04.R10", "every part of a loop header reaches the GIR: a field of a control statement that the grammar lets repeat (the update expressions "
                        "and initialisers of a C-style for) is read with the plural accessor", 8)
    check_repeated_fields(model, rep, "C04.R10", only_handlers=("for_statement", "while_statement", "if_statement", "do_statement", "switch_statement", "try_statement"))
    from .. import generic4
    rep.rule("C04.R11", "a goto keeps the edge to its own label: the fix-up takes the target from a scan over the collected labels, not from a "
                        "single-valued table keyed by the label name (names repeat in nested function literals)", 1)
    generic4.check_goto_label_scan(model, rep, "C04.R11")
    from .. import generic7
    rep.rule("C04.R12", "a switch without default can be left without entering a case: the switch statement joins the frontier its handler returns", 1)
    generic7.check_switch_no_match_exit(model, rep, "C04.R12")
    from .. import generic8
    rep.rule("C04.R13", "in a C-style for a continue of the body runs the update part: the body's continue statements join the frontier handed to "
                        "the analysis of the update block", 1)
    generic8.check_for_continue_runs_update(model, rep, "C04.R13")
    rep.rule("C04.R14", "a continue inside a switch belongs to the enclosing loop: only the break statements of the case bodies join the frontier "
                        "behind the switch, the rest of the special list is handed to the caller", 1)
    generic8.check_switch_forwards_continue(model, rep, "C04.R14")
    # ------------------------------------------------------------------ R9 every clause of a control statement reaches the GIR
    from .. import generic2
    CONTROL_KEYS = ("if_stmt", "while_stmt", "dowhile_stmt", "for_stmt", "forin_stmt", "for_value_stmt", "try_stmt", "catch_clause", "switch_stmt",
                    "case_stmt", "default_stmt", "with_stmt", "match_stmt", "elif_clause", "else_clause", "finally_clause", "catch_body", "final_body")
    rep.rule("C04.R9", "every clause of a control statement reaches the GIR: what a frontend computes for each clause in a loop over the clauses "
                       "(one catch clause, one case, one elif arm) is attached inside that iteration, not once after the loop for the last clause only", 12)
    generic2.check_per_iteration_values(model, rep, "C04.R9", [m.rel for lg, m in gir.frontend_modules(model, langs)],
                                        func_filter=generic2.emits(CONTROL_KEYS))

    # ------------------------------------------------------------------ R7 (cross-cutting accumulator discipline, sa/generic.py)
    from ..generic import check_accumulators
    check_accumulators(model, rep, "C04.R7", [FILE], C04_ADJUDICATED,
                       "the statements whose frontier was not collected get no outgoing edge, so an execution that leaves them has no path in the CFG", 3)

    # ------------------------------------------------------------------ R5
    # The walkers take ``special_stmts=[]``.  analyze() relies on that default, so stray break/continue statements
    # accumulate in a list shared by every method analysed in the process.  That is inert as long as the walkers hand the
    # list on only as the *outer* list of a handler (nobody resolves entries of it); it becomes order dependence the
    # moment a walker or a top-level caller consumes it.
    for w in cfa.methods.values():
        defaults = w.node.args.defaults
        params = w.params[len(w.params) - len(defaults):]
        for p, d in zip(params, defaults):
            if isinstance(d, ast.List) and "special" in p:
                key = f"{FILE}::{w.qualname}::default {p}=[] is never consumed"
                uses = [n for n in walk_no_nested(w.node) if isinstance(n, ast.Name) and n.id == p and isinstance(n.ctx, ast.Load)]
                bad = []
                parents = {}
                for x in ast.walk(w.node):
                    for c in ast.iter_child_nodes(x):
                        parents[id(c)] = x
                for u in uses:
                    par = parents.get(id(u))
                    hv = {n.targets[0].id for n in walk_no_nested(w.node) if isinstance(n, ast.Assign) and isinstance(n.targets[0], ast.Name)
                          and any(is_self_attr(x, "stmt_handlers") for x in ast.walk(n.value))}
                    ok = isinstance(par, ast.Call) and u in par.args and isinstance(par.func, ast.Name) and par.func.id in hv \
                        and par.args and par.args[-1] is u
                    if not ok:
                        bad.append(u)
                if not bad:
                    rep.holds("C04.R5", key, FILE, w.node.lineno,
                              f"`{p}` is only forwarded as the outer list of the dispatched handler ({len(uses)} uses); entries are never resolved from it")
                else:
                    rep.violation("C04.R5", key, FILE, bad[0].lineno,
                                  f"{w.qualname} consumes its `{p}` argument (`{norm(parents.get(id(bad[0])))}`) although callers rely on the shared "
                                  f"mutable default: break/continue statements left over from one method change the edges of the next")


# ---------------------------------------------------------------- self-test mutants
def _mut_expr(cls, func, pred, new, nth=0, rel=FILE):
    def m(src):
        from ..mutate import replace_expr_where
        return replace_expr_where(src, cls, func, pred, new, nth)
    return m


def _mut_del(cls, func, pred, nth=0):
    def m(src):
        from ..mutate import delete_stmt_where
        return delete_stmt_where(src, cls, func, pred, nth)
    return m


def _is_attr(name):
    return lambda e: isinstance(e, ast.Attribute) and e.attr == name


from .c02 import _rename_attr, _rename_op  # noqa: E402  (shared AST-located frontend mutators)

C04_ADJUDICATED = {
    "basics/control_flow.py::ControlFlowAnalysis.analyze_init_block::`last_parameter_init_stmts`::break under `not previous`":
        "a handler returned a negative boundary with an empty frontier: the block ended in return/break/continue, nothing follows (fix fe58859)",
    "basics/control_flow.py::ControlFlowAnalysis.analyze_init_block::`last_parameter_decl_stmts`::break under `not previous`":
        "same statement as above (the loop grows two frontiers)",
}

MUTANTS = [
    ("for-continue-skips-update", FILE,
     lambda src: __import__("sa.mutate", fromlist=["x"]).text_replace(src, "            last_stmts = last_stmts + [CFGNode(stmt, CONTROL_FLOW_KIND.CONTINUE) for stmt in continue_stmts]\n", "            new_special_stmts = new_special_stmts + continue_stmts\n"),
     "C04.R13"),
    ("switch-frontier-takes-whole-special-list", FILE,
     lambda src: __import__("sa.mutate", fromlist=["x"]).text_replace(src, "        last_stmts = last_stmts_of_previous_body + [stmt for stmt in special_stmts if stmt.operation == \"break_stmt\"]", "        last_stmts = last_stmts_of_previous_body + special_stmts"),
     "C04.R14"),
    ("switch-without-no-match-exit", FILE,
     lambda src: __import__("sa.mutate", fromlist=["x"]).text_replace(src, "            last_stmts.append(current_stmt)\n        return (last_stmts, boundary)", "            pass\n        return (last_stmts, boundary)"),
     "C04.R12"),
    ("else-body-without-special-list", FILE,
     lambda src: __import__("sa.mutate", fromlist=["x"]).text_replace(src, "                last_stmts_of_else_body = self.analyze_block(else_body, last_stmts_of_else_body, global_special_stmts)",
                                                                     "                last_stmts_of_else_body = self.analyze_block(else_body, last_stmts_of_else_body)"),
     "analyze_if_stmt::every analysed body receives a special-statement list"),
    ("dowhile-mutates-callers-frontier", FILE,
     lambda src: __import__("sa.mutate", fromlist=["x"]).text_replace(src, "        previous = parent_stmts[:]\n        previous.append(\n            CFGNode(current_stmt, CONTROL_FLOW_KIND.LOOP_TRUE)\n        )\n",
                                                                     "        parent_stmts.append(CFGNode(current_stmt, CONTROL_FLOW_KIND.LOOP_TRUE))\n        previous = parent_stmts\n"),
     "analyze_dowhile_stmt::the incoming frontier is not mutated"),
    ("loop-false-exit-popped-by-position", FILE,
     lambda src: __import__("sa.mutate", fromlist=["x"]).text_replace(src, "        last_stmts = [\n            node for node in last_stmts\n            if not (isinstance(node, CFGNode) and node.edge == CONTROL_FLOW_KIND.LOOP_FALSE)\n        ]\n",
                                                                     "        last_stmts.pop()\n"),
     "the loop-false exit is appended last"),
    ("switch-stops-after-first-case", FILE,
     lambda src: __import__("sa.mutate", fromlist=["x"]).text_replace(src, "            last_stmts_of_previous_body = self.analyze_block(case_body, last_stmts_of_previous_body, special_stmts)\n",
                                                                     "            last_stmts_of_previous_body = self.analyze_block(case_body, last_stmts_of_previous_body, special_stmts)\n            if not last_stmts_of_previous_body:\n                break\n"),
     "C04.R7"),
    ("empty-frontier-resurrected", FILE,
     lambda src: __import__("sa.mutate", fromlist=["x"]).text_replace(src, "                last_stmts_of_then_body = self.analyze_block(then_body, last_stmts_of_then_body, global_special_stmts)",
                                                                     "                last_stmts_of_then_body = self.analyze_block(then_body, last_stmts_of_then_body, global_special_stmts) or last_stmts_of_then_body"),
     "analyze_if_stmt::frontiers handed on whole"),
    ("finally-parents-filtered", FILE, _mut_expr("ControlFlowAnalysis", "analyze_try_stmt",
                                                 lambda e: isinstance(e, ast.ListComp) and "CATCH_FINALLY" in norm(e),
                                                 "[CFGNode(s, CONTROL_FLOW_KIND.CATCH_FINALLY) for s in last_stmts_of_catch_body + last_stmts_of_else if not isinstance(s, CFGNode)]"),
     "analyze_try_stmt::frontiers"),
    ("specials-removed-while-iterating", FILE,
     lambda src: __import__("sa.mutate", fromlist=["x"]).replace_stmt_where(
         src, "ControlFlowAnalysis", "deal_with_last_stmts_of_loop_body",
         lambda st: isinstance(st, ast.For) and "special_stmts" in norm(st.iter),
         "for node in special_stmts:\n    if node.operation == \"break_stmt\":\n        result.append(node)\n        special_stmts.remove(node)\n    elif node.operation == \"continue_stmt\":\n        self.link_parent_stmts_to_current_stmt([CFGNode(node, CONTROL_FLOW_KIND.CONTINUE)], current_stmt)\n        special_stmts.remove(node)"),
     "deal_with_last_stmts_of_loop_body::frontiers"),
    ("if-else-frontier-dropped", FILE, _mut_expr("ControlFlowAnalysis", "analyze_if_stmt",
                                                 lambda e: isinstance(e, ast.BinOp) and "last_stmts_of_else_body" in norm(e), "last_stmts_of_then_body"),
     "analyze_if_stmt::frontiers"),
    ("if-handler-ignores-else", FILE, _mut_expr("ControlFlowAnalysis", "analyze_if_stmt", _is_attr("else_body"), "current_stmt.elsebody"), "if_stmt::else_body"),
    ("while-handler-reads-other-body", FILE, _mut_expr("ControlFlowAnalysis", "analyze_while_stmt", _is_attr("body"), "current_stmt.loop_body"), "while_stmt::body"),
    ("for-boundary-loses-body", FILE, _mut_expr("ControlFlowAnalysis", "analyze_for_stmt",
                                               lambda e: isinstance(e, ast.List) and len(e.elts) == 1 and isinstance(e.elts[0], ast.Name) and e.elts[0].id == "body_id",
                                               "[init_body_id]"), "for_stmt::body"),
    ("py-while-else-before-body-order", "lang/python_parser.py", _rename_attr("while_stmt", "else_body", "orelse_body"), "python::while_stmt::orelse_body"),
    ("js-if-op-unhandled", "lang/javascript_parser.py", _rename_op("if_stmt", "cond_stmt", "if_statement"), "javascript::cond_stmt"),
    ("walker-drops-on-negative", FILE,
     lambda src: __import__("sa.mutate", fromlist=["x"]).replace_stmt_where(
         src, "ControlFlowAnalysis", "analyze_block",
         lambda st: isinstance(st, ast.If) and isinstance(st.test, ast.Compare) and isinstance(st.test.left, ast.Name) and st.test.left.id == "boundary",
         "if boundary < 0:\n    break"),
     "analyze_block::negative boundary"),
    ("while-shares-outer-special-list", FILE, _mut_expr("ControlFlowAnalysis", "analyze_while_stmt",
                                                       lambda e: isinstance(e, ast.Name) and e.id == "new_special_stmts" and isinstance(e.ctx, ast.Load),
                                                       "global_special_stmts", nth=0), "analyze_while_stmt::fresh special list"),
    ("return-no-exit-edge", FILE, _mut_del("ControlFlowAnalysis", "analyze_return_stmt",
                                           lambda st: isinstance(st, ast.Expr) and isinstance(st.value, ast.Call) and st.value.func.attr == "add_edge"),
     "return links to exit"),
    ("break-falls-through", FILE, _mut_expr("ControlFlowAnalysis", "analyze_break_stmt",
                                            lambda e: isinstance(e, ast.Tuple) and len(e.elts) == 2, "([current_stmt], -1)"), "break_stmt cuts"),
    ("continue-not-resolved", FILE, _mut_expr("ControlFlowAnalysis", "deal_with_last_stmts_of_loop_body",
                                              lambda e: isinstance(e, ast.Constant) and e.value == "continue_stmt", "'continue'"), "special statements pushed"),
    ("final-frontier-not-linked", FILE, _mut_del("ControlFlowAnalysis", "analyze",
                                                 lambda st: isinstance(st, ast.If) and isinstance(st.test, ast.Name) and st.test.id == "last_stmts_of_body_block"),
     "final frontier"),
]
