"""C16 -- table queries always reflect the table's current contents.

Typestate rule over ``util/data_model.DataModel`` (cache with a dirty flag) and the
read-only index structure ``util/gir_block.GIRBlockViewer``.  Slots (dirty flag,
marker, refresher, backing store, cache fields) are found by role, see ``Roles``.
"""
from __future__ import annotations

import ast
from typing import Dict, List, Optional, Set

from ..astutil import is_const, kwarg, root_self_attr, store_targets
from ..cfg import CFG, cfg_of
from ..model import AnalysisError, ClassInfo, Func, RepoModel, call_name, dotted, is_self_attr, norm, walk_no_nested

FILE = "util/data_model.py"
MUTATING_CONTAINER_METHODS = {"append", "extend", "insert", "pop", "remove", "clear", "update", "setdefault",
                              "popitem", "add", "discard", "sort", "reverse"}
# pandas methods that only change the row labels (index), which DataModel never caches
INDEX_ONLY_INPLACE = {"reset_index"}


class Roles:
    def __init__(self, model: RepoModel):
        m = model.module(FILE)
        c = m.classes.get("DataModel")
        if c is None:  # role fallback: the class that owns a boolean field set True and False
            for k in m.classes.values():
                if any(isinstance(n, ast.Attribute) and n.attr == "_need_refresh_rows" for n in ast.walk(k.node)):
                    c = k
        if c is None:
            raise AnalysisError("DataModel class not found in util/data_model.py")
        self.cls: ClassInfo = c
        self.init = c.methods.get("__init__")
        if self.init is None:
            raise AnalysisError("DataModel.__init__ not found")
        # flag: self field assigned constant True somewhere and constant False somewhere
        t_sites: Dict[str, Set[str]] = {}
        f_sites: Dict[str, Set[str]] = {}
        for f in c.methods.values():
            for n in walk_no_nested(f.node):
                if isinstance(n, ast.Assign) and len(n.targets) == 1 and is_self_attr(n.targets[0]):
                    if is_const(n.value, True):
                        t_sites.setdefault(n.targets[0].attr, set()).add(f.name)
                    elif is_const(n.value, False):
                        f_sites.setdefault(n.targets[0].attr, set()).add(f.name)
        flags = [a for a in t_sites if a in f_sites and "__init__" in t_sites[a]]
        if len(flags) != 1:
            raise AnalysisError(f"cannot identify DataModel's dirty flag by role (candidates: {flags})")
        self.flag = flags[0]
        self.refreshers = sorted(f_sites[self.flag] - {"__init__"})
        self.markers = sorted(t_sites[self.flag] - {"__init__"})
        if len(self.refreshers) < 1 or not self.markers:
            raise AnalysisError("cannot identify refresher / dirty-marker of DataModel by role")
        # the canonical marker is the one other methods call; a mutator that merely sets the flag itself is not a marker
        called = {x.func.attr for f in c.methods.values() for x in walk_no_nested(f.node)
                  if isinstance(x, ast.Call) and is_self_attr(x.func) and x.func.attr in self.markers and f.name != x.func.attr}
        self.inline_markers = sorted(set(self.markers) - called) if called else []
        if called:
            self.markers = sorted(called)
        # backing store: root self attribute of the RHS of field assignments in the refresher
        roots: Set[str] = set()
        self.lazy_fields: Set[str] = set()
        for rn in self.refreshers:
            for n in walk_no_nested(c.methods[rn].node):
                if isinstance(n, ast.Assign) and len(n.targets) == 1 and is_self_attr(n.targets[0]) \
                        and n.targets[0].attr != self.flag:
                    r = root_self_attr(n.value)
                    if r:
                        roots.add(r)
        if len(roots) != 1:
            raise AnalysisError(f"cannot identify DataModel's backing store by role (candidates {sorted(roots)})")
        self.data = roots.pop()
        # cache fields: fields initialised in __init__ other than store / flag / pure configuration
        init_params = set(self.init.params)
        assigned_in_init: Set[str] = set()
        for n in walk_no_nested(self.init.node):
            if isinstance(n, ast.Assign):
                for t in n.targets:
                    if is_self_attr(t):
                        assigned_in_init.add(t.attr)
        config_fields = set()
        for a in assigned_in_init:
            vals = []
            for f in c.methods.values():
                for n in walk_no_nested(f.node):
                    if isinstance(n, ast.Assign):
                        for t in n.targets:
                            if is_self_attr(t, a):
                                vals.append(n.value)
            if vals and all(isinstance(v, ast.Name) and v.id in init_params for v in vals):
                config_fields.add(a)
        self.cache_fields = sorted(assigned_in_init - {self.data, self.flag} - config_fields)
        if len(self.cache_fields) < 2:
            raise AnalysisError(f"expected several cache fields in DataModel, found {self.cache_fields}")
        # closures over self-calls
        self.marker_closure = self._closure(self.markers)
        self.refresher_closure = self._closure(self.refreshers)
        self.eager = self._fields_assigned(self.marker_closure) & set(self.cache_fields)
        self.lazy = (self._fields_assigned(self.refresher_closure) & set(self.cache_fields)) - self.eager

    def _closure(self, names: List[str]) -> Set[str]:
        seen = set(names)
        todo = list(names)
        while todo:
            f = self.cls.methods.get(todo.pop())
            if f is None:
                continue
            for n in walk_no_nested(f.node):
                if isinstance(n, ast.Call) and is_self_attr(n.func) and n.func.attr in self.cls.methods \
                        and n.func.attr not in seen:
                    seen.add(n.func.attr)
                    todo.append(n.func.attr)
        return seen

    def _fields_assigned(self, methods: Set[str]) -> Set[str]:
        out = set()
        for mn in methods:
            f = self.cls.methods.get(mn)
            if f is None:
                continue
            for n in walk_no_nested(f.node):
                if isinstance(n, ast.Assign):
                    for t in n.targets:
                        if is_self_attr(t):
                            out.add(t.attr)
        return out


def _aliases_of(fnode, field: str) -> Set[str]:
    """locals bound to ``self.<field>`` itself (not to something derived from it)."""
    out = set()
    for n in walk_no_nested(fnode):
        if isinstance(n, ast.Assign) and len(n.targets) == 1 and isinstance(n.targets[0], ast.Name) \
                and is_self_attr(n.value, field):
            out.add(n.targets[0].id)
    return out


def _root_is(node, field: str, aliases: Set[str]) -> bool:
    """Is ``node`` an access chain rooted at self.<field> or at an alias of it?"""
    cur = node
    while True:
        if isinstance(cur, ast.Attribute):
            if is_self_attr(cur, field):
                return True
            cur = cur.value
        elif isinstance(cur, ast.Subscript):
            cur = cur.value
        elif isinstance(cur, ast.Name):
            return cur.id in aliases
        else:
            return False


def _index_only_effect(c: ast.Call, f: Func):
    """('index-only', None) | ('columns', param or None) for a reset_index-like call."""
    drop = kwarg(c, "drop")
    if drop is not None and is_const(drop, True):
        return "index-only", None
    # drop = (not p): columns change only when parameter p is true
    if isinstance(drop, ast.UnaryOp) and isinstance(drop.op, ast.Not) and isinstance(drop.operand, ast.Name) \
            and drop.operand.id in f.params:
        return "columns", drop.operand.id
    return "columns", None


def _index_only_source(f: Func, st, roles: "Roles", aliases: Set[str]) -> Optional[ast.Call]:
    """If ``self.<store> = v`` where v is (a local holding) an index-only call on the store, that call."""
    val = getattr(st, "value", None)
    if isinstance(val, ast.Name):
        defs = [n.value for n in walk_no_nested(f.node)
                if isinstance(n, ast.Assign) and len(n.targets) == 1 and isinstance(n.targets[0], ast.Name)
                and n.targets[0].id == val.id]
        if len(defs) != 1:
            return None
        val = defs[0]
    if isinstance(val, ast.Call) and isinstance(val.func, ast.Attribute) and val.func.attr in INDEX_ONLY_INPLACE \
            and _root_is(val.func.value, roles.data, aliases):
        return val
    return None


def mutation_nodes(f: Func, roles: Roles, cfg: CFG):
    """[(cfg node, description, assume_param)]: sites that change the rows/columns of the store."""
    out = []
    aliases = _aliases_of(f.node, roles.data)
    for n in cfg.g.nodes:
        st = cfg.stmt.get(n)
        if st is None or cfg.kind[n] == "branch":
            continue
        if cfg.kind[n] == "stmt" and isinstance(st, (ast.Assign, ast.AugAssign, ast.AnnAssign, ast.Delete)):
            for t in store_targets(st):
                if is_self_attr(t, roles.data):
                    # rebinding to the result of an index-only call on the store keeps rows/columns
                    # unless the old index is moved into a column (drop is not literally True)
                    src_call = _index_only_source(f, st, roles, aliases)
                    if src_call is not None:
                        verdict, assume = _index_only_effect(src_call, f)
                        if verdict == "index-only":
                            continue
                        out.append((n, f"rebinds self.{roles.data}", assume))
                    else:
                        out.append((n, f"rebinds self.{roles.data}", None))
                elif isinstance(t, (ast.Attribute, ast.Subscript)) and _root_is(t, roles.data, aliases):
                    out.append((n, f"stores through self.{roles.data}: {norm(t)}", None))
        for c in cfg.calls_at(n):
            if not isinstance(c.func, ast.Attribute):
                continue
            if not _root_is(c.func.value, roles.data, aliases):
                continue
            ip = kwarg(c, "inplace")
            if ip is None or is_const(ip, False):
                continue
            assume = None
            if c.func.attr in INDEX_ONLY_INPLACE:
                verdict, assume = _index_only_effect(c, f)
                if verdict == "index-only":
                    continue  # index-only mutation; the index is never cached
            out.append((n, f"in-place pandas call {norm(c.func)}(inplace={norm(ip)})", assume))
    return out


def marking_nodes(f: Func, roles: Roles, cfg: CFG, always_marks: Set[str]) -> Set[int]:
    out = set()
    for n in cfg.g.nodes:
        for c in cfg.calls_at(n):
            if is_self_attr(c.func) and (c.func.attr in roles.markers or c.func.attr in always_marks):
                out.add(n)
        st = cfg.stmt.get(n)
        if cfg.kind[n] == "stmt" and isinstance(st, ast.Assign) and any(is_self_attr(t, roles.flag) for t in st.targets) \
                and is_const(st.value, True):
            # setting the flag by hand counts only if everything the canonical marker resets is reset here too
            if f.name in roles.markers or not inline_missing(f, roles):
                out.add(n)
    return out


def inline_missing(f: Func, roles: Roles) -> Set[str]:
    """cache fields the canonical marker resets eagerly but ``f`` (which sets the flag by hand) does not"""
    mine = roles._fields_assigned(roles._closure([f.name]))
    return set(roles.eager) - mine


def _param_false_branches(cfg: CFG, param: str) -> Set[int]:
    """F-branch pseudo nodes of ``if <param>`` tests (infeasible when param is truthy)."""
    out = set()
    for (t, lab), b in cfg.branch_of.items():
        st = cfg.stmt.get(t)
        if isinstance(st, ast.If) and isinstance(st.test, ast.Name) and st.test.id == param and lab == "F":
            out.add(b)
    return out


def run(model: RepoModel, rep, tier: str):
    rep.not_decided = ("equality of query results with a scan for concrete operation sequences; pandas semantics; "
                       "Row objects written through after being handed out")
    roles = Roles(model)
    cls = roles.cls
    rep.analysed["DataModel roles"] = {
        "dirty_flag": roles.flag, "markers": roles.markers, "refreshers": roles.refreshers, "store": roles.data,
        "cache_fields": roles.cache_fields, "eager(reset by marker)": sorted(roles.eager),
        "lazy(reset only by refresher)": sorted(roles.lazy), "methods": len(cls.methods),
    }
    rep.rule("C16.R1", "every method that changes rows/columns of the backing store reaches the dirty-marker on every "
                       "path to a normal exit", min_instances=6)
    rep.rule("C16.R2", "every read of a cache field is valid: the field is reset by the dirty-marker itself (eager) or "
                       "the read is dominated by the refresher (lazy); cache fills take their data from the store",
             min_instances=8)
    rep.rule("C16.R3", "every cache field initialised in __init__ is reset by the marker or the refresher", min_instances=3)
    rep.rule("C16.R4", "the dirty flag is cleared only by the refresher, which rebuilds the row cache from the store on "
                       "the same path; constructors never leave a shared cache marked clean", min_instances=2)
    rep.rule("C16.R5", "GIRBlockViewer index structures are written only while constructing", min_instances=5)
    rep.rule("C16.R6", "the per-column equality index stores what its consumers dereference: row positions when the results are used "
                       "with iloc/slice/_rows, labels when used with loc", min_instances=1)
    rep.rule("C16.R7", "0 and False are values, not missing data: the emptiness helpers the tables are indexed and queried with decide numbers "
                       "by math.isnan only -- the falsy test (`not element`) is reached only after an isinstance test that covers int", 2)
    _r7_zero_is_a_value(model, rep)
    _r8_own_frame_and_positions(model, rep)
    from .. import generic6
    rep.rule("C16.R9", "row numbers are positions in every method: a parameter some method hands to .iloc is used with .loc only where it is "
                       "known not to be an int", 0)
    generic6.check_row_numbers_positional(model, rep, "C16.R9")

    # ---- methods that mark on every path (summary fixpoint)
    always_marks: Set[str] = set()
    changed = True
    while changed:
        changed = False
        for name, f in cls.methods.items():
            if name in always_marks or name == "__init__":
                continue
            cfg = cfg_of(f.node)
            marks = marking_nodes(f, roles, cfg, always_marks)
            if marks and cfg.path_avoiding(cfg.ENTRY, cfg.EXIT, marks) is None:
                always_marks.add(name)
                changed = True
    rep.analysed["methods that mark dirty on every path"] = sorted(always_marks)

    # ---- R1
    for name, f in cls.methods.items():
        if name == "__init__":
            continue
        cfg = cfg_of(f.node)
        muts = mutation_nodes(f, roles, cfg)
        if not muts:
            continue
        marks = marking_nodes(f, roles, cfg, always_marks)
        for n, desc, assume in muts:
            avoid = set(marks)
            if assume:
                avoid |= _param_false_branches(cfg, assume)
            key = f"{FILE}::{f.qualname}::{desc}"
            if n in marks:
                rep.holds("C16.R1", key, FILE, cfg.stmt[n].lineno, "mutation statement itself marks dirty")
                continue
            path = cfg.path_avoiding(n, cfg.EXIT, avoid)
            if path is None:
                rep.holds("C16.R1", key, FILE, cfg.stmt[n].lineno,
                          f"{desc}: every path to exit passes the dirty-marker" + (f" (when {assume} is true)" if assume else ""))
            else:
                part = inline_missing(f, roles) if f.name in getattr(roles, "inline_markers", []) else set()
                rep.violation("C16.R1", key, FILE, cfg.stmt[n].lineno,
                              f"{f.qualname}: {desc}, but a path reaches the exit without marking the caches dirty "
                              f"(self.{roles.markers[0]}() missing"
                              + (f"; the method sets self.{roles.flag} by hand but does not reset {sorted(part)}, which the marker resets: "
                                 f"a write that adds a column leaves the schema / other column indexes stale" if part else "") + ")",
                              path=cfg.describe_path(path))

    # ---- R3
    covered = roles._fields_assigned(roles.marker_closure) | roles._fields_assigned(roles.refresher_closure)
    for a in roles.cache_fields:
        key = f"{FILE}::{cls.name}::field {a}"
        if a in covered:
            rep.holds("C16.R3", key, FILE, cls.node.lineno, f"cache field {a} is reset by marker/refresher")
        else:
            rep.violation("C16.R3", key, FILE, cls.node.lineno,
                          f"cache field self.{a} is initialised in __init__ but neither {roles.markers} nor {roles.refreshers} resets it")

    # ---- R2 (reads inside the class)
    m = model.module(FILE)

    def refresher_calls(cfg: CFG, base_pred) -> Set[int]:
        out = set()
        for n in cfg.g.nodes:
            for c in cfg.calls_at(n):
                if isinstance(c.func, ast.Attribute) and c.func.attr in roles.refreshers and base_pred(c.func.value):
                    out.add(n)
        return out

    def callers_validated(fname: str, seen: Set[str]) -> Optional[str]:
        """None if every call site of private helper ``fname`` in the module is dominated by a refresher call."""
        for g in m.all_funcs():
            cfg = cfg_of(g.node)
            for n in cfg.g.nodes:
                for c in cfg.calls_at(n):
                    if isinstance(c.func, ast.Attribute) and c.func.attr == fname:
                        base = c.func.value
                        rc = refresher_calls(cfg, lambda b: ast.dump(b) == ast.dump(base))
                        if not any(cfg.dominates(r, n) and r != n for r in rc):
                            return f"{g.qualname} line {c.lineno}"
        return None

    for name, f in cls.methods.items():
        if name == "__init__" or name in roles.refresher_closure and name in roles.refreshers:
            continue
        cfg = cfg_of(f.node)
        rcalls = refresher_calls(cfg, lambda b: isinstance(b, ast.Name) and b.id == "self")
        done = set()
        for n in cfg.g.nodes:
            for e in cfg.exprs_at(n):
                for x in walk_no_nested(e):
                    if isinstance(x, ast.Attribute) and is_self_attr(x) and x.attr in roles.cache_fields \
                            and isinstance(x.ctx, ast.Load):
                        fld = x.attr
                        if (fld, n) in done:
                            continue
                        done.add((fld, n))
                        key = f"{FILE}::{f.qualname}::read self.{fld} in `{norm(cfg.stmt[n] if cfg.kind[n]=='stmt' else x)}`"
                        if fld in roles.eager:
                            rep.holds("C16.R2", key, FILE, x.lineno, f"self.{fld} is reset by the dirty-marker (eager)")
                        elif any(cfg.dominates(r, n) and r != n for r in rcalls):
                            rep.holds("C16.R2", key, FILE, x.lineno, f"read of self.{fld} is dominated by self.{roles.refreshers[0]}()")
                        elif name.startswith("_") and not name.startswith("__"):
                            bad = callers_validated(name, set())
                            if bad is None:
                                rep.holds("C16.R2", key, FILE, x.lineno, f"private helper; every call site is dominated by the refresher")
                            else:
                                rep.violation("C16.R2", key, FILE, x.lineno,
                                              f"{f.qualname} reads lazily-invalidated cache self.{fld} and its caller {bad} "
                                              f"does not call {roles.refreshers[0]}() first; {roles.markers[0]}() does not reset it either")
                        else:
                            rep.violation("C16.R2", key, FILE, x.lineno,
                                          f"{f.qualname} reads self.{fld}, which only {roles.refreshers[0]}() resets, without "
                                          f"calling it first (and {roles.markers[0]}() does not reset it): stale after a mutation")
    # ---- R2 (reads of DataModel caches through another object, inside the module)
    unique_names = [a for a in roles.cache_fields + [roles.flag]
                    if sum(1 for c2 in m.classes.values() for n in ast.walk(c2.node)
                           if isinstance(n, ast.Attribute) and n.attr == a and c2 is not cls) >= 0]
    row_like = set()
    for c2 in m.classes.values():
        if c2 is cls:
            continue
        for f2 in c2.methods.values():
            for n in walk_no_nested(f2.node):
                if isinstance(n, ast.Attribute) and is_self_attr(n) and n.attr in roles.cache_fields:
                    row_like.add(n.attr)  # another class has its own field with that name
    for g in m.all_funcs():
        if g.cls is cls and g.name == "__init__":
            continue
        cfg = cfg_of(g.node)
        for n in cfg.g.nodes:
            for e in cfg.exprs_at(n):
                for x in walk_no_nested(e):
                    if isinstance(x, ast.Attribute) and isinstance(x.ctx, ast.Load) and x.attr in roles.cache_fields \
                            and not is_self_attr(x) and x.attr not in row_like:
                        base = x.value
                        key = f"{FILE}::{g.qualname}::foreign read {norm(x)}"
                        rc = refresher_calls(cfg, lambda b: ast.dump(b) == ast.dump(base))
                        if x.attr in roles.eager:
                            rep.holds("C16.R2", key, FILE, x.lineno, f"{x.attr} is reset by the dirty-marker (eager)")
                        elif any(cfg.dominates(r, n) and r != n for r in rc):
                            rep.holds("C16.R2", key, FILE, x.lineno, "dominated by refresher call on the same object")
                        else:
                            rep.violation("C16.R2", key, FILE, x.lineno,
                                          f"{g.qualname} reads {norm(x)} (reset only by {roles.refreshers[0]}()) without refreshing "
                                          f"the owning table first: stale after a mutation")

    # ---- R4
    for name, f in cls.methods.items():
        cfg = cfg_of(f.node)
        for n in cfg.g.nodes:
            st = cfg.stmt.get(n)
            if cfg.kind[n] == "stmt" and isinstance(st, ast.Assign) and any(is_self_attr(t, roles.flag) for t in st.targets):
                key = f"{FILE}::{f.qualname}::{norm(st)}"
                if is_const(st.value, True):
                    continue
                if name not in roles.refreshers or not is_const(st.value, False):
                    rep.violation("C16.R4", key, FILE, st.lineno,
                                  f"{f.qualname} clears/sets the dirty flag with {norm(st.value)} outside the refresher")
                    continue
                # in the refresher: after clearing, every path to exit rebuilds each lazy field from the store
                for fld in sorted(roles.lazy | (roles._fields_assigned({name}) & set(roles.cache_fields))):
                    rebuild = set()
                    for k in cfg.g.nodes:
                        s2 = cfg.stmt.get(k)
                        if cfg.kind[k] == "stmt" and isinstance(s2, ast.Assign) and any(is_self_attr(t, fld) for t in s2.targets):
                            r = root_self_attr(s2.value)
                            fresh_literal = isinstance(s2.value, (ast.Dict, ast.List)) or (
                                isinstance(s2.value, ast.Call) and call_name(s2.value) in ("dict", "list", "set"))
                            if r == roles.data or fresh_literal:
                                rebuild.add(k)
                    p = cfg.path_avoiding(n, cfg.EXIT, rebuild)
                    k2 = f"{key}::rebuilds {fld}"
                    if p is None:
                        rep.holds("C16.R4", k2, FILE, st.lineno, f"after clearing the flag, self.{fld} is rebuilt from self.{roles.data} on every path")
                    else:
                        rep.violation("C16.R4", k2, FILE, st.lineno,
                                      f"{f.qualname} clears the dirty flag but a path to the exit does not rebuild self.{fld} "
                                      f"from self.{roles.data}", path=cfg.describe_path(p))
                # the clearing must be guarded so that a clean table is not rebuilt? (not required)
    # refresher must actually be guarded by / test the flag is not required; constructor check:
    init_cfg = cfg_of(roles.init.node)
    shares = []
    for n in walk_no_nested(roles.init.node):
        if isinstance(n, ast.Assign) and len(n.targets) == 1 and is_self_attr(n.targets[0]) \
                and n.targets[0].attr in roles.cache_fields and isinstance(n.value, ast.Attribute) \
                and not is_self_attr(n.value) and n.value.attr in roles.cache_fields:
            shares.append(n)
    clears_in_init = [n for n in walk_no_nested(roles.init.node)
                      if isinstance(n, ast.Assign) and any(is_self_attr(t, roles.flag) for t in n.targets) and not is_const(n.value, True)]
    key = f"{FILE}::{cls.name}.__init__::shared caches stay dirty"
    if clears_in_init:
        rep.violation("C16.R4", key, FILE, clears_in_init[0].lineno,
                      "__init__ marks the new table clean although it may share cache objects with another table")
    else:
        rep.holds("C16.R4", key, FILE, roles.init.node.lineno,
                  f"__init__ shares {len(shares)} cache object(s) from a source table but leaves the dirty flag set")

    # ---- R6 position / label protocol of the indexer
    indexer_fields = [a for a in roles.cache_fields if any(
        isinstance(n, ast.Subscript) and is_self_attr(n.value, a) and isinstance(n.ctx, ast.Store)
        for f in cls.methods.values() for n in walk_no_nested(f.node))]
    for fld in indexer_fields:
        # producer: the function that appends to self.<fld>[col][value]
        for name, f in cls.methods.items():
            alias = {n.targets[0].id for n in walk_no_nested(f.node) if isinstance(n, ast.Assign) and isinstance(n.targets[0], ast.Name)
                     and isinstance(n.value, ast.Subscript) and is_self_attr(n.value.value, fld)}
            for n in walk_no_nested(f.node):
                if isinstance(n, ast.Call) and isinstance(n.func, ast.Attribute) and n.func.attr in ("append", "add") and n.args \
                        and isinstance(n.func.value, ast.Subscript) and isinstance(n.func.value.value, ast.Name) \
                        and n.func.value.value.id in alias and isinstance(n.args[0], ast.Name):
                    var = n.args[0].id
                    mode, why = "unknown", ""
                    for lp in walk_no_nested(f.node):
                        if isinstance(lp, ast.For) and any(isinstance(t, ast.Name) and t.id == var for t in ast.walk(lp.target)):
                            it = lp.iter
                            first = isinstance(lp.target, ast.Tuple) and isinstance(lp.target.elts[0], ast.Name) and lp.target.elts[0].id == var
                            cn = call_name(it) if isinstance(it, ast.Call) else None
                            if cn == "enumerate" and first and not (len(it.args) > 1 or it.keywords):
                                mode, why = "position", f"`{norm(lp.target)} in {norm(it)}`"
                            elif cn == "range":
                                mode, why = "position", f"`{norm(it)}`"
                            elif cn == "zip" and first and it.args and any(isinstance(x, ast.Attribute) and x.attr == "index" for x in ast.walk(it.args[0])):
                                mode, why = "label", f"`{norm(lp.target)} in {norm(it)}`"
                            elif isinstance(it, ast.Call) and isinstance(it.func, ast.Attribute) and it.func.attr in ("items", "iteritems") and first:
                                mode, why = "label", f"`{norm(it)}`"
                            elif cn == "enumerate" and first:
                                mode, why = "offset-position", f"`{norm(it)}` (enumerate with a start offset)"
                    # consumers
                    cons = []
                    for g in cls.methods.values():
                        res_vars = {x.targets[0].id for x in walk_no_nested(g.node) if isinstance(x, ast.Assign)
                                    and isinstance(x.targets[0], ast.Name) and isinstance(x.value, ast.Call)
                                    and isinstance(x.value.func, ast.Attribute) and is_self_attr(x.value.func)
                                    and any(isinstance(y, ast.Attribute) and is_self_attr(y, fld)
                                            for y in ast.walk(cls.methods[x.value.func.attr].node)) if x.value.func.attr in cls.methods}
                        for x in walk_no_nested(g.node):
                            if isinstance(x, ast.Subscript) and isinstance(x.value, ast.Attribute) and x.value.attr in ("iloc", "loc") \
                                    and any(isinstance(y, ast.Name) and y.id in res_vars for y in ast.walk(x.slice)):
                                cons.append((g, "position" if x.value.attr == "iloc" else "label", x))
                            if isinstance(x, ast.Call) and is_self_attr(x.func, "slice") and any(isinstance(y, ast.Name) and y.id in res_vars for a in x.args for y in ast.walk(a)):
                                cons.append((g, "position", x))
                    key = f"{FILE}::{f.qualname}::self.{fld} stores row positions"
                    cmodes = {c[1] for c in cons}
                    if mode == "unknown" or not cons:
                        rep.unknown("C16.R6", key, FILE, n.lineno, f"producer mode {mode}, {len(cons)} consumers recognised")
                    elif cmodes == {mode}:
                        rep.holds("C16.R6", key, FILE, n.lineno, f"producer stores {mode}s ({why}); all {len(cons)} consumers dereference by {mode}")
                    else:
                        g, cm, x = cons[0]
                        rep.violation("C16.R6", key, FILE, n.lineno,
                                      f"{f.qualname} fills self.{fld} with {mode}s ({why}) but {g.qualname} dereferences the result by "
                                      f"{cm} (`{norm(x)}`): after remove_rows/slice without reset_index the two differ and queries return "
                                      f"wrong or out-of-range rows")
                    for g, cm, x in cons[1:]:
                        k2 = f"{FILE}::{g.qualname}::dereferences by {cm} `{norm(x)}`"
                        if mode in ("position", "label"):
                            (rep.holds if cm == mode else rep.violation)(
                                "C16.R6", k2, FILE, x.lineno,
                                f"consumer uses {cm}; producer stores {mode}" if cm == mode else
                                f"{g.qualname} dereferences index results by {cm} but the index stores {mode}s")

    # ---- R5 GIRBlockViewer
    gm = model.module("util/gir_block.py")
    gv = gm.classes.get("GIRBlockViewer")
    if gv is None:
        raise AnalysisError("GIRBlockViewer vanished from util/gir_block.py")
    ginit = gv.methods.get("__init__")
    fields = set()
    for n in walk_no_nested(ginit.node):
        if isinstance(n, ast.Assign):
            for t in n.targets:
                if is_self_attr(t):
                    fields.add(t.attr)
    rep.analysed["GIRBlockViewer index fields"] = sorted(fields)
    for fld in sorted(fields):
        offenders = []
        for name, f in gv.methods.items():
            if name == "__init__":
                continue
            for n in walk_no_nested(f.node):
                if isinstance(n, (ast.Assign, ast.AugAssign, ast.AnnAssign, ast.Delete)):
                    for t in store_targets(n):
                        if root_self_attr(t) == fld:
                            offenders.append((f, n))
                if isinstance(n, ast.Call) and isinstance(n.func, ast.Attribute) and n.func.attr in MUTATING_CONTAINER_METHODS \
                        and root_self_attr(n.func.value) == fld and _chain_is_container_of_self(n.func.value, fld):
                    offenders.append((f, n))
        key = f"util/gir_block.py::GIRBlockViewer::field {fld}"
        if offenders:
            f, n = offenders[0]
            rep.violation("C16.R5", key, "util/gir_block.py", n.lineno,
                          f"{f.qualname} writes index structure self.{fld} after construction: `{norm(n)}` "
                          f"(views that share it by reference would observe a table they were not built from)")
        else:
            rep.holds("C16.R5", key, "util/gir_block.py", ginit.node.lineno,
                      f"self.{fld} is written only in __init__ ({len(gv.methods)-1} other methods scanned)")


def _chain_is_container_of_self(node, fld: str) -> bool:
    """True when ``node`` is ``self.fld`` or ``self.fld[...]`` (a container owned by the viewer),
    False for e.g. ``self.fld[i].attr`` objects whose methods merely share a name."""
    cur = node
    while isinstance(cur, ast.Subscript):
        cur = cur.value
    return is_self_attr(cur, fld)


def _r8_own_frame_and_positions(model: RepoModel, rep):
    """Two structural conditions of "positions returned are valid for the current table":
    (a) reset_index really resets: every path through it reaches the pandas reset (a slice of a default-indexed frame still has a
        RangeIndex, but one that starts at the slice's first row -- "already a RangeIndex" is not "already 0..n-1");
    (b) outside the constructor / loader, `self._data` is bound to a frame the table owns -- the result of a pandas operation on its
        own data -- never to a frame taken from an argument as it is (shared object, foreign row labels)."""
    rep.rule("C16.R8", "row labels are positions after reset_index on every path, and a table never adopts another table's frame object outside its "
                       "constructor", 2)
    dm = next((c for m_ in model.modules.values() if m_.rel == "util/data_model.py" for c in m_.classes.values() if c.name == "DataModel"), None)
    if dm is None:
        raise AnalysisError("DataModel vanished")
    REL = "util/data_model.py"
    ri = dm.methods.get("reset_index")
    if ri is None:
        raise AnalysisError("DataModel.reset_index vanished")
    cfg = cfg_of(ri.node)
    resets = {n for n in cfg.g.nodes for c in cfg.calls_at(n) if isinstance(c.func, ast.Attribute) and c.func.attr == "reset_index" and not is_self_attr(c.func)}
    key = f"{REL}::DataModel.reset_index::every path resets the row labels"
    p_ = cfg.path_avoiding(cfg.ENTRY, cfg.EXIT, resets)
    if resets and p_ is None:
        rep.holds("C16.R8", key, REL, ri.node.lineno, "every path from entry to return passes `<frame>.reset_index(...)`")
    else:
        rep.violation("C16.R8", key, REL, ri.node.lineno,
                      f"DataModel.reset_index can return without resetting ({' -> '.join(cfg.describe_path(p_)[:6]) if p_ else 'no pandas reset_index call'}): a slice "
                      f"keeps its parent's row labels (a RangeIndex that starts at the slice's first row), so after slice(2, 6).reset_index() "
                      f"access(0, col) raises KeyError and modify_element(0, ...) appends a row instead of changing one")
    for name, f in sorted(dm.methods.items()):
        if name in ("__init__", "load", "copy", "deepcopy", "__copy__", "__deepcopy__"):
            continue
        params = set(f.params[1:])
        for a in walk_no_nested(f.node):
            if isinstance(a, ast.Assign) and any(is_self_attr(t, "_data") for t in a.targets):
                v = a.value
                roots = {v.id} if isinstance(v, ast.Name) else ({v.value.id} if isinstance(v, ast.Attribute) and isinstance(v.value, ast.Name) else set())
                # a local bound to a parameter or to a parameter's frame
                adopted = None
                for r_ in roots:
                    if r_ in params:
                        adopted = r_
                    for d in walk_no_nested(f.node):
                        if isinstance(d, ast.Assign) and isinstance(d.targets[0], ast.Name) and d.targets[0].id == r_:
                            dv = d.value
                            if (isinstance(dv, ast.Name) and dv.id in params) or (isinstance(dv, ast.Attribute) and isinstance(dv.value, ast.Name) and dv.value.id in params):
                                adopted = r_
                key = f"{REL}::DataModel.{name}::`{norm(a)[:60]}`::the table owns its frame"
                if adopted and not isinstance(v, ast.Call):
                    rep.violation("C16.R8", key, REL, a.lineno,
                                  f"DataModel.{name} binds `self._data` to `{norm(v)}`, a frame taken from its argument as it is: the two tables share one "
                                  f"DataFrame (a change through one bypasses the other's caches) and the receiver inherits the source's row labels "
                                  f"(a slice that starts at row 2 is addressed 2, 3, 4 ... while the table hands out positions 0, 1, 2)")
                else:
                    rep.holds("C16.R8", key, REL, a.lineno, "result of an operation on the table's own data")


def _r7_zero_is_a_value(model: RepoModel, rep):
    um = model.module("util/util.py")
    for fname in ("isna", "is_empty"):
        f = um.functions.get(fname)
        if f is None:
            raise AnalysisError(f"util.{fname} vanished")
        cfg = cfg_of(f.node)
        p = f.params[0]
        falsy = [n for n in cfg.g.nodes if cfg.kind[n] == "test" and isinstance(cfg.stmt[n], ast.If) and isinstance(cfg.stmt[n].test, ast.UnaryOp)
                 and isinstance(cfg.stmt[n].test.op, ast.Not) and isinstance(cfg.stmt[n].test.operand, ast.Name) and cfg.stmt[n].test.operand.id == p]
        key = f"util/util.py::{fname}::numbers never reach the falsy test"
        if not falsy:
            rep.holds("C16.R7", key, "util/util.py", f.node.lineno, "no falsy test on the element")
            continue
        # isinstance(element, (.. int ..)) tests whose taken branch returns
        num = []
        for (t, lab), b in cfg.branch_of.items():
            st = cfg.stmt.get(t)
            if lab != "F" or not isinstance(st, ast.If) or not (isinstance(st.test, ast.Call) and call_name(st.test) == "isinstance" and len(st.test.args) == 2):
                continue
            ty = st.test.args[1]
            names = {dotted(e) for e in (ty.elts if isinstance(ty, ast.Tuple) else [ty])}
            if "int" in names and all(isinstance(x, ast.Return) for x in st.body[-1:]):
                num.append(b)
        ok = bool(num) and all(any(cfg.dominates(b, fz) for b in num) for fz in falsy)
        if ok:
            rep.holds("C16.R7", key, "util/util.py", cfg.stmt[falsy[0]].lineno, "`isinstance(element, (int, float))` returns before `not element`")
        else:
            rep.violation("C16.R7", key, "util/util.py", cfg.stmt[falsy[0]].lineno,
                          f"util.{fname} lets integers fall through to `not {p}`: 0 and False count as missing, so a table row holding 0 is never "
                          f"entered in the per-column index (a query for 0 returns nothing) and block id / position 0 reads as absent")


# ---------------------------------------------------------------- self-test mutants
def _m_drop_call(method: str, callee: str):
    def mut(src: str) -> str:
        from ..mutate import delete_stmt_where
        return delete_stmt_where(src, "DataModel", method,
                                 lambda st: isinstance(st, ast.Expr) and isinstance(st.value, ast.Call)
                                 and is_self_attr(st.value.func, callee))
    return mut


MUTANTS = [
    ("isna-zero-is-missing", "util/util.py",
     lambda src: __import__("sa.mutate", fromlist=["x"]).text_replace(src, "def isna(element):\n    if element is None:\n        return True\n    if isinstance(element, (int, float)):", "def isna(element):\n    if element is None:\n        return True\n    if isinstance(element, float):"),
     "isna::numbers never reach the falsy test"),
    ("modify-element-partial-invalidation", FILE,
     lambda src: __import__("sa.mutate", fromlist=["x"]).text_replace(src, "        self._data.loc[row_index, column_name] = value\n        self.set_refresh_flag()",
                                                                     "        self._data.loc[row_index, column_name] = value\n        self._need_refresh_rows = True\n        self._column_indexer.pop(column_name, None)"),
     "DataModel.modify_element"),
    # (name, relative file, mutator, substring expected in a VIOLATION key)
    ("modify_row-no-mark", FILE, _m_drop_call("modify_row", "set_refresh_flag"), "DataModel.modify_row"),
    ("modify_element-no-mark", FILE, _m_drop_call("modify_element", "set_refresh_flag"), "DataModel.modify_element"),
    ("append-no-mark", FILE, _m_drop_call("append_data_model", "set_refresh_flag"), "DataModel.append_data_model"),
    ("remove_rows-no-mark", FILE, _m_drop_call("remove_rows", "set_refresh_flag"), "DataModel.remove_rows"),
    ("rename-no-mark", FILE, _m_drop_call("rename_column", "set_refresh_flag"), "DataModel.rename_column"),
    ("load-no-mark", FILE, _m_drop_call("load", "set_refresh_flag"), "DataModel.load"),
    ("iter-no-refresh", FILE, _m_drop_call("__iter__", "refresh_rows"), "DataModel.__iter__"),
    ("access-no-refresh", FILE, _m_drop_call("access", "refresh_rows"), "DataModel.access"),
    ("get_rows-no-refresh", FILE, _m_drop_call("get_rows", "refresh_rows"), "DataModel.get_rows"),
    ("indexer-stores-labels", FILE,
     lambda src: __import__("sa.mutate", fromlist=["x"]).text_replace(src, "for idx_label, value in enumerate(column_data):", "for idx_label, value in zip(self._data.index, column_data):"),
     "stores row positions"),
    ("slow_query_first-no-refresh", FILE, _m_drop_call("slow_query_first", "refresh_rows"), "DataModel.slow_query_first"),
]
