"""C09 -- points-to results are flow-, field- and call-site-sensitive where advertised (DESIGN section 3, C09).

Exactness against a collecting semantics is not static.  Decided: copy-on-write discipline of State
objects in the transfer functions (R1), the state-level kill (R2, shared with C06.R1) and call-site
keyed contexts (R3).
"""
from __future__ import annotations

import ast
from typing import Dict, List, Optional, Set, Tuple

from ..cfg import cfg_of
from ..model import AnalysisError, Func, RepoModel, call_name, const_str, dotted, is_self_attr, norm, walk_no_nested

SS = "core/stmt_states.py"
FRESH_CALLS = ("create_state_and_add_space", "create_copy_of_state_and_add_space", "copy_on_write_arg_state",
               "create_copy_of_symbol_and_add_space")
MUT_ATTRS = {"fields", "array", "tangping_elements", "tangping_flag", "value", "data_type", "state_type"}
# helpers that mutate the State they are handed; every caller has to hand them a fresh copy
# read-side in-place updates found by reading, frozen with one line of reason each.  They are design decisions of the code base
# (the copy is commented out next to them), not write-side transfer functions: key = (function, variable or callee)
COW_EXCEPTIONS = {
    ("make_state_index_tangping_and_ensure_not_empty", ".tangping_elements"):
        "flattening of an array/object that is read with an unknown index or field; works on the State the index names by design",
    ("make_state_index_tangping_and_ensure_not_empty", "make_state_tangping"):
        "same helper: flattens the State the index names",
    ("field_read_stmt_state", "change_field_read_receiver_state"):
        "read-side lazy materialisation: records a placeholder for a field that has no value yet in the receiver it was read from",
    ("object_call_state", "change_field_read_receiver_state"):
        "read-side lazy materialisation of the called method's field on the receiver",
    ("slice_read_stmt_state", ".tangping_elements"):
        "slice read with unknown bounds flattens the array in place (create_copy_of_state_and_add_space is commented out in the source)",
    ("slice_read_stmt_state", "make_state_tangping"):
        "same site: the flattened State is the array that was read",
}


def freshness(f: Func) -> Tuple[Set[str], Set[str]]:
    fresh_idx: Set[str] = set()
    fresh_state: Set[str] = set()
    changed = True
    while changed:
        changed = False
        for n in walk_no_nested(f.node):
            tgt = val = None
            if isinstance(n, ast.Assign) and len(n.targets) == 1 and isinstance(n.targets[0], ast.Name):
                tgt, val = n.targets[0].id, n.value
            elif isinstance(n, ast.AnnAssign) and isinstance(n.target, ast.Name) and n.value is not None:
                tgt, val = n.target.id, n.value
            if tgt is None:
                continue
            if isinstance(val, ast.Call) and (call_name(val) or "").split(".")[-1] in FRESH_CALLS and tgt not in fresh_idx:
                fresh_idx.add(tgt)
                changed = True
            if isinstance(val, ast.Subscript) and ("symbol_state_space" in norm(val.value) or norm(val.value).endswith("space")) \
                    and isinstance(val.slice, ast.Name) and val.slice.id in fresh_idx and tgt not in fresh_state:
                fresh_state.add(tgt)
                changed = True
            if isinstance(val, ast.Call) and ((isinstance(val.func, ast.Attribute) and val.func.attr == "copy") or call_name(val) == "State") \
                    and tgt not in fresh_state:
                fresh_state.add(tgt)
                changed = True
    # must-freshness: a name assigned from something else anywhere in the function is not fresh (flow-insensitive, conservative)
    def all_defs(name):
        out = []
        for n in walk_no_nested(f.node):
            if isinstance(n, ast.Assign) and any(isinstance(t, ast.Name) and t.id == name for t in n.targets):
                out.append(n.value)
            elif isinstance(n, ast.AnnAssign) and isinstance(n.target, ast.Name) and n.target.id == name and n.value is not None:
                out.append(n.value)
        return out

    def idx_fresh(v):
        return isinstance(v, ast.Call) and (call_name(v) or "").split(".")[-1] in FRESH_CALLS

    fresh_idx = {v for v in fresh_idx if all(idx_fresh(d) or (isinstance(d, ast.Constant) and d.value in (-1, None)) or
                                             (isinstance(d, ast.UnaryOp) and isinstance(d.operand, ast.Constant)) for d in all_defs(v))}

    def state_fresh(v):
        return (isinstance(v, ast.Subscript) and isinstance(v.slice, ast.Name) and v.slice.id in fresh_idx) or \
            (isinstance(v, ast.Call) and ((isinstance(v.func, ast.Attribute) and v.func.attr == "copy") or call_name(v) == "State")) or \
            (isinstance(v, ast.Constant) and v.value is None)

    fresh_state = {v for v in fresh_state if all(state_fresh(d) for d in all_defs(v))}
    return fresh_idx, fresh_state


def mutation_sites(f: Func) -> List[Tuple[str, str, ast.AST]]:
    out = []
    for n in walk_no_nested(f.node):
        if isinstance(n, (ast.Assign, ast.AugAssign)):
            for t in (n.targets if isinstance(n, ast.Assign) else [n.target]):
                base = t
                while isinstance(base, ast.Subscript):
                    base = base.value
                if isinstance(base, ast.Attribute) and base.attr in MUT_ATTRS and isinstance(base.value, ast.Name) and base.value.id != "self":
                    out.append((base.value.id, base.attr, n))
        if isinstance(n, ast.Call) and isinstance(n.func, ast.Attribute) and n.func.attr in ("add", "update", "append", "extend", "pop", "clear", "insert", "discard", "remove") \
                and isinstance(n.func.value, ast.Attribute) and n.func.value.attr in MUT_ATTRS and isinstance(n.func.value.value, ast.Name) \
                and n.func.value.value.id != "self":
            out.append((n.func.value.value.id, n.func.value.attr, n))
    return out


def run(model: RepoModel, rep, tier: str):
    rep.not_decided = ("that results are exactly the union of last writes on loop-free code; precision of binary operations on constants; "
                       "everything that depends on which states reach a statement at run time")
    m = model.module(SS)
    st = m.classes.get("StmtStates")
    if st is None:
        raise AnalysisError("StmtStates vanished")
    rep.rule("C09.R1", "copy-on-write: a transfer function stores into a State's fields/array/elements/value only if that State is fresh "
                       "in the function (created or copied there); helpers that mutate their argument are only handed fresh States", 20)
    rep.rule("C09.R2", "a new copy of a state kills the older copies with the same state id (state-level gen/kill; see C06.R1)", 1)
    rep.rule("C09.R3", "contexts are keyed by call site: CallSite equality and hash involve caller, call statement and callee; frames and "
                       "summary instances are keyed by it", 4)

    # ------------------------------------------------------------------ R1
    classes = [st] + [c for c in model.module("core/global_stmt_states.py").classes.values()] \
        + [c for c in model.module("core/resolver.py").classes.values() if c.name == "Resolver"]
    check_copy_on_write(model, rep, "C09.R1", classes)
    # the copy itself: create_copy_of_state_and_add_space copies (does not alias) and registers the copy
    cc = st.methods.get("create_copy_of_state_and_add_space")
    key = f"{SS}::StmtStates.create_copy_of_state_and_add_space::copies and registers"
    if cc is None:
        raise AnalysisError("create_copy_of_state_and_add_space vanished")
    copies = any(isinstance(n, ast.Call) and isinstance(n.func, ast.Attribute) and n.func.attr == "copy" for n in walk_no_nested(cc.node))
    adds = any(isinstance(n, ast.Call) and isinstance(n.func, ast.Attribute) and n.func.attr == "add" and "space" in norm(n.func.value) for n in walk_no_nested(cc.node))
    defined = any("defined_states" in norm(n) for n in walk_no_nested(cc.node) if isinstance(n, (ast.Call, ast.Assign)))
    if copies and adds and defined:
        rep.holds("C09.R1", key, SS, cc.node.lineno, "state.copy(...) added to the space and recorded as defined by the statement")
    else:
        rep.violation("C09.R1", key, SS, cc.node.lineno,
                      "create_copy_of_state_and_add_space " + ("does not copy the State; " if not copies else "") + ("does not add the copy to the space; " if not adds else "")
                      + ("does not record the copy in status.defined_states" if not defined else ""))
    # State.copy is deep enough: fields / array / tangping_elements are copied containers
    cs = model.module("common_structs.py")
    stc = cs.classes.get("State")
    cp = stc.methods.get("copy") if stc else None
    key = "common_structs.py::State.copy::containers are copied"
    if cp is None:
        raise AnalysisError("State.copy vanished")
    kws = {}
    for n in walk_no_nested(cp.node):
        if isinstance(n, ast.Call) and call_name(n) == "State":
            kws = {k.arg: k.value for k in n.keywords}
    bad = [a for a in ("fields", "array", "tangping_elements") if a in kws and isinstance(kws[a], ast.Attribute) and is_self_attr(kws[a])]
    if kws and not bad:
        rep.holds("C09.R1", key, "common_structs.py", cp.node.lineno, "fields/array/tangping_elements are passed as copies")
    elif kws:
        rep.violation("C09.R1", key, "common_structs.py", cp.node.lineno,
                      f"State.copy passes {bad} by reference: the copy and the original share the container, so writing a field of the copy "
                      f"changes the original")

    # ------------------------------------------------------------------ R2
    from . import c06  # noqa: F401  (the state-level transfer function is decided there)
    ps = model.module("core/prelim_semantics.py")
    p2 = next((c for c in ps.classes.values() if "update_current_state_bit" in c.methods), None)
    f = p2.methods["update_current_state_bit"] if p2 else None
    key = "core/prelim_semantics.py::update_current_state_bit::kill by state id except this statement's own new states"
    if f is None:
        raise AnalysisError("update_current_state_bit vanished")
    # by role: a membership test `x not in <parameter>` guarding the collection of the kill set, and a lookup
    # frame.defined_states[<id>] feeding it
    from ..cfg import cfg_of as _cfg_of
    _c = _cfg_of(f.node)
    own = False
    for _n in _c.g.nodes:
        if any(isinstance(cl.func, ast.Attribute) and cl.func.attr == "add" for cl in _c.calls_at(_n)):
            for atom, truth in _c.conditions_at(_n):
                if isinstance(atom, ast.Compare) and len(atom.ops) == 1 and isinstance(atom.comparators[0], ast.Name) and atom.comparators[0].id in f.params \
                        and ((isinstance(atom.ops[0], ast.NotIn) and truth) or (isinstance(atom.ops[0], ast.In) and not truth)):
                    own = True
    byid = any(isinstance(x, ast.Subscript) and isinstance(x.value, ast.Attribute) and x.value.attr == "defined_states"
               for n in walk_no_nested(f.node) if isinstance(n, (ast.Assign, ast.For)) for x in ast.walk(n.value if isinstance(n, ast.Assign) else n.iter))
    (rep.holds if own and byid else rep.violation)("C09.R2", key, ps.rel, f.node.lineno,
                                                   "frame.defined_states[state_id] minus the states created in this visit" if own and byid else
                                                   "the state-level kill set is no longer the older copies with the same state id")

    # ------------------------------------------------------------------ R3
    check_callsite_identity(model, rep, "C09.R3")
    cfc = cs.classes.get("ComputeFrame")
    key = "common_structs.py::ComputeFrame::context is the frame's call site"
    ini = cfc.methods.get("__init__") if cfc else None
    site = [n for n in walk_no_nested(ini.node) if isinstance(n, ast.Assign) and any(is_self_attr(t, "call_site") for t in n.targets)] if ini else []
    hc = cfc.methods.get("hash_context") if cfc else None
    ok = site and isinstance(site[0].value, ast.Call) and call_name(site[0].value) == "CallSite" and \
        [norm(a) for a in site[0].value.args] == ["self.caller_id", "self.call_stmt_id", "self.method_id"] and hc is not None and \
        any(isinstance(n, ast.Return) and "self.call_site" in norm(n.value) for n in walk_no_nested(hc.node))
    (rep.holds if ok else rep.violation)("C09.R3", key, "common_structs.py", ini.node.lineno if ini else 0,
                                         "call_site = CallSite(caller_id, call_stmt_id, method_id); hash_context() = hash(call_site)" if ok else
                                         "a frame's context is no longer the (caller, call statement, callee) triple")
    gs = model.module("core/global_semantics.py")
    key = "core/global_semantics.py::summary instances saved under the frame's context"
    ok = False
    for fn_ in gs.all_funcs():
        ctx_vars = {n.targets[0].id for n in walk_no_nested(fn_.node) if isinstance(n, ast.Assign) and isinstance(n.targets[0], ast.Name)
                    and isinstance(n.value, ast.Call) and isinstance(n.value.func, ast.Attribute) and n.value.func.attr == "hash_context"}
        if any(isinstance(n, ast.Call) and isinstance(n.func, ast.Attribute) and n.func.attr == "save_method_summary_instance" and n.args
               and (isinstance(n.args[0], ast.Name) and n.args[0].id in ctx_vars
                    or isinstance(n.args[0], ast.Call) and isinstance(n.args[0].func, ast.Attribute) and n.args[0].func.attr == "hash_context")
               for n in walk_no_nested(fn_.node)):
            ok = True
    (rep.holds if ok else rep.violation)("C09.R3", key, gs.rel, 0,
                                         "context_id = frame.hash_context(); save_method_summary_instance(context_id, summary)" if ok else
                                         "summary instances are not keyed by the frame's call-site context")
    gss = model.module("core/global_stmt_states.py")
    key = "core/global_stmt_states.py::summary instances looked up by the call site being applied"
    ok = False
    for fn_ in gss.all_funcs():
        site_vars = {n.targets[0].id for n in walk_no_nested(fn_.node) if isinstance(n, ast.Assign) and isinstance(n.targets[0], ast.Name)
                     and isinstance(n.value, ast.Call) and call_name(n.value) == "CallSite" and len(n.value.args) == 3}
        if any(isinstance(n, ast.Call) and isinstance(n.func, ast.Attribute) and n.func.attr == "get_method_summary_instance" and n.args
               and any(isinstance(x, ast.Name) and x.id in site_vars for x in ast.walk(n.args[0])) for n in walk_no_nested(fn_.node)):
            ok = True
    (rep.holds if ok else rep.violation)("C09.R3", key, gss.rel, 0,
                                         "get_method_summary_instance(new_call_site.hash())" if ok else "the callee summary is not fetched by (caller, call statement, callee)")
    # the state-level merge hands out a fresh set (shared with C06.R2)
    from .c06 import check_merge_fresh
    check_merge_fresh(model, rep, "C09.R2", "collect_in_state_bits", "@returned", "out_state_bits")
    # what is saved under a context is the summary just generated for it (not merged with an earlier one of another call path)
    key = "core/global_semantics.py::the saved summary instance is the one just generated"
    ok_ctx = None
    for fn_ in gs.all_funcs():
        gens = [n for n in walk_no_nested(fn_.node) if isinstance(n, ast.Assign) and isinstance(n.targets[0], ast.Name) and isinstance(n.value, ast.Call)
                and isinstance(n.value.func, ast.Attribute) and n.value.func.attr == "generate_and_save_analysis_summary"]
        saves = [c for c in walk_no_nested(fn_.node) if isinstance(c, ast.Call) and isinstance(c.func, ast.Attribute)
                 and c.func.attr == "save_method_summary_instance" and len(c.args) > 1 and isinstance(c.args[1], ast.Name)]
        # the generated summary handed to the save directly (no name in between: nothing can touch it)
        for c in walk_no_nested(fn_.node):
            if isinstance(c, ast.Call) and isinstance(c.func, ast.Attribute) and c.func.attr == "save_method_summary_instance" and len(c.args) > 1 \
                    and isinstance(c.args[1], ast.Call) and isinstance(c.args[1].func, ast.Attribute) and c.args[1].func.attr == "generate_and_save_analysis_summary":
                ok_ctx = ok_ctx or (True, c)
        for g_ in gens:
            S = g_.targets[0].id
            for sv in saves:
                if sv.args[1].id != S or sv.lineno < g_.lineno:
                    continue
                touched = []
                for n in walk_no_nested(fn_.node):
                    if not (g_.lineno < getattr(n, "lineno", 0) < sv.lineno):
                        continue
                    if isinstance(n, ast.Call) and n.args and isinstance(n.args[0], ast.Attribute) and isinstance(n.args[0].value, ast.Name) \
                            and n.args[0].value.id == S and (call_name(n) or "").split(".")[-1] in ("add_to_dict_with_default_set", "update", "extend"):
                        touched.append(n)
                    if isinstance(n, ast.Call) and isinstance(n.func, ast.Attribute) and n.func.attr in ("update", "add", "extend", "append") \
                            and any(isinstance(x, ast.Name) and x.id == S for x in ast.walk(n.func.value)):
                        touched.append(n)
                    if isinstance(n, (ast.Assign, ast.AugAssign)):
                        for t in (n.targets if isinstance(n, ast.Assign) else [n.target]):
                            if isinstance(t, (ast.Subscript, ast.Attribute)) and any(isinstance(x, ast.Name) and x.id == S for x in ast.walk(t)):
                                touched.append(n)
                ok_ctx = (not touched, touched[0] if touched else sv)
    # reading the summary already stored under the same context id, in the function that generates and saves the new one, has one
    # purpose only: merging the two -- and the context id identifies the innermost call edge, not the call path
    readback = None
    for fn_ in gs.all_funcs():
        if any(isinstance(c, ast.Call) and isinstance(c.func, ast.Attribute) and c.func.attr == "generate_and_save_analysis_summary" for c in walk_no_nested(fn_.node)):
            saves_ = [c for c in walk_no_nested(fn_.node) if isinstance(c, ast.Call) and isinstance(c.func, ast.Attribute) and c.func.attr == "save_method_summary_instance" and c.args]
            for c in walk_no_nested(fn_.node):
                if isinstance(c, ast.Call) and isinstance(c.func, ast.Attribute) and c.func.attr == "get_method_summary_instance" and c.args \
                        and any(norm(c.args[0]) == norm(s_.args[0]) for s_ in saves_):
                    readback = c
    if readback is not None:
        rep.violation("C09.R3", key, gs.rel, readback.lineno,
                      f"`{norm(readback)[:80]}` reads the summary stored under the context id that the new summary is about to be saved under: the two are "
                      f"merged, but the id is the hash of (caller, call statement, callee) -- the innermost call edge -- so the record of one call path "
                      f"leaks into the next: with f(u) = h(u), r2 = f(200) after f(100) becomes {{100, 200}}")
    elif ok_ctx is None:
        rep.unknown("C09.R3", key, gs.rel, 0, "generation and saving of the summary instance not recognised")
    elif ok_ctx[0]:
        rep.holds("C09.R3", key, gs.rel, ok_ctx[1].lineno, "summary = generate_and_save_analysis_summary(...); saved unmodified under the context id")
    else:
        rep.violation("C09.R3", key, gs.rel, ok_ctx[1].lineno,
                      f"between its generation and save_method_summary_instance the new summary is modified (`{norm(ok_ctx[1])[:90]}`): merging what "
                      f"an earlier analysis left under the same context id mixes the values of different call paths -- a value passed at one "
                      f"call site of a wrapper shows up in the result of the other")
    from ..generic import check_accumulators
    check_accumulators(model, rep, "C09.R5", [SS, "core/global_stmt_states.py"], C09_ADJ,
                       "values that reach this statement on some path are missing from the computed set (the result is not the union over the "
                       "operand combinations / paths)", 20, widening=_c09_widening)
    # union over paths / over argument states: shared with C08.R4
    from .c08 import check_accumulating_loops
    check_accumulating_loops(model, rep, "C09.R4")
    check_call_site_budget(model, rep, "C09.R6", declare=True)
    _r3_call_path_depth(model, rep)
    # binary operations on constants: whether an operand is text is decided by its DATA TYPE.  A test on its characters
    # (isdigit / isnumeric / isdecimal) makes the string "12" a number, and "12" + "34" the integer 46
    rep.rule("C09.R9", "constant folding keeps the operand types: in compute_two_states no operand is classified as a number or a string by the "
                       "characters of its value", 1)
    c2s = st.methods.get("compute_two_states")
    if c2s is None:
        raise AnalysisError("StmtStates.compute_two_states vanished")
    key = f"{SS}::StmtStates.compute_two_states::operands are classified by data type"
    bad = [c for c in walk_no_nested(c2s.node) if isinstance(c, ast.Call) and isinstance(c.func, ast.Attribute) and c.func.attr in ("isdigit", "isnumeric", "isdecimal", "isalpha", "isalnum")]
    if bad:
        rep.violation("C09.R9", key, SS, bad[0].lineno,
                      f"compute_two_states tests `{norm(bad[0])}`: a string constant made of digits is then folded as a number -- `\"12\" + \"34\"` yields the integer "
                      f"46 instead of the string \"1234\", so the result set of a binary operation on constant operands is not the set of the operand combinations")
    else:
        rep.holds("C09.R9", key, SS, c2s.node.lineno, "no character-class test on operand values")
    check_ceiling_snapshots(model, rep, "C09.R7", declare=True)
    from ..generic import check_shared_class_state
    rep.rule("C09.R8", "states, frames and spaces are per instance: a mutable object bound in a class body of the analysis core is a constant table, "
                       "never written through self (what one frame / state / space records would be visible in all others)", 0)
    check_shared_class_state(model, rep, "C09.R8", ["common_structs.py"] + sorted(r for r in model.modules if r.startswith("core/")))
    from .. import generic4
    rep.rule("C09.R10", "versions of an object do not share a field set: the accumulating dict helpers (add_to_dict_with_default_set, ...) store a "
                        "fresh collection under a new key, never the caller's own set that a later contribution would grow in place", 2)
    generic4.check_helper_stores_copy(model, rep, "C09.R10")
    rep.rule("C09.R11", "the constant 0 is a value: in the state computations no operand that was converted to a number is then tested for "
                        "presence by truthiness", 0)
    generic4.check_truthiness_after_numeric_conversion(model, rep, "C09.R11", ["core/stmt_states.py"])


def _r3_call_path_depth(model: RepoModel, rep):
    """The call path of a frame is its caller's call path extended by the call site; it is what separates two activations of the same
    function.  The extension is guarded by the depth of the frame stack.  The stack starts with N frames (counted from the code: the
    collector frame and the entry frame), so the guard has to be false at depth N (the entry frame has no caller) and true at depth
    N + 1 (the first callee)."""
    import operator as _op
    GS_ = "core/global_semantics.py"
    p3 = next((c for c in model.module(GS_).classes.values() if "init_compute_frame" in c.methods and "init_frame_stack" in c.methods), None)
    if p3 is None:
        raise AnalysisError("init_compute_frame / init_frame_stack vanished from global_semantics.py")
    ifs, icf = p3.methods["init_frame_stack"], p3.methods["init_compute_frame"]
    N = len([c for c in walk_no_nested(ifs.node) if isinstance(c, ast.Call) and isinstance(c.func, ast.Attribute) and c.func.attr in ("add", "push", "append")
             and "stack" in norm(c.func.value)])
    key = f"{GS_}::{icf.qualname}::every callee frame extends its caller's call path"
    cfg = cfg_of(icf.node)
    ext = [nd for nd in cfg.g.nodes if cfg.kind[nd] == "stmt" and isinstance(cfg.stmt[nd], ast.Assign) and any(
        isinstance(t, ast.Attribute) and t.attr == "call_path" for t in cfg.stmt[nd].targets)]
    OPS = {ast.Gt: _op.gt, ast.GtE: _op.ge, ast.Lt: _op.lt, ast.LtE: _op.le, ast.Eq: _op.eq, ast.NotEq: _op.ne}
    if not ext or N == 0:
        rep.unknown("C09.R3", key, GS_, icf.node.lineno, "call-path extension or initial stack not recognised")
        return
    verdict = None
    for atom, truth in cfg.conditions_at(ext[0]):
        if isinstance(atom, ast.Compare) and len(atom.ops) == 1 and type(atom.ops[0]) in OPS and isinstance(atom.left, ast.Call) and call_name(atom.left) == "len" \
                and isinstance(atom.comparators[0], ast.Constant) and isinstance(atom.comparators[0].value, int):
            fn, K = OPS[type(atom.ops[0])], atom.comparators[0].value
            at_entry, at_callee = fn(N, K) == truth, fn(N + 1, K) == truth
            verdict = (atom, at_entry, at_callee)
    if verdict is None:
        rep.unknown("C09.R3", key, GS_, cfg.stmt[ext[0]].lineno, "no stack-depth guard on the call-path extension")
    elif verdict[2] and not verdict[1]:
        rep.holds("C09.R3", key, GS_, verdict[0].lineno, f"`{norm(verdict[0])}`: false at depth {N} (entry frame), true at depth {N + 1} (first callee); the stack starts with {N} frames")
    else:
        rep.violation("C09.R3", key, GS_, verdict[0].lineno,
                      f"the call path is extended only under `{norm(verdict[0])}`, but the stack starts with {N} frames (init_frame_stack): at depth {N + 1} -- "
                      f"a function called directly from the entry -- the guard is {'true' if verdict[2] else 'false'}"
                      + (f" and at depth {N} it is true" if verdict[1] else "")
                      + ": such a frame keeps an empty call path, so its second activation produces the same path as the first for whatever it calls, the "
                        "callee is skipped as 'path exists' and the first activation's summary (the other call site's argument) is reused")


def check_copy_on_write(model: RepoModel, rep, RID: str, classes) -> int:
    helpers: Dict[str, Tuple[Func, str]] = {}   # helper name -> (func, mutated parameter)
    for c in classes:
        for f in c.methods.values():
            _, fs = freshness(f)
            for var, attr, node in mutation_sites(f):
                if var in f.params and var not in fs:
                    helpers[f.name] = (f, var)
    rep.analysed["helpers that mutate a State parameter"] = sorted(helpers)
    n_sites = 0
    for c in classes:
        for f in c.methods.values():
            fi, fs = freshness(f)
            for var, attr, node in mutation_sites(f):
                n_sites += 1
                key = f"{f.module.rel}::{f.qualname}::`{var}.{attr}` written"
                if var in fs:
                    rep.holds(RID, key, f.module.rel, node.lineno, f"`{var}` is created or copied in this function")
                elif var in f.params:
                    rep.holds(RID, key, f.module.rel, node.lineno, f"`{var}` is a parameter: obligation moves to the callers (checked below)")
                elif (f.name, "." + attr) in COW_EXCEPTIONS:
                    rep.holds(RID, key, f.module.rel, node.lineno, "frozen exception: " + COW_EXCEPTIONS[(f.name, "." + attr)])
                else:
                    # a State looked up by an index that is not fresh, or taken from in-states
                    src = [n for n in walk_no_nested(f.node) if isinstance(n, (ast.Assign, ast.AnnAssign)) and
                           (isinstance(getattr(n, "targets", [getattr(n, "target", None)])[0], ast.Name) and
                            getattr(n, "targets", [getattr(n, "target", None)])[0].id == var)]
                    rep.violation(RID, key, f.module.rel, node.lineno,
                                  f"{f.qualname} writes `{var}.{attr}` but `{var}` is not created or copied in this function "
                                  f"(bound by `{norm(src[0]) if src else '?'}`): the State is shared with earlier program points and with every "
                                  f"other variable that points to it, so an overwritten value is retained / another object observes the write")
            # calls of mutating helpers must pass fresh states
            for n in walk_no_nested(f.node):
                if isinstance(n, ast.Call) and is_self_attr(n.func) and n.func.attr in helpers and f.name != n.func.attr:
                    hf, hp = helpers[n.func.attr]
                    idx = hf.params.index(hp) - 1
                    a = n.args[idx] if idx < len(n.args) else next((k.value for k in n.keywords if k.arg == hp), None)
                    key = f"{f.module.rel}::{f.qualname}::`{n.func.attr}({norm(a) if a is not None else '?'})`"
                    if isinstance(a, ast.Name) and (a.id in fs or a.id in f.params and f.name in helpers and helpers[f.name][1] == a.id):
                        rep.holds(RID, key, f.module.rel, n.lineno, "mutating helper receives a fresh State")
                    elif isinstance(a, ast.Name) and a.id in f.params:
                        rep.holds(RID, key, f.module.rel, n.lineno, "forwards its own parameter (obligation moves up)")
                    elif (f.name, n.func.attr) in COW_EXCEPTIONS:
                        rep.holds(RID, key, f.module.rel, n.lineno, "frozen exception: " + COW_EXCEPTIONS[(f.name, n.func.attr)])
                    else:
                        rep.violation(RID, key, f.module.rel, n.lineno,
                                      f"{f.qualname} hands `{norm(a) if a is not None else '?'}` to {n.func.attr}, which mutates it in place, but that "
                                      f"State is not a fresh copy: the mutation is visible at earlier program points")
    rep.analysed.setdefault("state mutation sites", 0)
    rep.analysed["state mutation sites"] += n_sites
    return n_sites


def check_ceiling_snapshots(model: RepoModel, rep, RID: str, declare: bool = False):
    """The states a statement produces are found as 'everything in the state space above the ceiling recorded before the statement was
    computed'.  The ceiling therefore has to be recorded before ANY call through which a state can be added for this statement
    (external/unknown states of the used symbols are created while the inputs are completed): a state created before the snapshot is
    below the ceiling, is never entered into the statement's out-states and never reaches a later use."""
    if declare:
        rep.rule(RID, "new-state detection covers the whole statement: the state-space ceiling is recorded before every call that can add a state", 1)
    PS = "core/prelim_semantics.py"
    mod = model.module(PS)
    ADD = ("add", "append_space_copy", "append", "extend")
    memo: Dict[str, bool] = {}

    def may_extend(fn: Func, depth=0) -> bool:
        if fn.ref in memo:
            return memo[fn.ref]
        memo[fn.ref] = False
        res = False
        for c in walk_no_nested(fn.node):
            if not isinstance(c, ast.Call):
                continue
            if isinstance(c.func, ast.Attribute) and c.func.attr in ADD and isinstance(c.func.value, ast.Attribute) and c.func.value.attr == "symbol_state_space":
                res = True
                break
            if depth < 6 and isinstance(c.func, ast.Attribute) and is_self_attr(c.func) and fn.cls is not None:
                callee = model.find_method(fn.cls, c.func.attr)
                if callee is not None and may_extend(callee, depth + 1):
                    res = True
                    break
        memo[fn.ref] = res
        return res
    n_inst = 0
    for f in mod.all_funcs():
        if f.cls is None:
            continue
        cfg = None
        for st in walk_no_nested(f.node):
            if not (isinstance(st, ast.Assign) and len(st.targets) == 1 and isinstance(st.targets[0], ast.Name) and isinstance(st.value, ast.Call)
                    and isinstance(st.value.func, ast.Attribute) and st.value.func.attr == "get_length"
                    and isinstance(st.value.func.value, ast.Attribute) and st.value.func.value.attr == "symbol_state_space"):
                continue
            v = st.targets[0].id
            passed_on = [c for c in walk_no_nested(f.node) if isinstance(c, ast.Call) and any(isinstance(a, ast.Name) and a.id == v for a in c.args)]
            if not passed_on:
                continue
            cfg = cfg or cfg_of(f.node)
            sn = cfg.node(st)
            n_inst += 1
            key = f"{PS}::{f.qualname}::the ceiling `{v}` is recorded before any state can be added"
            early = None
            for n in cfg.g.nodes:
                if n == sn or cfg.dominates(sn, n) or sn not in cfg.reachable(n):
                    continue
                for c in cfg.calls_at(n):
                    if isinstance(c.func, ast.Attribute) and is_self_attr(c.func):
                        callee = model.find_method(f.cls, c.func.attr)
                        if callee is not None and may_extend(callee):
                            early = early or (c, callee)
            if early:
                c, callee = early
                rep.violation(RID, key, PS, c.lineno,
                              f"{f.qualname} calls `{norm(c)[:90]}` before it records `{v} = {norm(st.value)}`; {callee.qualname} can add states to "
                              f"the state space (external / unknown states of the used symbols): those states lie below the ceiling, so "
                              f"{', '.join(sorted({call_name(p) or '?' for p in passed_on}))} do not see them as produced by this statement and "
                              f"they never become out-states")
            else:
                rep.holds(RID, key, PS, st.lineno, f"no call that can add a state runs before the snapshot; consumers: {sorted({call_name(p) or '?' for p in passed_on})}")
    if not n_inst:
        raise AnalysisError("no state-space ceiling snapshot (`x = <frame>.symbol_state_space.get_length()` passed on to a consumer) found in prelim_semantics.py")


def check_call_site_budget(model: RepoModel, rep, RID: str, declare: bool = False):
    """The scheduler of the top-down phase counts, per call site and entry point, how often the site was handled and stops scheduling the
    callee once `counter <op> MAX` holds.  Handling one calling context raises the counter once per increment statement on the way
    (scheduling the callee, applying its summary).  For a call site reached under two calling contexts to be analysed under both --
    which is what keeps the arguments of the two contexts apart -- the cut-off must still be false after ONE context."""
    if declare:
        rep.rule(RID, "the per-call-site budget admits a second calling context: with c increments of the counter per handled context, the "
                      "cut-off `counter <op> MAX_ANALYSIS_ROUND_FOR_CALL_SITE` is false for counter == c", 1)
    GSS = "core/global_stmt_states.py"
    mod = model.module(GSS)
    cfgm = model.module("config/config.py")
    consts = {t.id: n.value.value for n in cfgm.tree.body if isinstance(n, ast.Assign) and isinstance(n.value, ast.Constant)
              and isinstance(n.value.value, int) for t in n.targets if isinstance(t, ast.Name)}
    found = 0
    for f in mod.all_funcs():
        cuts = []
        for cmp_ in walk_no_nested(f.node):
            if isinstance(cmp_, ast.Compare) and len(cmp_.ops) == 1:
                sides = [cmp_.left, cmp_.comparators[0]]
                cst = [x for x in sides if isinstance(x, ast.Attribute) and x.attr in consts and "CALL_SITE" in x.attr]
                cnt = [x for x in sides if x not in cst and any(isinstance(y, ast.Attribute) and "counter" in y.attr for y in ast.walk(x))]
                if cst and cnt:
                    cuts.append((cmp_, cst[0], cnt[0], cnt[0] is cmp_.left))
        if not cuts:
            continue
        cmp_, cst, cnt, counter_left = cuts[0]
        counter_attr = next(y.attr for y in ast.walk(cnt) if isinstance(y, ast.Attribute) and "counter" in y.attr)
        incs = []
        for st in walk_no_nested(f.node):
            if isinstance(st, ast.AugAssign) and isinstance(st.op, ast.Add) and any(isinstance(y, ast.Attribute) and y.attr == counter_attr for y in ast.walk(st.target)) \
                    and isinstance(st.value, ast.Constant) and st.value.value == 1:
                incs.append(st)
            if isinstance(st, ast.Assign) and any(isinstance(y, ast.Attribute) and y.attr == counter_attr for t in st.targets for y in ast.walk(t)) \
                    and isinstance(st.value, ast.BinOp) and isinstance(st.value.op, ast.Add) and isinstance(st.value.right, ast.Constant) and st.value.right.value == 1:
                incs.append(st)
        found += 1
        c = len(incs)
        mx = consts[cst.attr]
        import operator as _op
        OPS = {ast.Gt: _op.gt, ast.GtE: _op.ge, ast.Lt: _op.lt, ast.LtE: _op.le, ast.Eq: _op.eq, ast.NotEq: _op.ne}
        fn = OPS.get(type(cmp_.ops[0]))
        key = f"{GSS}::{f.qualname}::the call-site budget admits a second calling context"
        if fn is None or c == 0:
            rep.unknown(RID, key, GSS, cmp_.lineno, f"cut-off `{norm(cmp_)}` / increments of {counter_attr} not recognised")
            continue
        fires = fn(c, mx) if counter_left else fn(mx, c)
        if fires:
            rep.violation(RID, key, GSS, cmp_.lineno,
                          f"{f.qualname} stops scheduling a callee when `{norm(cmp_)}`; handling one calling context raises the counter {c} time(s) "
                          f"(lines {[i.lineno for i in incs]}) and {cst.attr} = {mx}, so the cut-off already holds after the FIRST context: a call "
                          f"site reached under a second calling context is never analysed with that context's arguments")
        else:
            rep.holds(RID, key, GSS, cmp_.lineno, f"`{norm(cmp_)}` is false for counter == {c} ({c} increments per context, {cst.attr} = {mx})")
    if not found:
        raise AnalysisError("the per-call-site budget test (counter vs MAX_ANALYSIS_ROUND_FOR_CALL_SITE) is no longer recognised in global_stmt_states.py")


def check_callsite_identity(model: RepoModel, rep, RID: str):
    """CallSite equality and hash involve caller, call statement and callee (shared by C09.R3 and C15.R7: the hash is also the storage
    key of parameter mappings and of the phase-3 per-context items)."""
    cs = model.module("common_structs.py")
    csc = cs.classes.get("CallSite")
    if csc is None:
        raise AnalysisError("CallSite vanished")
    ids = [n.targets[0].attr for n in walk_no_nested(csc.methods["__init__"].node) if isinstance(n, ast.Assign) and is_self_attr(n.targets[0])]
    for meth in ("__eq__", "__hash__"):
        f = csc.methods.get(meth)
        key = f"common_structs.py::CallSite.{meth}::involves caller, call statement and callee"
        if f is None:
            rep.violation(RID, key, "common_structs.py", csc.node.lineno, f"CallSite has no {meth}: contexts compare by identity")
            continue
        used = {n.attr for n in walk_no_nested(f.node) if isinstance(n, ast.Attribute) and is_self_attr(n)}
        if set(ids) <= used:
            rep.holds(RID, key, "common_structs.py", f.node.lineno, f"uses {sorted(ids)}")
        else:
            rep.violation(RID, key, "common_structs.py", f.node.lineno,
                          f"CallSite.{meth} ignores {sorted(set(ids) - used)}: two call sites that differ only there share one context, so a value "
                          f"passed at one call site appears in the result of the other")


def _c09_widening(x, guards, pre, fnode=None):
    from .c08 import is_widened
    return fnode is not None and is_widened(fnode, guards, pre)


def _c09_adj():
    from .c08 import C08_ADJUDICATED
    return {k: v for k, v in C08_ADJUDICATED.items() if k.startswith("core/stmt_states.py::") or k.startswith("core/global_stmt_states.py::")}


C09_ADJ = _c09_adj()


# ---------------------------------------------------------------- self-test mutants
def _t(old, new, count=1):
    return lambda src: __import__("sa.mutate", fromlist=["x"]).text_replace(src, old, new, count)


MUTANTS = [
    ("second-operand-generator-exhausted", SS,
     _t("        new_states = set()\n        for operand_state_index in operand_states:\n            operand_state = self.frame.symbol_state_space[operand_state_index]\n            if not isinstance(operand_state, State):\n                continue\n            if operand_state.state_type != STATE_TYPE_KIND.REGULAR:\n                continue\n            for operand2_state_index in operand2_states:\n                operand2_state = self.frame.symbol_state_space[operand2_state_index]",
        "        new_states = set()\n        operand2_iter = (i for i in operand2_states)\n        for operand_state_index in operand_states:\n            operand_state = self.frame.symbol_state_space[operand_state_index]\n            if not isinstance(operand_state, State):\n                continue\n            if operand_state.state_type != STATE_TYPE_KIND.REGULAR:\n                continue\n            for operand2_state_index in operand2_iter:\n                operand2_state = self.frame.symbol_state_space[operand2_state_index]"),
     "one-shot iterator consumed inside a loop"),
    ("field-write-in-place", SS, _t("                new_receiver_state.fields[each_field_state.value] = source_states", "                receiver_state.fields[each_field_state.value] = source_states"),
     "field_write_stmt_state"),
    ("array-write-no-copy", SS, _t("                new_array_state_index = self.create_copy_of_state_and_add_space(status, stmt_id, each_array_state_index, stmt)\n                new_array_state: State = self.frame.symbol_state_space[new_array_state_index]\n\n                self.make_state_tangping(new_array_state)",
                                   "                new_array_state_index = each_array_state_index\n                new_array_state: State = self.frame.symbol_state_space[new_array_state_index]\n\n                self.make_state_tangping(new_array_state)"),
     "array_write_stmt_state"),
    ("callsite-hash-ignores-stmt", "common_structs.py", _t("        return hash((self.caller_id, self.call_stmt_id, self.callee_id))", "        return hash((self.caller_id, self.callee_id))"), "CallSite.__hash__"),
    ("callsite-eq-ignores-stmt", "common_structs.py", _t("        return (self.caller_id == other.caller_id and\n                self.call_stmt_id == other.call_stmt_id and\n", "        return (self.caller_id == other.caller_id and\n"), "CallSite.__eq__"),
    ("context-without-call-stmt", "common_structs.py", _t("        self.call_site = CallSite(self.caller_id, self.call_stmt_id, self.method_id)", "        self.call_site = CallSite(self.caller_id, 0, self.method_id)"), "ComputeFrame"),
    ("state-kill-includes-own", "core/prelim_semantics.py", _t("            if each_def_state.index not in new_defined_state_set:\n                all_def_stmt_except_current_stmt.add(each_def_state)", "            all_def_stmt_except_current_stmt.add(each_def_state)"),
     "update_current_state_bit"),
    ("param-binding-first-match-only", "core/global_stmt_states.py",
     _t("                    self.add_arg_to_param_edge(each_pair, status, parameter_name_symbol)\n",
        "                    self.add_arg_to_param_edge(each_pair, status, parameter_name_symbol)\n                    break\n"),
     "C09.R4"),
]
