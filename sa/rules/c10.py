"""C10 -- taint analysis reports every explicit source-to-sink flow (DESIGN section 3, C10).

Completeness over programs is not static.  Decided: the kind tables, edge-kind tables and position
protocol that every such flow depends on agree between producer and consumer.
"""
from __future__ import annotations

import ast
import os
from typing import Dict, List, Optional, Set, Tuple

from ..astutil import is_const, kwarg
from ..cfg import cfg_of
from ..model import AnalysisError, Func, RepoModel, call_name, const_str, dotted, is_self_attr, literal, norm, walk_no_nested
from .c11 import accept_functions, yaml_rules

TA = "taint/taint_analysis.py"
# edge kinds the propagation may ignore (reason each)
IGNORED_EDGE_KINDS = {
    "STATE_COPY": "taint tags are keyed by state_id, which a copy shares with its original",
    "STATE_IS_USED": "constant state used by a statement; constants carry no source tag",
    "REGULAR": "placeholder kind, never produced with data",
    "CALL_RETURN": "return values flow through SYMBOL_FLOW edges added when the summary is applied",
    "INDIRECT_SYMBOL_STATE": "never produced by the analysis core on the pinned tree",
}


def _enum(model: RepoModel, name: str) -> Dict[str, int]:
    cm = model.module("config/constants.py")
    v = cm.assigns.get(name)
    d = literal(v.args[0]) if isinstance(v, ast.Call) and v.args else NotImplemented
    if d is NotImplemented:
        raise AnalysisError(f"constants.{name} is not a literal table")
    return d


def check_candidate_names_agree(model: RepoModel, rep, RID: str):
    from ..model import canon_code
    """A method-call statement is accepted as a sink by one function and given its tag by another; both build the list of names the rule
    name is looked up in.  Whatever the acceptance appends UNCONDITIONALLY (the literal `<receiver>.<method>` of the statement) the
    tag computation must append unconditionally too -- otherwise a statement is kept as a sink but no rule matches it and its tag is 0."""
    ta = model.module("taint/taint_analysis.py")
    ap = ta.classes.get("TaintRuleApplier")
    acc = ap.methods.get("should_apply_object_call_stmt_sink_rules") if ap else None
    tag = ap.methods.get("get_sink_tag_by_rules") if ap else None
    if acc is None or tag is None:
        raise AnalysisError("TaintRuleApplier.should_apply_object_call_stmt_sink_rules / get_sink_tag_by_rules vanished")

    def appended(f: Func):
        """{text of appended expression: unconditional?} for appends to a list local that is later used in `rule.name in <list>`"""
        lists = {c.comparators[0].id for c in walk_no_nested(f.node) if isinstance(c, ast.Compare) and isinstance(c.ops[0], ast.In) and isinstance(c.comparators[0], ast.Name)
                 and isinstance(c.left, ast.Attribute) and c.left.attr == "name"}
        cfg = cfg_of(f.node)
        out = {}
        for n in cfg.g.nodes:
            for c in cfg.calls_at(n):
                if isinstance(c.func, ast.Attribute) and c.func.attr == "append" and isinstance(c.func.value, ast.Name) and c.func.value.id in lists and c.args:
                    # the dispatch on the statement kind (`<x> == "object_call_stmt"`, node type tests) is not a condition on the NAME
                    conds = [a for a, t in cfg.conditions_at(n) if not (isinstance(a, ast.Compare) and any(
                        isinstance(x, ast.Constant) and isinstance(x.value, str) and (x.value.endswith("_stmt") or x.value in ("new_object",)) for x in ast.walk(a)))
                        and "node_type" not in norm(a) and not any(isinstance(x, ast.Attribute) and x.attr in ("STMT", "SYMBOL", "STATE") for x in ast.walk(a))]
                    in_loop = any(n in body and cfg.kind[h] == "iter" for h, body in cfg.loop_body_nodes.items())
                    k_ = canon_code("`" + norm(c.args[0]) + "`")
                    out[k_] = (not conds and not in_loop) or out.get(k_, False)
        return out
    a_, t_ = appended(acc), appended(tag)
    key = "taint/taint_analysis.py::get_sink_tag_by_rules[object_call_stmt]::looks the rule name up in the names the acceptance accepts by"
    missing = sorted(x for x, unc in a_.items() if unc and not t_.get(x, False) and x in t_) + sorted(x for x, unc in a_.items() if unc and x not in t_ and "__init__" not in x)
    if not a_:
        rep.unknown(RID, key, ta.rel, acc.node.lineno, "candidate-name list of the acceptance not recognised")
    elif missing:
        rep.violation(RID, key, ta.rel, tag.node.lineno,
                      f"should_apply_object_call_stmt_sink_rules accepts a statement whenever a rule is called `{missing[0]}` (appended unconditionally), but "
                      f"get_sink_tag_by_rules adds that name only under a condition (or not at all): a call on a receiver that HAS states -- a local "
                      f"instance, a parameter -- is kept as a sink, no rule matches it in the tag computation, and the flow into it is not reported")
    else:
        rep.holds(RID, key, ta.rel, tag.node.lineno, f"unconditional names of the acceptance {sorted(x for x, u in a_.items() if u)} are unconditional in the tag computation")


def check_stateless_callee_fallback(model: RepoModel, rep, RID: str):
    """An unresolved function (`sink`, `sourc`) gets a state for its callee symbol at its FIRST call in a method only; at every later call
    the lookup of the callee's states is empty.  The tag computation falls back to the name in the statement in that case; the
    matchers that decide whether the call is a source / a sink at all have to fall back the same way, otherwise only the first call of
    each configured function per method is ever matched."""
    ta = model.module("taint/taint_analysis.py")
    ap = ta.classes.get("TaintRuleApplier")
    getter = "get_stmt_used_symbol_and_state_by_pos"
    for fname in ("should_apply_call_stmt_sink_rules", "apply_call_stmt_source_rules"):
        f = ap.methods.get(fname) if ap else None
        if f is None:
            raise AnalysisError(f"TaintRuleApplier.{fname} vanished")
        states_var = None
        for a in walk_no_nested(f.node):
            if isinstance(a, ast.Assign) and isinstance(a.value, ast.Call) and (call_name(a.value) or "").endswith(getter) and isinstance(a.targets[0], ast.Tuple) \
                    and len(a.targets[0].elts) == 2 and isinstance(a.targets[0].elts[1], ast.Name):
                states_var = a.targets[0].elts[1].id
        key = f"{ta.rel}::TaintRuleApplier.{fname}::a call whose callee has no state is matched by its name"
        if states_var is None:
            rep.unknown(RID, key, ta.rel, f.node.lineno, "callee state lookup not recognised")
            continue
        cfg = cfg_of(f.node)
        ok = False
        for n in cfg.g.nodes:
            conds = cfg.conditions_at(n)
            if not any(isinstance(a, ast.Name) and a.id == states_var and not t for a, t in conds):
                continue
            # under "no states": a comparison of the rule's name with a name that leads to acceptance
            for e in cfg.exprs_at(n):
                for x in ast.walk(e):
                    if isinstance(x, ast.Compare) and isinstance(x.ops[0], ast.Eq) and any(isinstance(s_, ast.Attribute) and s_.attr == "name" for s_ in [x.left] + x.comparators):
                        ok = True
            for a, t in conds:
                if t and isinstance(a, ast.Compare) and isinstance(a.ops[0], ast.Eq) and any(isinstance(s_, ast.Attribute) and s_.attr == "name" for s_ in [a.left] + a.comparators):
                    ok = True
        if ok:
            rep.holds(RID, key, ta.rel, f.node.lineno, f"under `not {states_var}` the rule's name is compared with the name in the statement")
        else:
            rep.violation(RID, key, ta.rel, f.node.lineno,
                          f"{fname} matches a rule only through the states of the callee symbol (`{states_var}`); a later call of the same unresolved function in a "
                          f"method has none, so only the FIRST call of each configured function per method is matched: `sink(0); sink(a)` reports no flow "
                          f"although get_sink_tag_by_rules would tag the second call by its name")


def check_use_positions(model: RepoModel, rep, RID: str):
    ps = model.module("core/prelim_semantics.py")
    # every producer numbers a use by its index in the WHOLE used-symbols list of the statement (that is the position the rules' \%argN
    # are translated to): an enumerate() over a filtered copy of the list shifts every symbol that follows a filtered-out entry
    n_enum = 0
    for f_ in ps.all_funcs():
        for L in walk_no_nested(f_.node):
            if not (isinstance(L, ast.For) and isinstance(L.iter, ast.Call) and call_name(L.iter) == "enumerate" and L.iter.args and isinstance(L.target, ast.Tuple)
                    and len(L.target.elts) == 2 and isinstance(L.target.elts[0], ast.Name)):
                continue
            posv = L.target.elts[0].id
            feeds = any(isinstance(c, ast.Call) and any(k.arg == "pos" and isinstance(k.value, ast.Name) and k.value.id == posv for k in c.keywords) for c in ast.walk(L))
            if not feeds:
                continue
            n_enum += 1
            src = L.iter.args[0]
            if isinstance(src, ast.Name):
                ds = [a_.value for a_ in walk_no_nested(f_.node) if isinstance(a_, ast.Assign) and isinstance(a_.targets[0], ast.Name) and a_.targets[0].id == src.id]
                src = ds[0] if len(ds) == 1 else src
            key = f"{ps.rel}::{f_.qualname}::use positions are indices of the whole used-symbols list"
            filtered = next((x for x in ast.walk(src) if isinstance(x, (ast.ListComp, ast.GeneratorExp)) and any(g.ifs for g in x.generators)), None) \
                or next((x for x in ast.walk(src) if isinstance(x, ast.Call) and call_name(x) == "filter"), None)
            if filtered is not None:
                rep.violation(RID, key, ps.rel, L.lineno,
                              f"{f_.qualname} numbers the uses with enumerate over `{norm(src)[:90]}`, a FILTERED copy of the used symbols: a symbol that comes "
                              f"after a filtered-out entry (a literal argument) gets a position one too small, so the edge says the tainted value is "
                              f"argument N-1 -- a sink rule for \\%arg0 then fires for a value passed as the second argument")
            else:
                rep.holds(RID, key, ps.rel, L.lineno, f"enumerate({norm(src)[:70]})")
    if not n_enum:
        raise AnalysisError("prelim_semantics.py: no enumerate() loop feeding `pos=` of a state-flow edge found")


def run(model: RepoModel, rep, tier: str):
    rep.not_decided = ("completeness for containers, closures, globals and multi-file flows; that the state-flow graph contains the edges "
                       "a concrete flow needs; rule name matching against access paths")
    m = model.module(TA)
    ta = m.classes.get("TaintAnalysis")
    ap = m.classes.get("TaintRuleApplier")
    pf = m.classes.get("PathFinder")
    if not (ta and ap and pf):
        raise AnalysisError("taint classes vanished")
    rep.rule("C10.R1", "sink kinds agree: every statement kind find_sinks can accept has a branch in get_sink_tag_by_rules that computes "
                       "its tag", 3)
    rep.rule("C10.R2", "configuration kinds agree: every `operation` value and every key used by the shipped source/sink rules is "
                       "understood by the loader and dispatched by a matcher", 10)
    rep.rule("C10.R3", "every state-flow edge kind the analysis core produces is propagated by the taint worklist in the direction it is "
                       "produced, or is in the reasoned ignore table", 6)
    rep.rule("C10.R4", "inter-procedural flow: binding an argument to a parameter adds a SYMBOL_FLOW edge; matchers look the callee up at "
                       "the position the graph producer assigns to it", 4)
    rep.rule("C10.R6", "nothing is dropped on the way: every (source, sink) pair is evaluated unless its own tags justify skipping it, and a "
                       "method summary accumulates (unions) what each exit of the method contributes", 2)
    from ..generic import check_accumulators
    check_accumulators(model, rep, "C10.R7", [r for r in ("taint/taint_analysis.py", "taint/rule_manager.py", "taint/taint_structs.py") if r in model.modules],
                       {}, "sources, sinks, matching rules or propagated nodes are missing, so an explicit flow through them is not reported", 10)
    rep.rule("C10.R5", "worklist monotonicity: a node is re-enqueued only when a tag grew or once per propagation", 4)

    acc = accept_functions(ap)
    gs = ap.methods.get("get_sink_tag_by_rules")
    fs, fk = ta.methods.get("find_sources"), ta.methods.get("find_sinks")
    if not (gs and fs and fk):
        raise AnalysisError("find_sources / find_sinks / get_sink_tag_by_rules vanished")

    # ------------------------------------------------------------------ R1
    called_in_sinks = {n.func.attr for n in walk_no_nested(fk.node) if isinstance(n, ast.Call) and isinstance(n.func, ast.Attribute)
                       and isinstance(n.func.value, ast.Attribute) and n.func.value.attr == "rule_applier"}
    # the local holding the statement's operation (by role: assigned from <stmt>.operation)
    op_vars = {n.targets[0].id for n in walk_no_nested(gs.node) if isinstance(n, ast.Assign) and isinstance(n.targets[0], ast.Name)
               and isinstance(n.value, ast.Attribute) and (n.value.attr == "operation" or n.value.attr == "name" and isinstance(n.value.value, ast.Name)
                                                            and n.value.value.id in gs.params)} or {"operation"}
    tag_branches = {const_str(n.test.comparators[0]) for n in walk_no_nested(gs.node)
                    if isinstance(n, ast.If) and isinstance(n.test, ast.Compare) and isinstance(n.test.left, ast.Name)
                    and n.test.left.id in op_vars and isinstance(n.test.ops[0], ast.Eq)}
    # duplicate (unreachable) arms
    arms = [const_str(n.test.comparators[0]) for n in walk_no_nested(gs.node) if isinstance(n, ast.If) and isinstance(n.test, ast.Compare)
            and isinstance(n.test.left, ast.Name) and n.test.left.id in op_vars]
    dups = sorted({a for a in arms if arms.count(a) > 1})
    if dups:
        rep.info("C10.R1", f"{TA}::get_sink_tag_by_rules::duplicate arms {dups}", TA, gs.node.lineno,
                 f"`elif operation == ...` arms for {dups} appear twice; the second is unreachable")
    for name in sorted(called_in_sinks):
        if name not in acc:
            continue
        f, coll, kind = acc[name]
        key = f"{TA}::find_sinks::{kind} (via {name})"
        if kind in tag_branches:
            rep.holds("C10.R1", key, TA, f.node.lineno, f"get_sink_tag_by_rules has a branch for {kind}")
        else:
            rep.violation("C10.R1", key, TA, f.node.lineno,
                          f"find_sinks accepts {kind} statements through {name}, but get_sink_tag_by_rules has no `operation == \"{kind}\"` "
                          f"branch (branches: {sorted(b for b in tag_branches if b)}): the sink tag of such a statement is always 0 and no flow "
                          f"into it is ever reported")

    # ------------------------------------------------------------------ R2
    rm = model.module("taint/rule_manager.py")
    rule_cls = rm.classes.get("Rule")
    rule_fields = {st.target.id for st in rule_cls.node.body if isinstance(st, ast.AnnAssign) and isinstance(st.target, ast.Name)}
    init = rm.classes["RuleManager"].methods.get("init")
    # Rule(...) constructor calls in init, in order: source, sink, propagation
    ctor = [n for n in walk_no_nested(init.node) if isinstance(n, ast.Call) and call_name(n) == "Rule"]
    ctor.sort(key=lambda n: n.lineno)
    passed = [{k.arg for k in c.keywords} for c in ctor]
    files = ["source.yaml", "sink.yaml", "propagation.yaml"]
    src_dispatch = {const_str(n.comparators[0]) for n in walk_no_nested(fs.node) if isinstance(n, ast.Compare) and dotted(n.left) == "node.name"}
    op_compares: Set[str] = set()
    def _loop_targets(fnode) -> Set[str]:
        return {x.id for n in walk_no_nested(fnode) if isinstance(n, (ast.For, ast.comprehension)) for x in ast.walk(n.target) if isinstance(x, ast.Name)}
    for f in ap.methods.values():
        lt = _loop_targets(f.node)
        for n in walk_no_nested(f.node):
            # `<rule loop variable>.operation == "..."` (the variable is found by role: a loop target)
            if isinstance(n, ast.Compare) and isinstance(n.left, ast.Attribute) and n.left.attr == "operation" \
                    and isinstance(n.left.value, ast.Name) and n.left.value.id in lt:
                for c in n.comparators:
                    if const_str(c):
                        op_compares.add(const_str(c))
    kinds_without_op_test = {kind for name, (f, coll, kind) in acc.items() if kind and "operation" not in {
        x.attr for t in walk_no_nested(f.node) if isinstance(t, ast.If) for x in ast.walk(t.test)
        if isinstance(x, ast.Attribute) and isinstance(x.value, ast.Name) and x.value.id in _loop_targets(f.node)}}
    for i, fname in enumerate(files):
        rules = yaml_rules(model.root, fname)
        if not rules:
            continue
        keys: Dict[str, int] = {}
        ops: Dict[str, int] = {}
        for r in rules:
            for k in r:
                if not k.startswith("__"):
                    keys[k] = keys.get(k, 0) + 1
            ops[r.get("operation")] = ops.get(r.get("operation"), 0) + 1
        for k in sorted(keys):
            key = f"default_settings/{fname}::key `{k}`"
            if k in rule_fields and i < len(passed) and k in passed[i]:
                rep.holds("C10.R2", key, f"default_settings/{fname}", 0, f"used by {keys[k]} rules; loaded into Rule.{k}")
            elif k not in rule_fields:
                rep.violation("C10.R2", key, f"default_settings/{fname}", 0, f"{keys[k]} shipped rules use key `{k}`, which Rule does not declare: it is silently ignored")
            else:
                rep.violation("C10.R2", key, "taint/rule_manager.py", ctor[i].lineno if i < len(ctor) else 0,
                              f"{keys[k]} shipped rules in {fname} use key `{k}`, but RuleManager.init does not pass it to Rule(...) for this "
                              f"file: the restriction/attribute is silently dropped")
        if fname == "propagation.yaml":
            continue
        for op in sorted(o for o in ops if o):
            key = f"default_settings/{fname}::operation `{op}`"
            node_kind = op if op in src_dispatch or op in tag_branches else (op + "_stmt" if (op + "_stmt") in (src_dispatch | tag_branches) else None)
            if op in op_compares:
                rep.holds("C10.R2", key, f"default_settings/{fname}", 0, f"{ops[op]} rules; a matcher compares rule.operation with \"{op}\"")
            elif node_kind and node_kind in kinds_without_op_test:
                rep.holds("C10.R2", key, f"default_settings/{fname}", 0, f"{ops[op]} rules; the {node_kind} matcher applies them by name (it does not test rule.operation)")
            else:
                rep.violation("C10.R2", key, f"default_settings/{fname}", 0,
                              f"{ops[op]} shipped rule(s) in {fname} have operation `{op}`, which no matcher compares rule.operation with "
                              f"(known: {sorted(op_compares)}) and which names no dispatched statement kind: the rule can never apply")

    # ------------------------------------------------------------------ R3
    kinds = _enum(model, "SFG_EDGE_KIND")
    produced: Dict[str, List[Tuple[str, int]]] = {}
    for rel in ("core/prelim_semantics.py", "core/stmt_states.py", "core/global_stmt_states.py", "core/global_semantics.py", "core/resolver.py"):
        mod = model.modules.get(rel)
        if mod is None:
            continue
        for n in ast.walk(mod.tree):
            if isinstance(n, ast.keyword) and n.arg == "edge_type":
                d = dotted(n.value) or ""
                if d.startswith("SFG_EDGE_KIND."):
                    produced.setdefault(d.split(".", 1)[1], []).append((rel, n.value.lineno))
    handled: Set[str] = set()      # kinds propagated in the direction of the edge (source -> target)
    handled_any: Set[str] = set()

    def kinds_in(node) -> Set[str]:
        return {d.split(".", 1)[1] for x in ast.walk(node) if isinstance(x, ast.Attribute)
                for d in [dotted(x) or ""] if d.startswith("SFG_EDGE_KIND.")}

    for fn in ("_propagate_from_symbol", "_propagate_from_state", "_propagate_from_stmt", "_get_node_tag"):
        f = pf.methods.get(fn)
        if f is None:
            raise AnalysisError(f"PathFinder.{fn} vanished")
        handled_any |= kinds_in(f.node)
        for n in walk_no_nested(f.node):
            if isinstance(n, ast.For) and isinstance(n.iter, ast.Call):
                cn = (call_name(n.iter) or "")
                if cn.endswith("successors"):
                    handled |= kinds_in(n)
                elif cn.endswith("predecessors") and fn == "_get_node_tag":
                    handled |= kinds_in(n)    # a statement pulls the tags of the symbols it uses: forward along SYMBOL_IS_USED
    rep.analysed["edge kinds"] = {"enum": sorted(kinds), "produced": {k: len(v) for k, v in produced.items()}, "propagated forward": sorted(handled), "mentioned": sorted(handled_any)}
    for k in sorted(produced):
        key = f"SFG_EDGE_KIND.{k}"
        rel, line = produced[k][0]
        if k in handled:
            rep.holds("C10.R3", key, rel, line, f"produced at {len(produced[k])} site(s); handled by the propagation")
        elif k in IGNORED_EDGE_KINDS:
            rep.holds("C10.R3", key, rel, line, f"not propagated by design: {IGNORED_EDGE_KINDS[k]}")
        else:
            rep.violation("C10.R3", key, rel, line,
                          f"the analysis core adds {k} edges ({len(produced[k])} site(s), e.g. {rel}:{line}) but no PathFinder._propagate_* "
                          f"function handles that kind: taint stops at every such edge")
    # direction checks for the two flow kinds every inter-procedural flow needs
    sym = pf.methods["_propagate_from_symbol"]
    key = "PathFinder._propagate_from_symbol::SYMBOL_FLOW forwards along successors"
    ok = any(isinstance(n, ast.For) and isinstance(n.iter, ast.Call) and (call_name(n.iter) or "").endswith("successors") for n in walk_no_nested(sym.node)) \
        and "SYMBOL_FLOW" in handled
    (rep.holds if ok else rep.violation)("C10.R3", key, TA, sym.node.lineno,
                                         "iterates sfg.successors(u) and handles SYMBOL_FLOW" if ok else "SYMBOL_FLOW is not propagated to successors")
    stf = pf.methods["_propagate_from_stmt"]
    key = "PathFinder._propagate_from_stmt::SYMBOL_IS_DEFINED forwards to the defined symbol"
    ok = any((dotted(n) or "").endswith("SYMBOL_IS_DEFINED") for n in walk_no_nested(stf.node) if isinstance(n, ast.Attribute))
    (rep.holds if ok else rep.violation)("C10.R3", key, TA, stf.node.lineno, "handled" if ok else "a tainted statement never taints the symbol it defines")
    key = "PathFinder._get_node_tag::statement tag = union of used symbols"
    gt = pf.methods["_get_node_tag"]
    ok = any((dotted(n) or "").endswith("SYMBOL_IS_USED") for n in walk_no_nested(gt.node) if isinstance(n, ast.Attribute)) and \
        any(isinstance(n, ast.AugAssign) and isinstance(n.op, ast.BitOr) for n in walk_no_nested(gt.node))
    (rep.holds if ok else rep.violation)("C10.R3", key, TA, gt.node.lineno, "u_tag |= tag(pred) over SYMBOL_IS_USED predecessors" if ok else
                                         "a statement's tag is not the union of the tags of the symbols it uses")

    # ------------------------------------------------------------------ R4
    gsm = model.module("core/global_stmt_states.py")
    gss = gsm.classes.get("GlobalStmtStates") or next(iter(gsm.classes.values()))
    a2p = gss.methods.get("add_arg_to_param_edge")
    pds = gss.methods.get("parameter_decl_stmt_state")
    key = "core/global_stmt_states.py::argument -> parameter SYMBOL_FLOW edge"
    if a2p is None or pds is None:
        rep.violation("C10.R4", key, gsm.rel, gss.node.lineno, "add_arg_to_param_edge / parameter_decl_stmt_state vanished: no flow crosses a call")
    else:
        adds = any(isinstance(n, ast.keyword) and n.arg == "edge_type" and (dotted(n.value) or "").endswith("SYMBOL_FLOW") for n in ast.walk(a2p.node))
        called = any(isinstance(n, ast.Call) and is_self_attr(n.func, "add_arg_to_param_edge") for n in walk_no_nested(pds.node))
        if adds and called:
            rep.holds("C10.R4", key, gsm.rel, a2p.node.lineno, "parameter_decl_stmt_state -> add_arg_to_param_edge -> add_edge(..., SYMBOL_FLOW)")
        else:
            rep.violation("C10.R4", key, gsm.rel, (a2p or pds).node.lineno,
                          ("add_arg_to_param_edge no longer adds a SYMBOL_FLOW edge; " if not adds else "")
                          + ("parameter_decl_stmt_state no longer calls add_arg_to_param_edge" if not called else ""))
    # callee position protocol: producers label uses with enumerate() indices (>= 0); a consumer asking for a negative
    # position can never find the callee symbol
    getter = ta.methods.get("get_stmt_used_symbol_and_state_by_pos")
    if getter is None:
        raise AnalysisError("get_stmt_used_symbol_and_state_by_pos vanished")
    default_pos = getter.node.args.defaults[-1] if getter.node.args.defaults else None
    default_neg = isinstance(default_pos, ast.UnaryOp) and isinstance(default_pos.op, ast.USub)
    ps = model.module("core/prelim_semantics.py")
    producer_nonneg = True
    n_prod = 0
    for n in ast.walk(ps.tree):
        if isinstance(n, ast.Call) and call_name(n) == "SFGEdge":
            et = kwarg(n, "edge_type")
            if (dotted(et) or "").endswith("SYMBOL_IS_USED"):
                n_prod += 1
                p = kwarg(n, "pos")
                if isinstance(p, ast.UnaryOp) and isinstance(p.op, ast.USub):
                    producer_nonneg = False
    rep.analysed["SYMBOL_IS_USED producers"] = n_prod
    seen_lookup: List[str] = []
    for name, f in sorted(ap.methods.items()):
        for n in sorted((x for x in walk_no_nested(f.node) if isinstance(x, ast.Assign)), key=lambda x: x.lineno):
            if isinstance(n, ast.Assign) and isinstance(n.value, ast.Call) and (call_name(n.value) or "").endswith(getter.name):
                tg = n.targets[0]
                first = tg.elts[0].id if isinstance(tg, ast.Tuple) and isinstance(tg.elts[0], ast.Name) else ""
                second = tg.elts[1].id if isinstance(tg, ast.Tuple) and len(tg.elts) > 1 and isinstance(tg.elts[1], ast.Name) else ""
                p = kwarg(n.value, "pos") or (n.value.args[1] if len(n.value.args) > 1 else None)
                neg = (p is None and default_neg) or (isinstance(p, ast.UnaryOp) and isinstance(p.op, ast.USub))
                # does the function give up when the lookup is empty?
                gives_up = any(isinstance(t, ast.If) and isinstance(t.test, (ast.BoolOp, ast.UnaryOp)) and first and
                               any(isinstance(x, ast.Name) and x.id == first for x in ast.walk(t.test)) and
                               any(isinstance(s, ast.Return) and is_const(s.value, False) for s in t.body) for t in walk_no_nested(f.node))
                key = f"{TA}::TaintRuleApplier.{name}::callee lookup position"
                n_lookup = sum(1 for k_ in seen_lookup if k_ == key)
                seen_lookup.append(key)
                if n_lookup:
                    key += f" #{n_lookup + 1}"
                # is what the lookup returns read afterwards (names built from the states, rules matched against them)?
                result_read = [x for x in walk_no_nested(f.node) if isinstance(x, ast.Name) and isinstance(x.ctx, ast.Load) and x.id in (first, second)
                               and x.id != "_" and x.lineno > n.lineno]
                # a lookup behind contradictory conditions (`op in [.., "call_stmt", ..]` returned earlier, then `op == "call_stmt"`) never runs
                fcfg = cfg_of(f.node)
                conds = fcfg.conditions_at(fcfg.node(n)) if id(n) in fcfg.node_of else []
                eq_true = {(norm(a.left), const_str(a.comparators[0])) for a, t in conds if t and isinstance(a, ast.Compare) and len(a.ops) == 1
                           and isinstance(a.ops[0], ast.Eq) and const_str(a.comparators[0]) is not None}
                dead = any((not t) and isinstance(a, ast.Compare) and len(a.ops) == 1 and isinstance(a.ops[0], ast.In)
                           and isinstance(a.comparators[0], (ast.List, ast.Tuple, ast.Set))
                           and any((norm(a.left), const_str(e)) in eq_true for e in a.comparators[0].elts) for a, t in conds)
                if not neg:
                    rep.holds("C10.R4", key, TA, n.lineno, f"looks the callee up at position {norm(p) if p is not None else 'default'}")
                elif dead:
                    rep.info("C10.R4", key, TA, n.lineno, f"{name}: this lookup sits behind conditions that exclude each other; it never runs")
                elif producer_nonneg and result_read:
                    rep.violation("C10.R4", key, TA, n.lineno,
                                  f"{name} asks for the used symbol at position -1 and then matches rules against the states it gets back "
                                  f"(line {result_read[0].lineno}), but every producer of SYMBOL_IS_USED edges labels uses with enumerate() indices "
                                  f">= 0: the lookup is always empty, so the callee is only ever known by the text in the statement -- a method "
                                  f"called on a field (`self.queue.add(x)`) or a function called through a variable never matches its rule")
                elif producer_nonneg and gives_up:
                    rep.violation("C10.R4", key, TA, n.lineno,
                                  f"{name} asks for the used symbol at position -1 and returns False when there is none, but every producer "
                                  f"of SYMBOL_IS_USED edges labels uses with enumerate() indices >= 0: the rule kind this matcher implements "
                                  f"can never match")
                elif producer_nonneg:
                    rep.info("C10.R4", key, TA, n.lineno,
                             f"{name} asks for position -1 (never produced); it falls back to the textual name when the lookup is empty")

    check_use_positions(model, rep, "C10.R4")
    check_candidate_names_agree(model, rep, "C10.R4")
    check_stateless_callee_fallback(model, rep, "C10.R4")
    # ------------------------------------------------------------------ R5
    enq = pf.methods.get("_enqueue")
    for fn in ("_propagate_from_symbol", "_propagate_from_state", "_propagate_from_stmt"):
        f = pf.methods[fn]
        cfg = cfg_of(f.node)
        bad = None
        n_enq = 0
        for n in cfg.g.nodes:
            for c in cfg.calls_at(n):
                if is_self_attr(c.func, "_enqueue"):
                    n_enq += 1
                    brs = cfg.controlling_branches(n)
                    growth = any(isinstance(t, ast.If) and isinstance(t.test, ast.Compare) and isinstance(t.test.ops[0], ast.NotEq)
                                 and isinstance(t.test.left, ast.BinOp) and isinstance(t.test.left.op, ast.BitOr) and lab == "T" for t, lab in brs)
                    once = any(isinstance(t, ast.If) and "_processed_nodes" in norm(t.test) and lab == "T" for t, lab in brs)
                    stmt_target = any(isinstance(t, ast.If) and "SYMBOL_IS_USED" in norm(t.test) and lab == "T" for t, lab in brs)
                    if not (growth or once or stmt_target):
                        bad = (n, c)
        key = f"{TA}::PathFinder.{fn}::enqueue only on growth / once"
        if bad is None:
            rep.holds("C10.R5", key, TA, f.node.lineno,
                      f"{n_enq} enqueue site(s), each under a tag-growth test, the once-per-run test, or the symbol->statement hand-over")
        else:
            rep.violation("C10.R5", key, TA, bad[1].lineno,
                          f"{fn} enqueues `{norm(bad[1].args[-1])}` unconditionally: on a cyclic graph the worklist never empties (or, if "
                          f"dedup hides it, nodes are reprocessed without need)")
    # symbol tags are keyed by symbol id while the work-list is keyed by graph node: a write from a statement that finds the tag already
    # present must still explore the node if this propagation never processed it.  The statement-level propagation has this fallback at
    # every symbol write; the sites must agree.
    f = pf.methods["_propagate_from_stmt"]
    sites = []
    for n in walk_no_nested(f.node):
        if isinstance(n, ast.If) and isinstance(n.test, ast.Compare) and isinstance(n.test.ops[0], ast.NotEq) and isinstance(n.test.left, ast.BinOp) \
                and isinstance(n.test.left.op, ast.BitOr) and any(isinstance(c, ast.Call) and isinstance(c.func, ast.Attribute) and c.func.attr == "set_symbol_tag"
                                                                  for b in n.body for c in ast.walk(b)):
            fb = any(isinstance(c, ast.Call) and is_self_attr(c.func, "_enqueue") for b in n.orelse for c in ast.walk(b)) and \
                any("_processed_nodes" in norm(x) for b in n.orelse for x in ast.walk(b) if isinstance(x, ast.If))
            sites.append((n, fb))
    key = f"{TA}::PathFinder._propagate_from_stmt::never-processed nodes are explored even when the tag is already present"
    if len(sites) >= 2 and any(fb for _, fb in sites) and not all(fb for _, fb in sites):
        miss = next(n for n, fb in sites if not fb)
        rep.violation("C10.R5", key, TA, miss.lineno,
                      f"the symbol write at line {miss.lineno} (`{norm(miss.test)}`) has no fallback for `tag already present but node never "
                      f"processed`, unlike the other symbol write of _propagate_from_stmt: tags are keyed by symbol id and the work-list by node, "
                      f"so a re-initialised variable that was tainted before is never explored from its new definition and the flow through "
                      f"it is lost")
    elif sites and all(fb for _, fb in sites):
        rep.holds("C10.R5", key, TA, sites[0][0].lineno, f"{len(sites)} symbol write(s), each with the `not in _processed_nodes` fallback")
    elif sites:
        rep.unknown("C10.R5", key, TA, sites[0][0].lineno, "no symbol write has the fallback; nothing to compare")
    key = f"{TA}::PathFinder._enqueue::deduplicates"
    ok = enq is not None and any(isinstance(n, ast.If) and isinstance(n.test, ast.Compare) and isinstance(n.test.ops[0], ast.In)
                                 and any(isinstance(s, ast.Return) for s in n.body) for n in walk_no_nested(enq.node))
    (rep.holds if ok else rep.violation)("C10.R5", key, TA, enq.node.lineno if enq else 0,
                                         "a node already in the worklist is not added twice" if ok else "_enqueue no longer deduplicates")

    # ------------------------------------------------------------------ R6
    ff = ta.methods.get("find_flows")
    if ff is None:
        raise AnalysisError("find_flows vanished")
    fcfg = cfg_of(ff.node)
    inner = [n for n in fcfg.g.nodes if fcfg.kind[n] == "iter" and isinstance(fcfg.stmt[n].iter, ast.Name) and fcfg.stmt[n].iter.id == ff.params[2]]
    key = f"{TA}::TaintAnalysis.find_flows::every pair reaches the tag comparison"
    if not inner:
        rep.unknown("C10.R6", key, TA, ff.node.lineno, "pair loop not recognised")
    else:
        h = inner[0]
        body = fcfg.loop_body_nodes[h]
        compare_nodes = {n for n in body if fcfg.kind[n] == "test" and isinstance(fcfg.stmt[n], ast.If)
                         and any(isinstance(x, ast.BinOp) and isinstance(x.op, ast.BitAnd) for x in ast.walk(fcfg.stmt[n].test))}
        # skipping is only justified by the pair's own tags
        tag_names = set()
        for n in body:
            st = fcfg.stmt.get(n)
            if fcfg.kind[n] == "stmt" and isinstance(st, ast.Assign) and isinstance(st.value, ast.Call) \
                    and (call_name(st.value) or "").split(".")[-1] in ("propagate_taint", "get_sink_tag_by_rules"):
                for t in st.targets:
                    for x in ast.walk(t):
                        if isinstance(x, ast.Name):
                            tag_names.add(x.id)
        justified = set()
        for (t, lab), b in fcfg.branch_of.items():
            if t in body and isinstance(fcfg.stmt[t], ast.If) and any(isinstance(x, ast.Name) and x.id in tag_names for x in ast.walk(fcfg.stmt[t].test)):
                justified.add(b)
        pth = fcfg.back_paths_all_pass(h, compare_nodes | justified)
        if pth is None and compare_nodes:
            rep.holds("C10.R6", key, TA, fcfg.stmt[h].lineno, "every path through the pair loop reaches `(sink_tag & tag) != 0` (or branches on those tags)")
        else:
            skip = [fcfg.stmt[n] for n in (pth or []) if fcfg.kind.get(n) == "test"]
            rep.violation("C10.R6", key, TA, (skip[0].lineno if skip else fcfg.stmt[h].lineno),
                          "find_flows can move on to the next (source, sink) pair without comparing the pair's tags"
                          + (f" (skip condition `{norm(skip[0].test)}`)" if skip else "")
                          + ": tags are keyed by symbol/state id, not by graph position, so no structural pre-filter is sound; flows through "
                            "globals, closures and re-used variables are dropped", path=fcfg.describe_path(pth or []))
    check_summary_accumulates(model, rep, "C10.R6")
    from .c07 import _r4_keyword_order
    _r4_keyword_order(model, rep, "C10.R8")
    from ..generic2 import check_index_partitions
    rep.rule("C10.R9", "argument binding covers every position exactly once: the positional loop over [0, common_len), the loop over the remaining "
                        "positional parameters and the tail slice of the remaining positional arguments continue exactly where the first loop stopped, "
                        "so the parameter in between receives no argument state and no argument-to-parameter flow edge", 2)
    check_index_partitions(model, rep, "C10.R9", ["core/stmt_states.py"])
    from ..generic3 import check_positional_records, check_enum_distinct
    rep.rule("C10.R11", "what a method summary records survives its copy: records built positionally from same-named attributes put argument i into "
                        "field i (the top-down phase works on copies of the summaries), and the kinds of state-flow edges and nodes are distinct numbers", 4)
    check_positional_records(model, rep, "C10.R11", ["common_structs.py"] + sorted(r for r in model.modules if r.startswith("core/")))
    check_enum_distinct(model, rep, "C10.R11", "config/constants.py", ["SFG_EDGE_KIND", "SFG_NODE_KIND", "STATE_TYPE_KIND"])
    from .. import generic4
    rep.rule("C10.R12", "a rule restricted to a line matches the statement on that line: every comparison with rule.line_num is against the 0-based "
                        "row + 1, the offset stored in SFGNode.line_no included", 6)
    generic4.check_rule_line_offsets(model, rep, "C10.R12")
    rep.rule("C10.R13", "every pending node of the propagation is processed: the membership set of the worklist holds the queued elements themselves, "
                        "not a coarser key", 1)
    generic4.check_worklist_membership(model, rep, "C10.R13")
    # ------------------------------------------------------------------ R10 the graph is read-only for the taint phase
    rep.rule("C10.R10", "the taint phase writes only to objects it creates: an attribute store on a local is a store into an object constructed in "
                        "that function or returned to it by a method of the phase that constructs it -- never into a node, an edge weight or a rule "
                        "taken from the state-flow graph or the rule set, which every later (source, sink) pair reads again", 3)
    tmods = [r for r in ("taint/taint_analysis.py", "taint/taint_structs.py", "taint/rule_manager.py") if r in model.modules]

    def constructs(fn: Func, depth=0) -> bool:
        """fn returns an object it constructs"""
        for r in walk_no_nested(fn.node):
            if isinstance(r, ast.Return) and isinstance(r.value, ast.Name):
                ds = [a.value for a in walk_no_nested(fn.node) if isinstance(a, ast.Assign) and len(a.targets) == 1 and isinstance(a.targets[0], ast.Name)
                      and a.targets[0].id == r.value.id]
                if ds and all(isinstance(d, ast.Call) and (call_name(d) or "").split(".")[-1][:1].isupper() for d in ds):
                    return True
        return False
    for rel in tmods:
        for f in model.module(rel).all_funcs():
            for st in walk_no_nested(f.node):
                tgs = st.targets if isinstance(st, ast.Assign) else ([st.target] if isinstance(st, ast.AugAssign) else [])
                for tg in tgs:
                    base = tg
                    while isinstance(base, (ast.Attribute, ast.Subscript)):
                        base = base.value
                    if not (isinstance(tg, ast.Attribute) and isinstance(base, ast.Name) and base.id not in ("self", "cls")):
                        continue
                    key = f"{rel}::{f.qualname}::`{norm(tg)}` written::the object is created by the taint phase"
                    defs = [a.value for a in walk_no_nested(f.node) if isinstance(a, ast.Assign) and len(a.targets) == 1 and isinstance(a.targets[0], ast.Name)
                            and a.targets[0].id == base.id]
                    ok = bool(defs)
                    for d in defs:
                        if isinstance(d, ast.Call) and (call_name(d) or "").split(".")[-1][:1].isupper():
                            continue
                        callee = None
                        if isinstance(d, ast.Call) and isinstance(d.func, ast.Attribute) and f.cls is not None:
                            recv = model.expr_class(d.func.value, f) if not is_self_attr(d.func) else f.cls
                            callee = model.find_method(recv, d.func.attr) if recv is not None else None
                        if callee is not None and constructs(callee):
                            continue
                        ok = False
                    if ok:
                        rep.holds("C10.R10", key, rel, st.lineno, f"`{base.id}` is constructed here (`{norm(defs[0])[:60]}`)")
                    else:
                        rep.violation("C10.R10", key, rel, st.lineno,
                                      f"{f.qualname} stores into `{norm(tg)}`, but `{base.id}` is not an object this function created "
                                      f"({'bound by `' + norm(defs[0])[:60] + '`' if defs else 'a loop variable or parameter'}): it belongs to the state-flow "
                                      f"graph / rule set shared by all (source, sink) pairs, so the evaluation of one pair changes what the next one "
                                      f"sees (argument positions shift by one per evaluated source and later flows are lost)")


def check_summary_accumulates(model: RepoModel, rep, RID: str, declare: bool = False):
    """A method summary is the union of what every exit statement of the method contributes (shared by C10.R6, C07.R6, C08.R7)."""
    if declare:
        rep.rule(RID, "a method summary accumulates (unions) what each exit statement of the method contributes: no entry is overwritten "
                      "per exit", 1)
    gsum = None
    for c in model.module("core/prelim_semantics.py").classes.values():
        if "generate_and_save_analysis_summary" in c.methods:
            gsum = c.methods["generate_and_save_analysis_summary"]
    if gsum is None:
        raise AnalysisError("generate_and_save_analysis_summary vanished")
    summary_var = None
    for n in walk_no_nested(gsum.node):
        if isinstance(n, ast.Return) and isinstance(n.value, ast.Name):
            summary_var = n.value.id
    loops = [n for n in walk_no_nested(gsum.node) if isinstance(n, ast.For)]
    n_acc, bad = 0, None
    for lp in loops:
        loop_vars = {x.id for x in ast.walk(lp.target) if isinstance(x, ast.Name)}
        for n in ast.walk(lp):
            if isinstance(n, ast.Call) and (call_name(n) or "").endswith("add_to_dict_with_default_set") and n.args \
                    and isinstance(n.args[0], ast.Attribute) and isinstance(n.args[0].value, ast.Name) and n.args[0].value.id == summary_var:
                n_acc += 1
            if isinstance(n, ast.Assign):
                for t in n.targets:
                    if isinstance(t, ast.Subscript) and isinstance(t.value, ast.Attribute) and isinstance(t.value.value, ast.Name) \
                            and t.value.value.id == summary_var and t.value.attr.endswith(("_symbols", "_content")):
                        inner_vars = set(loop_vars)
                        for l2 in ast.walk(lp):
                            if isinstance(l2, ast.For) and any(x is n for x in ast.walk(l2)):
                                inner_vars |= {x.id for x in ast.walk(l2.target) if isinstance(x, ast.Name)}
                        key_vars = {x.id for x in ast.walk(t.slice) if isinstance(x, ast.Name)}
                        if not (key_vars & inner_vars):
                            bad = (n, t)
    key = "core/prelim_semantics.py::generate_and_save_analysis_summary::summary entries accumulate over the method's exits"
    if bad is not None:
        n, t = bad
        rep.violation(RID, key, "core/prelim_semantics.py", n.lineno,
                      f"`{norm(n)}` assigns the summary entry `{norm(t)}` inside the loop over the method's exit statements with a key that does "
                      f"not depend on the iteration: each exit overwrites what the previous one contributed, so a value returned through an "
                      f"earlier `return` is missing from the callee summary and its flow is lost")
    elif n_acc:
        rep.holds(RID, key, "core/prelim_semantics.py", gsum.node.lineno, f"{n_acc} accumulating update(s) (add_to_dict_with_default_set); no overwriting store")
    else:
        rep.unknown(RID, key, "core/prelim_semantics.py", gsum.node.lineno, "no accumulation recognised")



# ---------------------------------------------------------------- self-test mutants
def _m(kind, cls, func, pred, new=None, nth=0):
    def mut(src):
        from .. import mutate
        if kind == "del":
            return mutate.delete_stmt_where(src, cls, func, pred, nth)
        if kind == "stmt":
            return mutate.replace_stmt_where(src, cls, func, pred, new, nth)
        return mutate.replace_expr_where(src, cls, func, pred, new, nth)
    return mut


def _text(old, new):
    return lambda src: __import__("sa.mutate", fromlist=["x"]).text_replace(src, old, new)


MUTANTS = [
    ("receiver-writeback-without-unprocessed-fallback", TA,
     _text("                            self._enqueue(worklist, in_worklist, pred)\n                        else:\n                            if getattr(self, \"_processed_nodes\", None) is not None and pred not in self._processed_nodes:\n                                self._enqueue(worklist, in_worklist, pred)\n",
           "                            self._enqueue(worklist, in_worklist, pred)\n"),
     "never-processed nodes are explored"),
    ("first-sink-only", TA,
     _text("            elif self.rule_applier.apply_field_write_sink_rules(node):\n                node_list.append(node)\n",
           "            elif self.rule_applier.apply_field_write_sink_rules(node):\n                node_list.append(node)\n                break\n"),
     "C10.R7"),
    ("pairs-prefiltered", TA, lambda src: __import__("sa.mutate", fromlist=["x"]).insert_before_stmt_where(
        src, "TaintAnalysis", "find_flows", lambda st: isinstance(st, ast.Assign) and isinstance(st.targets[0], ast.Name) and st.targets[0].id == "original_manager",
        "if not nx.has_path(self.sfg, source, sink):\n    continue"), "every pair reaches"),
    ("return-states-overwritten", "core/prelim_semantics.py",
     lambda src: __import__("sa.mutate", fromlist=["x"]).replace_stmt_where(
         src, "P2PrelimSemanticAnalysis", "generate_and_save_analysis_summary",
         lambda st: isinstance(st, ast.Expr) and isinstance(st.value, ast.Call) and "return_symbols" in norm(st.value),
         "method_summary.return_symbols[SUMMARY_GENERAL_SYMBOL_ID.RETURN_SYMBOL_ID] = set(new_return_states)"), "summary entries accumulate"),
    ("field-write-tag-branch-renamed", TA, _text('elif operation == "field_write":\n            used_symbol_nodes, used_state_nodes = self.taint_analysis.get_stmt_used_symbol_and_state_by_pos(node)\n            for rule in self.rule_manager.all_sinks:\n                if rule.operation != "field_write":\n                    continue\n                if rule.name in node.operation:\n                    matching_rules.append(rule)\n        elif operation == "field_write":',
                                               'elif operation == "field_store":\n            used_symbol_nodes, used_state_nodes = self.taint_analysis.get_stmt_used_symbol_and_state_by_pos(node)\n            for rule in self.rule_manager.all_sinks:\n                if rule.operation != "field_write":\n                    continue\n                if rule.name in node.operation:\n                    matching_rules.append(rule)\n        elif operation == "field_store":'),
     "find_sinks::field_write"),
    ("symbol-flow-not-propagated", TA, _m("expr", "PathFinder", "_propagate_from_symbol",
                                          lambda e: isinstance(e, ast.Tuple) and len(e.elts) == 2 and all(isinstance(x, ast.Attribute) for x in e.elts),
                                          "(SFG_EDGE_KIND.INDIRECT_SYMBOL_FLOW,)"), "SFG_EDGE_KIND.SYMBOL_FLOW"),
    ("symbol-state-not-propagated", TA, _text("if etype == SFG_EDGE_KIND.SYMBOL_STATE:", "if etype == SFG_EDGE_KIND.INDIRECT_SYMBOL_STATE:"),
     "SFG_EDGE_KIND.SYMBOL_STATE"),
    ("arg-param-edge-kind-changed", "core/global_stmt_states.py",
     lambda src: __import__("sa.mutate", fromlist=["x"]).replace_expr_where(
         src, "GlobalStmtStates", "add_arg_to_param_edge",
         lambda e: isinstance(e, ast.Attribute) and e.attr == "SYMBOL_FLOW", "SFG_EDGE_KIND.REGULAR"), "argument -> parameter"),
    ("call-source-pos-default", TA, _m("expr", "TaintRuleApplier", "apply_call_stmt_source_rules",
                                       lambda e: isinstance(e, ast.Call) and (call_name(e) or "").endswith("get_stmt_used_symbol_and_state_by_pos"),
                                       "self.taint_analysis.get_stmt_used_symbol_and_state_by_pos(node)"), "apply_call_stmt_source_rules::callee lookup"),
    ("enqueue-unconditional", TA, _m("stmt", "PathFinder", "_propagate_from_symbol",
                                     lambda st: isinstance(st, ast.If) and isinstance(st.test, ast.Compare) and isinstance(st.test.left, ast.BinOp),
                                     "self.taint_manager.set_states_tag([v.node_id], u_tag | v_tag)\nself._enqueue(worklist, in_worklist, v)"),
     "_propagate_from_symbol::enqueue"),
    ("enqueue-no-dedup", TA, _m("del", "PathFinder", "_enqueue", lambda st: isinstance(st, ast.If)), "_enqueue::deduplicates"),
    ("sink-rule-key-not-loaded", "taint/rule_manager.py", _text('                            vuln_type=rule.get("vuln_type", None),\n', ''), "key `vuln_type`"),
    ("source-op-renamed-in-matcher", TA, _text('if rule.operation != "parameter_decl":', 'if rule.operation != "param_decl":'), "operation `parameter_decl`"),
]
