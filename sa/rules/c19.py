"""C19 -- the call-path store keeps exactly the maximal paths.

Representation invariants of ``common_structs.PathTrie`` / ``PathManager`` that the
algorithms rely on, decided on the functions' CFGs (DESIGN section 3, C19).
"""
from __future__ import annotations

import ast
from typing import List, Optional, Set

from ..astutil import is_const, store_targets
from ..cfg import CFG, cfg_of
from ..model import AnalysisError, Func, RepoModel, call_name, dotted, is_self_attr, norm, walk_no_nested

FILE = "common_structs.py"


def _attr_named(node, attr: str) -> bool:
    return isinstance(node, ast.Attribute) and node.attr == attr


def _mentions_attr(expr, attr: str) -> bool:
    return any(_attr_named(n, attr) for n in ast.walk(expr))


def _returns_const(st, value) -> bool:
    return isinstance(st, ast.Return) and is_const(st.value, value)


def run(model: RepoModel, rep, tier: str):
    rep.not_decided = ("equality of the stored set with the set of maximal added paths for concrete histories "
                       "(an enumeration/model-checking target); behaviour for the empty path")
    m = model.module(FILE)
    trie = m.classes.get("PathTrie")
    mgr = m.classes.get("PathManager")
    if trie is None or mgr is None:
        raise AnalysisError("PathTrie / PathManager vanished from common_structs.py")
    rep.rule("C19.R1", "the set of stored paths and the trie's terminal flags move together: every add sets the terminal node, "
                       "every discard clears it", min_instances=3)
    rep.rule("C19.R2", "leaf => terminal: a function that clears a terminal flag also unlinks the nodes that thereby lead to no "
                       "stored path, because add_path uses 'node has children' as evidence of a longer stored path", min_instances=1)
    rep.rule("C19.R3", "PathManager stores a path only after the type and negative-id filters, and re-synchronises its "
                       "public view after every successful add/remove", min_instances=4)
    rep.rule("C19.R4", "PathTrie.add_path handles all four prefix relations: equal -> reject, proper prefix of stored -> reject, "
                       "stored proper prefix -> evict then insert, divergent -> insert", min_instances=4)
    # the loader that persists the paths mirrors the manager's set: save() replaces, never merges
    rep.rule("C19.R6", "what is persisted is the manager's current set: CallPathLoader.save replaces the loader's set with the one it is given "
                       "(a superseded prefix or a removed path must not survive in the store)", 1)
    lm = model.module("util/loader.py")
    cpl = lm.classes.get("CallPathLoader")
    if cpl is None or "save" not in cpl.methods:
        raise AnalysisError("CallPathLoader.save vanished")
    sv = cpl.methods["save"]
    prm = sv.params[1] if len(sv.params) > 1 else None
    store_attrs = {t.attr for n in walk_no_nested(cpl.methods["__init__"].node) if isinstance(n, ast.Assign) for t in n.targets
                   if is_self_attr(t) and isinstance(n.value, ast.Call) and call_name(n.value) == "set"} if "__init__" in cpl.methods else set()
    key = "util/loader.py::CallPathLoader.save::replaces the stored set"
    repl = [n for n in walk_no_nested(sv.node) if isinstance(n, ast.Assign) and any(is_self_attr(t) and t.attr in store_attrs for t in n.targets)
            and any(isinstance(x, ast.Name) and x.id == prm for x in ast.walk(n.value))]
    merges = [n for n in walk_no_nested(sv.node) if (isinstance(n, ast.Call) and isinstance(n.func, ast.Attribute) and n.func.attr in ("update", "add", "union")
                                                     and is_self_attr(n.func.value) and n.func.value.attr in store_attrs)
              or (isinstance(n, ast.AugAssign) and is_self_attr(n.target) and n.target.attr in store_attrs)]
    if merges:
        rep.violation("C19.R6", key, "util/loader.py", merges[0].lineno,
                      f"CallPathLoader.save merges the new set into the old one (`{norm(merges[0])[:70]}`): a path the manager evicted because a "
                      f"longer one arrived, or removed, stays in the loader and is exported -- the stored paths are no longer exactly the maximal ones")
    elif repl:
        rep.holds("C19.R6", key, "util/loader.py", repl[0].lineno, f"`{norm(repl[0])}`")
    else:
        rep.unknown("C19.R6", key, "util/loader.py", sv.node.lineno, "save() not in the recognised shape")
    from ..generic import check_accumulators
    check_accumulators(model, rep, "C19.R5", [FILE], C19_ADJUDICATED,
                       "stored paths or trie nodes are missed, so the store no longer holds exactly the maximal paths", 2,
                       classes={FILE: {"PathTrie", "PathManager", "CallPath", "CallSite"}})
    from ..generic3 import check_identity_comparisons
    rep.rule("C19.R8", "paths and call sites are values: the store compares them with == / in, never with is / is not (a caller's equal path is a "
                       "different object)", 20)
    check_identity_comparisons(model, rep, "C19.R8", FILE, ["PathTrie", "PathManager", "CallPath", "CallSite"])
    from ..generic import check_attr_reset_granularity
    rep.rule("C19.R7", "the store that is persisted is the one every entry point fed: state a phase driver hands on after its loop over the entry "
                       "points (the path manager whose paths are saved) is not re-created inside that loop", 1)
    check_attr_reset_granularity(model, rep, "C19.R7", ["core/global_semantics.py", "core/prelim_semantics.py"])

    set_attr = "paths"
    # ------------------------------------------------------------------ R1
    for name, f in trie.methods.items():
        cfg = cfg_of(f.node)
        for n in cfg.g.nodes:
            for c in cfg.calls_at(n):
                if not (isinstance(c.func, ast.Attribute) and is_self_attr(c.func.value, set_attr) and c.args):
                    continue
                arg = c.args[0]
                if c.func.attr == "add":
                    key = f"{FILE}::{f.qualname}::self.{set_attr}.add({norm(arg)})"
                    doms = cfg.dominators_of(n)
                    term = path_set = False
                    for d in doms:
                        st = cfg.stmt.get(d)
                        if cfg.kind[d] == "stmt" and isinstance(st, ast.Assign):
                            for t in st.targets:
                                if _attr_named(t, "is_terminal") and is_const(st.value, True):
                                    term = True
                                if _attr_named(t, "path") and not is_self_attr(t) and ast.dump(st.value) == ast.dump(arg):
                                    path_set = True
                    if term and path_set:
                        rep.holds("C19.R1", key, FILE, c.lineno, "dominated by `<node>.is_terminal = True` and `<node>.path = <same path>`")
                    else:
                        rep.violation("C19.R1", key, FILE, c.lineno,
                                      f"{f.qualname} adds a path to self.{set_attr} without "
                                      + ("marking its trie node terminal" if not term else "recording the path on its trie node")
                                      + ": the set and the trie disagree, later prefix decisions are wrong")
                elif c.func.attr in ("discard", "remove"):
                    key = f"{FILE}::{f.qualname}::self.{set_attr}.{c.func.attr}({norm(arg)})"
                    clear_nodes = set()
                    for k in cfg.g.nodes:
                        for c2 in cfg.calls_at(k):
                            if is_self_attr(c2.func) and c2.args and ast.dump(c2.args[0]) == ast.dump(arg) \
                                    and _clears_terminal(trie.methods.get(c2.func.attr)):
                                clear_nodes.add(k)
                        st = cfg.stmt.get(k)
                        if cfg.kind[k] == "stmt" and isinstance(st, ast.Assign) and any(_attr_named(t, "is_terminal") for t in st.targets) \
                                and is_const(st.value, False):
                            clear_nodes.add(k)
                    p = cfg.path_avoiding(n, cfg.EXIT, clear_nodes) if n not in clear_nodes else None
                    before = any(cfg.dominates(k, n) for k in clear_nodes)
                    if p is None or before:
                        rep.holds("C19.R1", key, FILE, c.lineno, "every path from the discard clears the node's terminal flag for the same path")
                    else:
                        rep.violation("C19.R1", key, FILE, c.lineno,
                                      f"{f.qualname} removes a path from self.{set_attr} but a path to the exit never clears its terminal "
                                      f"flag in the trie: the path still blocks/evicts others", path=cfg.describe_path(p))

    # ------------------------------------------------------------------ R2
    evidence = []
    for name, f in trie.methods.items():
        for n in walk_no_nested(f.node):
            if isinstance(n, ast.If) and (_attr_named(n.test, "children") or (
                    isinstance(n.test, ast.Call) and call_name(n.test) == "len" and n.test.args and _attr_named(n.test.args[0], "children"))
                    or (isinstance(n.test, ast.Compare) and _mentions_attr(n.test, "children") and any(isinstance(x, ast.Call) and call_name(x) == "len" for x in ast.walk(n.test)))):
                if any(_returns_const(s, False) for s in n.body):
                    evidence.append((f, n))
    rep.analysed["'children as evidence of a longer path' sites"] = [f"{f.qualname}:{n.lineno}" for f, n in evidence]
    for name, f in trie.methods.items():
        cfg = cfg_of(f.node)
        for n in cfg.g.nodes:
            st = cfg.stmt.get(n)
            if cfg.kind[n] == "stmt" and isinstance(st, ast.Assign) and any(_attr_named(t, "is_terminal") for t in st.targets) \
                    and is_const(st.value, False):
                key = f"{FILE}::{f.qualname}::{norm(st)}"
                if not evidence:
                    rep.holds("C19.R2", key, FILE, st.lineno, "no function uses 'has children' as evidence of a stored extension")
                    continue
                unlink = set()
                for k in cfg.g.nodes:
                    s2 = cfg.stmt.get(k)
                    if cfg.kind[k] == "stmt" and isinstance(s2, ast.Delete) and any(
                            isinstance(t, ast.Subscript) and _attr_named(t.value, "children") for t in s2.targets):
                        unlink.add(k)
                    for c in cfg.calls_at(k):
                        if isinstance(c.func, ast.Attribute) and c.func.attr in ("pop", "clear") and _attr_named(c.func.value, "children"):
                            unlink.add(k)
                reach = cfg.reachable(n)
                if unlink & reach:
                    # the unlink has to be repeated for every ancestor that thereby leads to no stored path: it sits in a loop
                    # (or the function recurses), and the walk stops at a terminal or branching node
                    recursive = any(isinstance(x, ast.Call) and is_self_attr(x.func, f.name) for x in walk_no_nested(f.node))
                    in_loop = [h for h, body in cfg.loop_body_nodes.items() if (unlink & reach) & body]
                    stop_ok = False
                    weak_stop = None
                    for h in in_loop:
                        for k in cfg.loop_body_nodes[h]:
                            s3 = cfg.stmt.get(k)
                            if cfg.kind[k] == "test" and isinstance(s3, ast.If) and _mentions_attr(s3.test, "is_terminal") \
                                    and _mentions_attr(s3.test, "children") and any(isinstance(b, (ast.Break, ast.Return)) for b in s3.body):
                                # the walk has to stop at a node with ANY child left (one child is one stored longer path)
                                disj = s3.test.values if isinstance(s3.test, ast.BoolOp) and isinstance(s3.test.op, ast.Or) else [s3.test]
                                ch = [d for d in disj if _mentions_attr(d, "children")]
                                if ch and all(_nonempty_test(d, "children") for d in ch):
                                    stop_ok = True
                                else:
                                    weak_stop = s3
                    if in_loop and not stop_ok and weak_stop is not None and not recursive:
                        rep.violation("C19.R2", key, FILE, weak_stop.lineno,
                                      f"{f.qualname} stops unlinking ancestors under `{norm(weak_stop.test)}`, which is not 'the node has any "
                                      f"child left': an ancestor that still leads to exactly one stored path is unlinked together with that "
                                      f"path's nodes, so a path that was never removed is no longer reachable in the trie")
                    elif (in_loop and stop_ok) or recursive:
                        rep.holds("C19.R2", key, FILE, st.lineno,
                                  "dead branch is unlinked ancestor by ancestor, stopping at the first terminal or branching node")
                    elif in_loop:
                        rep.violation("C19.R2", key, FILE, st.lineno,
                                      f"{f.qualname} unlinks ancestors in a loop that does not stop at a node that is terminal or still has "
                                      f"children: removing a path also destroys a stored prefix or a sibling branch")
                    else:
                        rep.violation("C19.R2", key, FILE, st.lineno,
                                      f"{f.qualname} unlinks only one node after clearing a terminal flag; the ancestors that thereby lead to "
                                      f"no stored path stay in the trie and add_path (which takes 'has children' as evidence of a longer "
                                      f"stored path) keeps rejecting their paths: add([a,b,c]); remove([a,b,c]); add([a]) is rejected")
                else:
                    ev = evidence[0]
                    rep.violation("C19.R2", key, FILE, st.lineno,
                                  f"{f.qualname} clears a terminal flag but leaves the now childless, non-terminal nodes in the trie, "
                                  f"while {ev[0].qualname} (line {ev[1].lineno}) rejects a path whenever its last node has children: "
                                  f"add([a,b]); remove([a,b]); add([a]) is rejected although no stored path extends [a]")

    # ------------------------------------------------------------------ R3
    madd = mgr.methods.get("add_path")
    mrem = mgr.methods.get("remove_path")
    mex = mgr.methods.get("path_exists")
    if madd is None or mrem is None:
        raise AnalysisError("PathManager.add_path / remove_path vanished")
    trie_attr = None
    init = mgr.methods.get("__init__")
    for n in walk_no_nested(init.node):
        if isinstance(n, ast.Assign) and is_self_attr(n.targets[0]) and isinstance(n.value, ast.Call) and call_name(n.value) == trie.name:
            trie_attr = n.targets[0].attr
    if trie_attr is None:
        raise AnalysisError("PathManager does not own a PathTrie")
    cfg = cfg_of(madd.node)
    store_nodes = [n for n in cfg.g.nodes for c in cfg.calls_at(n)
                   if isinstance(c.func, ast.Attribute) and c.func.attr == "add_path" and is_self_attr(c.func.value, trie_attr)]
    if not store_nodes:
        raise AnalysisError("PathManager.add_path no longer delegates to the trie")
    sn = store_nodes[0]
    brs = cfg.controlling_branches(sn)
    param = madd.params[1] if len(madd.params) > 1 else None

    def guard_ok(pred_call_name_suffix: str, want_true_when_plain: bool) -> Optional[bool]:
        for t, lab in brs:
            test = t.test
            neg = False
            while isinstance(test, ast.UnaryOp) and isinstance(test.op, ast.Not):
                neg = not neg
                test = test.operand
            if isinstance(test, ast.Call) and (call_name(test) or "").endswith(pred_call_name_suffix):
                truth_on_branch = (lab == "T") != neg   # value of the plain predicate on this branch
                return truth_on_branch == want_true_when_plain
        return None

    for label, suffix, want, why in (
            ("type filter", "isinstance", True, "a non-CallPath object"),
            ("negative-id filter", "has_any_negative", False, "a path containing an invalid (negative) call site")):
        key = f"{FILE}::PathManager.add_path::{label}"
        r = guard_ok(suffix, want)
        if r is True:
            rep.holds("C19.R3", key, FILE, madd.node.lineno, f"the trie insertion is control dependent on the {label}")
        else:
            rep.violation("C19.R3", key, FILE, madd.node.lineno,
                          f"PathManager.add_path reaches self.{trie_attr}.add_path without passing the {label}: {why} can be stored")
    # the validity predicate is universal over the path's call sites, and a call site is invalid if any id is negative
    cp = m.classes.get("CallPath")
    cs = m.classes.get("CallSite")
    hv = cp.methods.get("has_any_negative") if cp else None
    key = f"{FILE}::CallPath.has_any_negative::examines every call site"
    if hv is None:
        rep.violation("C19.R3", key, FILE, (cp.node.lineno if cp else 1), "CallPath.has_any_negative vanished: PathManager's filter cannot work")
    else:
        universal = False
        for n in walk_no_nested(hv.node):
            it = None
            if isinstance(n, ast.For):
                it, var, scope = n.iter, n.target, n
            elif isinstance(n, (ast.GeneratorExp, ast.ListComp)) and n.generators:
                it, var, scope = n.generators[0].iter, n.generators[0].target, n
            if it is not None and is_self_attr(it, "path") and isinstance(var, ast.Name):
                if any(isinstance(x, ast.Call) and isinstance(x.func, ast.Attribute) and x.func.attr == "has_negative"
                       and isinstance(x.func.value, ast.Name) and x.func.value.id == var.id for x in ast.walk(scope)):
                    universal = True
        if universal:
            rep.holds("C19.R3", key, FILE, hv.node.lineno, "iterates self.path and asks every call site")
        else:
            rep.violation("C19.R3", key, FILE, hv.node.lineno,
                          "CallPath.has_any_negative does not examine every call site of the path (no iteration over self.path calling "
                          "has_negative on each element): a path with an invalid call site in another position passes PathManager's filter "
                          "and is stored")
    hn = cs.methods.get("has_negative") if cs else None
    key = f"{FILE}::CallSite.has_negative::tests every id"
    if hn is not None and cs is not None:
        ids = [n.targets[0].attr for n in walk_no_nested(cs.methods["__init__"].node) if isinstance(n, ast.Assign) and is_self_attr(n.targets[0])]
        tested = {x.left.attr for x in walk_no_nested(hn.node) if isinstance(x, ast.Compare) and is_self_attr(x.left)
                  and isinstance(x.ops[0], ast.Lt) and is_const(x.comparators[0], 0)}
        disj = all(isinstance(x.op, ast.Or) for x in walk_no_nested(hn.node) if isinstance(x, ast.BoolOp))
        if set(ids) <= tested and disj:
            rep.holds("C19.R3", key, FILE, hn.node.lineno, f"{ids} each compared `< 0`, combined with `or`")
        else:
            rep.violation("C19.R3", key, FILE, hn.node.lineno,
                          f"CallSite.has_negative tests {sorted(tested)} of the ids {ids}" + ("" if disj else " and does not combine them with `or`")
                          + ": a call site with a negative id in an untested position counts as valid")
    for f, callee in ((madd, "add_path"), (mrem, "remove_path")):
        cfg = cfg_of(f.node)
        calls = [n for n in cfg.g.nodes for c in cfg.calls_at(n)
                 if isinstance(c.func, ast.Attribute) and c.func.attr == callee and is_self_attr(c.func.value, trie_attr)]
        key = f"{FILE}::{f.qualname}::view re-synchronised"
        if not calls:
            rep.violation("C19.R3", key, FILE, f.node.lineno, f"{f.qualname} does not delegate to the trie")
            continue
        cn = calls[0]
        st = cfg.stmt[cn]
        okvar = st.targets[0].id if isinstance(st, ast.Assign) and isinstance(st.targets[0], ast.Name) else None
        resync = set()
        for k in cfg.g.nodes:
            s2 = cfg.stmt.get(k)
            if cfg.kind[k] == "stmt" and isinstance(s2, ast.Assign) and any(is_self_attr(t, set_attr) for t in s2.targets) \
                    and any(isinstance(x, ast.Attribute) and x.attr == set_attr and is_self_attr(x.value, trie_attr) for x in ast.walk(s2.value)):
                resync.add(k)
        avoid = set(resync)
        for (t, lab), b in cfg.branch_of.items():
            tst = cfg.stmt[t].test if isinstance(cfg.stmt[t], ast.If) else None
            if okvar and isinstance(tst, ast.Name) and tst.id == okvar and lab == "F":
                avoid.add(b)
            if okvar and isinstance(tst, ast.UnaryOp) and isinstance(tst.op, ast.Not) and isinstance(tst.operand, ast.Name) \
                    and tst.operand.id == okvar and lab == "T":
                avoid.add(b)
        # a manager whose view *is* the trie's set (no copy) needs no resync
        view_is_alias = any(isinstance(x, ast.Attribute) and x.attr == set_attr and is_self_attr(x.value, trie_attr)
                            for g in mgr.methods.values() if g.name not in ("add_path", "remove_path", "__init__")
                            for x in ast.walk(g.node)) and not any(
            isinstance(n, ast.Assign) and any(is_self_attr(t, set_attr) for t in n.targets) for g in mgr.methods.values() for n in ast.walk(g.node))
        p = cfg.path_avoiding(cn, cfg.EXIT, avoid)
        if p is None or view_is_alias:
            rep.holds("C19.R3", key, FILE, f.node.lineno, f"after a successful {callee} the public view is rebuilt from the trie's set")
        else:
            rep.violation("C19.R3", key, FILE, f.node.lineno,
                          f"{f.qualname}: a successful trie.{callee} can reach the exit without refreshing self.{set_attr}; "
                          f"the duplicate test `new_path in self.{set_attr}` and readers of .{set_attr} see a stale set",
                          path=cfg.describe_path(p))

    # ------------------------------------------------------------------ R4
    tadd = trie.methods.get("add_path")
    if tadd is None:
        raise AnalysisError("PathTrie.add_path vanished")
    cfg = cfg_of(tadd.node)
    ret_false = [n for n in cfg.g.nodes if cfg.kind[n] == "stmt" and _returns_const(cfg.stmt[n], False)]
    ret_true = [n for n in cfg.g.nodes if cfg.kind[n] == "stmt" and _returns_const(cfg.stmt[n], True)]

    def guarded_by(n: int, attr: str) -> bool:
        return any(lab == "T" and isinstance(t, ast.If) and _mentions_attr(t.test, attr) for t, lab in cfg.controlling_branches(n))

    case_equal = any(guarded_by(n, "is_terminal") for n in ret_false)
    case_prefix_of_stored = any(guarded_by(n, "children") and not guarded_by(n, "is_terminal") for n in ret_false)
    # eviction: discard of elements collected from terminal nodes strictly inside the new path
    evict = False
    for n in cfg.g.nodes:
        for c in cfg.calls_at(n):
            if isinstance(c.func, ast.Attribute) and c.func.attr in ("discard", "remove") and is_self_attr(c.func.value, set_attr):
                # the discarded value comes from a list filled with `<node>.path` under an is_terminal test
                for k in cfg.g.nodes:
                    for c2 in cfg.calls_at(k):
                        # ... inside the per-element loop (the test of the root outside it only covers the empty path)
                        if isinstance(c2.func, ast.Attribute) and c2.func.attr == "append" and c2.args and _attr_named(c2.args[0], "path") \
                                and guarded_by(k, "is_terminal") and any(k in body for body in cfg.loop_body_nodes.values()):
                            evict = True
    insert = False
    for n in cfg.g.nodes:
        for c in cfg.calls_at(n):
            if isinstance(c.func, ast.Attribute) and c.func.attr == "add" and is_self_attr(c.func.value, set_attr):
                if any(cfg.path_avoiding(n, rt, set()) is not None or n == rt for rt in ret_true):
                    insert = True
    for label, ok, msg in (
            ("equal -> reject", case_equal, "no `return False` guarded by a terminal-flag test: a path already stored is accepted again"),
            ("proper prefix of stored -> reject", case_prefix_of_stored,
             "no `return False` guarded by a 'node has children' test: a proper prefix of a stored path is stored next to it"),
            ("stored proper prefix -> evict", evict,
             "no eviction of stored paths that are proper prefixes of the new path: a non-maximal path stays in the store"),
            ("insert -> stored and True", insert, "the insertion path does not end in self.paths.add(...) followed by `return True`")):
        key = f"{FILE}::PathTrie.add_path::{label}"
        if ok:
            rep.holds("C19.R4", key, FILE, tadd.node.lineno, f"case handled: {label}")
        else:
            rep.violation("C19.R4", key, FILE, tadd.node.lineno, f"PathTrie.add_path: {msg}")

    # the empty path: its node is the ROOT, which the per-element loops never look at (they test a node only after stepping into it).
    # The eviction step has to inspect the root's terminal flag before the loop, otherwise add([]); add([a]) stores both
    key = f"{FILE}::PathTrie.add_path::the empty path is evicted like any other proper prefix"
    acfg = cfg_of(tadd.node)
    root_vars = {x.targets[0].id for x in walk_no_nested(tadd.node) if isinstance(x, ast.Assign) and isinstance(x.targets[0], ast.Name) and is_self_attr(x.value, "root")}
    inspected = False
    for n_ in acfg.g.nodes:
        st_ = acfg.stmt.get(n_)
        if acfg.kind[n_] == "test" and isinstance(st_, ast.If) and not any(n_ in body for body in acfg.loop_body_nodes.values()):
            if any(_attr_named(x, "is_terminal") and ((isinstance(x.value, ast.Name) and x.value.id in root_vars) or is_self_attr(x.value, "root")) for x in ast.walk(st_.test)):
                if any(isinstance(c, ast.Call) and isinstance(c.func, ast.Attribute) and c.func.attr in ("append", "discard") for b in st_.body for c in ast.walk(b)) \
                        or any(isinstance(c, ast.Call) and is_self_attr(c.func, "_mark_non_terminal") for b in st_.body for c in ast.walk(b)):
                    inspected = True
    if inspected:
        rep.holds("C19.R4", key, FILE, tadd.node.lineno, "the root's terminal flag is tested outside the per-element loop and leads to an eviction")
    else:
        rep.violation("C19.R4", key, FILE, tadd.node.lineno,
                      "PathTrie.add_path never inspects the terminal flag of the root outside its per-element loops: an empty path stored first is not evicted "
                      "when a non-empty path is added -- add([]); add([a]) stores both, although [] is a proper prefix of [a]")


def _nonempty_test(e: ast.AST, attr: str) -> bool:
    """e is true exactly when `<x>.<attr>` is non-empty: truthiness of the collection or of its len(), len(..) > 0 / >= 1 / != 0"""
    def coll(x):
        return _attr_named(x, attr)

    def length(x):
        return isinstance(x, ast.Call) and call_name(x) == "len" and len(x.args) == 1 and coll(x.args[0])
    if coll(e) or length(e):
        return True
    if isinstance(e, ast.Compare) and len(e.ops) == 1:
        l, op, r = e.left, e.ops[0], e.comparators[0]
        if length(l) and isinstance(r, ast.Constant):
            return (isinstance(op, (ast.Gt, ast.NotEq)) and r.value == 0) or (isinstance(op, ast.GtE) and r.value == 1)
        if length(r) and isinstance(l, ast.Constant):
            return (isinstance(op, (ast.Lt, ast.NotEq)) and l.value == 0) or (isinstance(op, ast.LtE) and l.value == 1)
    return False


def _clears_terminal(f: Optional[Func]) -> bool:
    if f is None:
        return False
    return any(isinstance(n, ast.Assign) and any(_attr_named(t, "is_terminal") for t in n.targets) and is_const(n.value, False)
               for n in walk_no_nested(f.node))


# ---------------------------------------------------------------- self-test mutants
def _m(cls, func, pred, new=None):
    def mut(src):
        from ..mutate import delete_stmt_where, replace_stmt_where
        if new is None:
            return delete_stmt_where(src, cls, func, pred)
        return replace_stmt_where(src, cls, func, pred, new)
    return mut


def _is_assign_attr(attr, val):
    return lambda st: isinstance(st, ast.Assign) and any(_attr_named(t, attr) for t in st.targets) and is_const(st.value, val)


C19_ADJUDICATED = {
    "common_structs.py::PathTrie.add_path::`paths_to_remove`::break under `elem not in node.children`":
        "trie walk: the new path leaves the trie here, no stored path can be a prefix beyond this point",
    "common_structs.py::PathTrie._mark_non_terminal::`visited`::return under `elem not in node.children`":
        "the path is not stored: nothing to mark or unlink",
}

MUTANTS = [
    ("loader-save-merges", "util/loader.py",
     lambda src: __import__("sa.mutate", fromlist=["x"]).text_replace(src, "    def save(self, all_paths: set):\n        self.all_paths = all_paths", "    def save(self, all_paths: set):\n        self.all_paths.update(all_paths)"),
     "CallPathLoader.save::replaces the stored set"),
    ("add-no-terminal", FILE, _m("PathTrie", "add_path", _is_assign_attr("is_terminal", True)), "PathTrie.add_path::self.paths.add"),
    ("remove-no-mark", FILE, _m("PathTrie", "remove_path", lambda st: isinstance(st, ast.Expr) and isinstance(st.value, ast.Call)
                                and call_name(st.value) == "self._mark_non_terminal"), "PathTrie.remove_path"),
    ("evict-no-mark", FILE, _m("PathTrie", "add_path", lambda st: isinstance(st, ast.Expr) and isinstance(st.value, ast.Call)
                               and call_name(st.value) == "self._mark_non_terminal"), "PathTrie.add_path::self.paths.discard"),
    ("no-prune", FILE, _m("PathTrie", "_mark_non_terminal", lambda st: isinstance(st, ast.Delete)), "PathTrie._mark_non_terminal"),
    ("prune-one-level", FILE, lambda src: __import__("sa.mutate", fromlist=["x"]).replace_stmt_where(
        src, "PathTrie", "_mark_non_terminal", lambda st: isinstance(st, ast.For) and any(isinstance(x, ast.Delete) for x in ast.walk(st)),
        "if visited and not node.children:\n    parent, elem = visited[-1]\n    del parent.children[elem]"), "PathTrie._mark_non_terminal"),
    ("prune-stops-only-at-branching", FILE, lambda src: src.replace("if child.is_terminal or child.children:", "if child.is_terminal or len(child.children) > 1:"),
     "PathTrie._mark_non_terminal"),
    ("negative-check-last-only", FILE, lambda src: __import__("sa.mutate", fromlist=["x"]).replace_stmt_where(
        src, "CallPath", "has_any_negative", lambda st: isinstance(st, ast.For),
        "if self.path and self.path[-1].has_negative():\n    return True"), "has_any_negative"),
    ("has-negative-misses-callee", FILE, lambda src: __import__("sa.mutate", fromlist=["x"]).replace_expr_where(
        src, "CallSite", "has_negative", lambda e: isinstance(e, ast.BoolOp), "self.caller_id < 0 or self.call_stmt_id < 0"), "CallSite.has_negative"),
    ("no-negative-filter", FILE, _m("PathManager", "add_path", lambda st: isinstance(st, ast.If) and _mentions_call(st.test, "has_any_negative")),
     "negative-id filter"),
    ("no-type-filter", FILE, _m("PathManager", "add_path", lambda st: isinstance(st, ast.If) and _mentions_call(st.test, "isinstance")),
     "type filter"),
    ("no-resync-add", FILE, _m("PathManager", "add_path", lambda st: isinstance(st, ast.Assign) and any(is_self_attr(t, "paths") for t in st.targets)),
     "PathManager.add_path::view"),
    ("no-resync-remove", FILE, _m("PathManager", "remove_path", lambda st: isinstance(st, ast.Assign) and any(is_self_attr(t, "paths") for t in st.targets)),
     "PathManager.remove_path::view"),
    ("no-children-check", FILE, _m("PathTrie", "add_path", lambda st: isinstance(st, ast.If) and _attr_named(st.test, "children")),
     "proper prefix of stored"),
    ("no-eviction-of-the-empty-path", FILE, _m("PathTrie", "add_path", lambda st: isinstance(st, ast.If) and "self.root" not in ast.unparse(st.test) and "is_terminal" in ast.unparse(st.test)
                                               and "len(path.path) > 0" in ast.unparse(st.test)), "the empty path is evicted"),
    ("no-eviction", FILE, lambda src: src.replace("                # 找到一个严格前缀路径\n                paths_to_remove.append(node.path)", "                # 找到一个严格前缀路径\n                pass"),
     "stored proper prefix"),
]


def _mentions_call(expr, suffix):
    return any(isinstance(n, ast.Call) and (call_name(n) or "").endswith(suffix) for n in ast.walk(expr))
