"""C02 -- every frontend lowers into the shared instruction vocabulary.

Table comparison (E2, sa/gir.py) between what the frontends emit and what the language independent
analyses read: operations (R1), operand names of the core operations (R2), declaration kinds (R3) and
the receiver keyword (R4).  Quick tier: the seven frontends the property names; thorough: all.
"""
from __future__ import annotations

import ast
from typing import Dict, List, Set

from .. import gir
from ..model import AnalysisError, RepoModel, call_name, const_str, dotted, is_self_attr, literal, norm, walk_no_nested

# operations that carry no operand any analysis needs (reason each)
NO_SEMANTICS = {
    "pass_stmt": "no operands",
    "comment_stmt": "no operands",
    "fallthrough_stmt": "no operands; control effect handled by switch lowering",
    "label_stmt": "consumed by ControlFlowAnalysis.__init__ via query_operation, not by a handler",
    "goto_stmt": "consumed by ControlFlowAnalysis.__init__ via query_operation, not by a handler",
}

# the constructs the property enumerates, with the operands every language must supply (hand-confirmed
# against the readers; an operand a language cannot express is left out of this minimum)
CORE_REQUIRED = {
    "assign_stmt": {"target", "operand"},
    "call_stmt": {"target", "name", "positional_args"},
    "object_call_stmt": {"target", "receiver_object", "field", "positional_args"},
    "return_stmt": {"name"},
    "if_stmt": {"condition", "then_body", "else_body"},
    "while_stmt": {"condition", "body"},
    "dowhile_stmt": {"condition", "body"},
    "for_stmt": {"condition", "body", "init_body", "update_body", "condition_prebody"},
    "forin_stmt": {"name", "receiver", "body"},
    "break_stmt": set(),
    "continue_stmt": set(),
    "variable_decl": {"name"},
    "parameter_decl": {"name"},
    "method_decl": {"name", "parameters", "body"},
    "class_decl": {"name"},
    "struct_decl": {"name"},
    "record_decl": {"name"},
    "new_object": {"target", "data_type"},
    "new_array": {"target"},
    "new_record": {"target"},
    "field_read": {"target", "receiver_object", "field"},
    "field_write": {"receiver_object", "field", "source"},
    "array_read": {"target", "array", "index"},
    "array_write": {"array", "index", "source"},
    "record_write": {"receiver_record", "key", "value"},
    "switch_stmt": {"condition", "body"},
    "case_stmt": {"condition", "body"},
    "default_stmt": {"body"},
}

# attributes that are descriptive, not operands (never "lost")
DESCRIPTIVE = {"attrs", "data_type", "type_parameters", "type", "decorators", "type_name", "alias"}

# core-operation attributes whose reader is not the operation's own handler (each confirmed by reading)
GENERIC_OK = {
    ("break_stmt", "name"): "loop label; labelled break is not modelled by any analysis (see C04 not-decided)",
    ("continue_stmt", "name"): "loop label; labelled continue is not modelled by any analysis (see C04 not-decided)",
    ("case_stmt", "body"): "read by ControlFlowAnalysis.analyze_switch_stmt off the case rows of the switch body",
    ("default_stmt", "body"): "read by ControlFlowAnalysis.analyze_switch_stmt off the case rows of the switch body",
    ("class_decl", "supers"): "read by type_hierarchy / scope_hierarchy",
    ("record_decl", "supers"): "read by type_hierarchy / scope_hierarchy",
    ("class_decl", "parameters"): "record-style class header; read through the generic parameters path",
    ("record_decl", "parameters"): "record header; read through the generic parameters path",
    ("while_stmt", "condition_prebody"): "emitted by C/Java; that no CFG handler reads it is reported under C04.R1, not here",
    ("dowhile_stmt", "condition_prebody"): "emitted by C/Java; that no CFG handler reads it is reported under C04.R1, not here",
}

REGISTRIES = [
    ("defuse", "basics/stmt_def_use_analysis.py", "StmtDefUseAnalysis", "def_use_analysis_handlers"),
    ("state", "core/stmt_states.py", "StmtStates", "state_analysis_handlers"),
    ("cfg", "basics/control_flow.py", "ControlFlowAnalysis", "stmt_handlers"),
]


def reader_tables(model: RepoModel):
    regs = {}
    for short, rel, cls, attr in REGISTRIES:
        regs[short] = gir.find_registry(model, rel, cls, attr)
    read: Dict[str, Set[str]] = {}
    for short, reg in regs.items():
        for op, h in reg.handlers.items():
            cand = [p for p in h.params if p in ("stmt", "current_stmt")]
            if not cand:
                continue
            read.setdefault(op, set()).update(gir.attrs_read(model, h, cand[0], depth=2))
    return regs, read


STMT_LIKE = ("row", "each_row", "decl", "current", "child", "item", "gir_node", "node_row", "s", "each_stmt")
DISPLAY_ONLY = {"util/readable_gir.py"}   # pretty printer of GIR: reads every column but feeds no analysis


def _stmt_like(name: str) -> bool:
    return "stmt" in name or name in STMT_LIKE


def stmt_like_reads(model: RepoModel) -> Set[str]:
    """attributes read off statement-like variables anywhere outside the frontends (operation-unspecific readers:
    scope hierarchy, import/type hierarchy, taint, entry points, event handlers)."""
    out: Set[str] = set()
    for rel, m in model.modules.items():
        if (rel.startswith("lang/") and rel != "lang/lang_analysis.py") or rel in DISPLAY_ONLY:
            continue
        for n in ast.walk(m.tree):
            if isinstance(n, ast.Attribute) and isinstance(n.ctx, ast.Load) and isinstance(n.value, ast.Name) and _stmt_like(n.value.id):
                out.add(n.attr)
            if isinstance(n, ast.Subscript) and isinstance(n.ctx, ast.Load) and const_str(n.slice) is not None \
                    and isinstance(n.value, ast.Name) and _stmt_like(n.value.id):
                out.add(const_str(n.slice))
            if isinstance(n, ast.Call) and call_name(n) in ("getattr", "hasattr") and len(n.args) >= 2 and const_str(n.args[1]) \
                    and isinstance(n.args[0], ast.Name) and _stmt_like(n.args[0].id):
                out.add(const_str(n.args[1]))
            if isinstance(n, ast.Call) and isinstance(n.func, ast.Attribute) and n.func.attr == "get" and n.args and const_str(n.args[0]) \
                    and isinstance(n.func.value, ast.Name) and _stmt_like(n.func.value.id):
                out.add(const_str(n.args[0]))
    return out


def _r6b_literal_text_untouched(model: RepoModel, rep):
    """common_eval hands the text of ONE literal token to the evaluator.  Character-set trimming of that text (strip / rstrip / lstrip
    with an argument) removes every trailing character of the set, not one suffix: with the C suffix letters lLuUfF it eats the hex
    digits of `0x1F` (-> 0x1 = 1), with quote characters it eats quotes that belong to the content."""
    cp = model.module("lang/common_parser.py").classes.get("Parser")
    ce = cp.methods.get("common_eval") if cp else None
    if ce is None:
        raise AnalysisError("common_parser.Parser.common_eval vanished")
    P = ce.params[1] if len(ce.params) > 1 else None
    key = "lang/common_parser.py::Parser.common_eval::the literal's text is evaluated as it is"
    bad = [c for c in walk_no_nested(ce.node) if isinstance(c, ast.Call) and isinstance(c.func, ast.Attribute) and c.func.attr in ("strip", "rstrip", "lstrip", "replace", "translate")
           and c.args and isinstance(c.func.value, ast.Name) and c.func.value.id == P]
    if bad:
        rep.violation("C02.R6", key, "lang/common_parser.py", bad[0].lineno,
                      f"common_eval evaluates `{norm(bad[0])[:80]}` instead of the literal's text: `{bad[0].func.attr}` with a character set removes EVERY trailing character "
                      f"of the set -- for the integer/float suffix letters that includes the hex digits f/F, so `0x1F` is evaluated as `0x1` and `0x7fffffff` "
                      f"as `0x7` in every frontend")
    else:
        rep.holds("C02.R6", key, "lang/common_parser.py", ce.node.lineno, f"`{P}` reaches the evaluator untrimmed")


def _r6_literal_and_operator_plumbing(model: RepoModel, rep):
    """C02.R6: two places every frontend's operands/operators pass through."""
    from ..cfg import cfg_of
    rep.rule("C02.R6", "operands and operators reach the shared vocabulary: the common parse() never hands a literal handler's None back as an "
                       "operand (it falls back to the token text), and an augmented-assignment operator is looked up in the frontend's operator "
                       "map after its `=` has been stripped (the map holds the binary spellings)", 2)
    cp = model.cls("lang/common_parser.py", "Parser")
    pf = cp.methods.get("parse")
    if pf is None:
        raise AnalysisError("common_parser.Parser.parse vanished")
    key = "lang/common_parser.py::Parser.parse::a literal never lowers to None"
    # can any literal handler of a core frontend return None?
    none_handlers = []
    for lang, fmod in gir.frontend_modules(model, gir.SEVEN):
        rel = fmod.rel
        P = fmod.classes.get("Parser")
        if P is None:
            continue
        lit = set()
        for f in P.methods.values():
            for n in walk_no_nested(f.node):
                if isinstance(n, ast.Assign) and any(is_self_attr(t, "LITERAL_MAP") for t in n.targets) and isinstance(n.value, ast.Dict):
                    lit |= {v.attr for v in n.value.values if is_self_attr(v)}
        for hn in sorted(lit):
            h = P.methods.get(hn)
            if h is None:
                continue
            c = cfg_of(h.node)
            bare = any(isinstance(n, ast.Return) and n.value is None for n in walk_no_nested(h.node))
            # falls off the end: a predecessor of EXIT that is not a return statement
            falls = any(c.kind.get(p_) != "stmt" or not isinstance(c.stmt.get(p_), (ast.Return, ast.Raise)) for p_ in c.g.predecessors(c.EXIT) if p_ != c.RAISE)
            if bare or falls:
                none_handlers.append(f"{lang}.{hn}")
    rep.analysed["literal handlers that can return None"] = none_handlers
    lit_ifs = [n for n in walk_no_nested(pf.node) if isinstance(n, ast.If) and any(isinstance(c, ast.Call) and is_self_attr(c.func, "is_literal") for c in ast.walk(n.test))]
    if not lit_ifs:
        raise AnalysisError("common parse(): literal branch not found")
    li = lit_ifs[0]
    res_vars = {n.targets[0].id for n in ast.walk(li) if isinstance(n, ast.Assign) and isinstance(n.targets[0], ast.Name) and isinstance(n.value, ast.Call)
                and is_self_attr(n.value.func, "literal")}
    fallback = any(isinstance(n, ast.If) and isinstance(n.test, ast.Compare) and isinstance(n.test.ops[0], ast.Is) and isinstance(n.test.left, ast.Name)
                   and n.test.left.id in res_vars and isinstance(n.test.comparators[0], ast.Constant) and n.test.comparators[0].value is None
                   and any(isinstance(b, ast.Return) and b.value is not None for b in n.body) for n in ast.walk(li)) or \
        any(isinstance(n, ast.Return) and isinstance(n.value, ast.BoolOp) and isinstance(n.value.op, ast.Or) for n in ast.walk(li))
    if fallback or not none_handlers:
        rep.holds("C02.R6", key, "lang/common_parser.py", li.lineno,
                  "`if result is None: return self.read_node_text(node)`" if fallback else "no literal handler of a core frontend can return None")
    else:
        rep.violation("C02.R6", key, "lang/common_parser.py", li.lineno,
                      f"parse() returns the literal handler's result unchecked, but {none_handlers[:4]} (of {len(none_handlers)}) can return None "
                      f"(e.g. for an empty string literal): the operand is dropped from argument lists / becomes None in the instruction, "
                      f"where other frontends emit the token text")
    # operator map after stripping `=`
    n_sites = 0
    for lang, fmod in gir.frontend_modules(model, gir.SEVEN):
        rel = fmod.rel
        P = fmod.classes.get("Parser")
        if P is None:
            continue
        for f in P.methods.values():
            gets = [c for c in walk_no_nested(f.node) if isinstance(c, ast.Call) and isinstance(c.func, ast.Attribute) and c.func.attr == "get"
                    and is_self_attr(c.func.value, "CONSTANTS_MAP")]
            strips = [c for c in walk_no_nested(f.node) if isinstance(c, ast.Call) and isinstance(c.func, ast.Attribute) and c.func.attr == "replace"
                      and len(c.args) == 2 and const_str(c.args[0]) == "=" and const_str(c.args[1]) == ""]
            if not gets or not strips:
                continue
            n_sites += 1
            key = f"{rel}::Parser.{f.name}::operator map applied after `=` is stripped"
            # wrong order: the strip is applied to (something computed from) the map lookup
            get_vars = {n.targets[0].id for n in walk_no_nested(f.node) if isinstance(n, ast.Assign) and isinstance(n.targets[0], ast.Name) and n.value in gets}
            wrong = [c for c in strips if c.func.value in gets or (isinstance(c.func.value, ast.Name) and c.func.value.id in get_vars
                                                                   and not any(isinstance(a, ast.Name) and a.id == c.func.value.id for g_ in gets for a in g_.args))]
            if wrong:
                rep.violation("C02.R6", key, rel, wrong[0].lineno,
                              f"{lang}: `{norm(wrong[0])[:90]}` strips the `=` after the operator-map lookup: the compound spelling (`.=`) is not in "
                              f"the map, so the language-specific operator (`.`) reaches GIR instead of the shared one (`+`)")
            else:
                rep.holds("C02.R6", key, rel, strips[0].lineno, "strip first, then map")
    rep.analysed["operator normalisation sites"] = n_sites


AUG_ADJUDICATED = {
    "lang/typescript_parser.py::Parser.augmented_assignment_expression::`shadow_left[i] = tmp_var <op> shadow_left[i]`::the old value is the first operand":
        "branch for a parenthesised LIST on the left of a compound assignment, `(a, b) += e`: not an assignable target in TypeScript, so no "
        "program of the property's domain reaches it",
}


def run(model: RepoModel, rep, tier: str):
    rep.not_decided = ("that equal vocabulary implies equal meaning (semantic equivalence of the lowering), ordering of statements inside "
                       "bodies, correctness of operand values")
    langs = gir.SEVEN if tier == "quick" else [l for l in gir.ALL_FRONTENDS]
    fes = gir.frontend_modules(model, langs)
    if len([l for l, _ in fes if l in gir.SEVEN]) < 7:
        raise AnalysisError("one of the seven frontends named by the property is missing")
    regs, READ = reader_tables(model)
    generic = stmt_like_reads(model)
    ems: List[gir.Emission] = []
    for lg, m in fes:
        ems.extend(gir.emissions_in_module(lg, m))
    by_lang_op: Dict[tuple, List[gir.Emission]] = {}
    for e in ems:
        by_lang_op.setdefault((e.lang, e.op), []).append(e)
    rep.analysed.update({"frontends": [l for l, _ in fes], "emission sites": len(ems),
                         "incomplete emission sites (excluded from attribute rules)": len([e for e in ems if not e.complete]),
                         "distinct (lang, op)": len(by_lang_op),
                         "registry sizes": {k: len(v.handlers) for k, v in regs.items()}})

    rep.rule("C02.R1", "every operation a frontend emits is in the shared vocabulary: it has a def-use handler (where operands are read), or is a "
                       "declaration/import kind the scope builder consumes, or is allow-listed as carrying no operands", min_instances=200)
    rep.rule("C02.R2", "operand names of the core operations agree: every required operand is supplied under the name the readers "
                       "read, and no frontend emits an operand under a name no reader reads", min_instances=300)
    rep.rule("C02.R3", "every *_decl operation a frontend emits is a declaration kind known to the scope builder", min_instances=30)
    rep.rule("C02.R5", "the normaliser shared by the python/javascript/php frontends (temporary elimination) drops no operand or operator", 5)
    rep.rule("C02.R4", "the receiver keyword reaches GIR as the internal `this` symbol: routed by the frontend's literal map or by a "
                       "normaliser registered for that language", min_instances=4)

    du, st = regs["defuse"].handlers, regs["state"].handlers
    # the property names seven frontends; the others are analysed in the thorough tier for information only
    _viol = rep.violation

    def violation(rule, key, *a, **kw):
        lang = key.split("::", 1)[0]
        if lang in gir.SEVEN or lang not in gir.ALL_FRONTENDS:
            _viol(rule, key, *a, **kw)
        else:
            rep.info(rule, key, *a, **kw)
    rep_violation = violation
    scope_ops = _scope_builder_ops(model)
    # ------------------------------------------------------------------ R1
    for (lg, op), es in sorted(by_lang_op.items()):
        if op == "<dynamic>":
            rep.unknown("C02.R1", f"{lg}::<dynamic op>", es[0].rel, es[0].line, "operation name computed at run time")
            continue
        key = f"{lg}::{op}"
        e = es[0]
        if op in NO_SEMANTICS:
            rep.holds("C02.R1", key, e.rel, e.line, f"allow-listed: {NO_SEMANTICS[op]}")
        elif op in du:
            rep.holds("C02.R1", key, e.rel, e.line, f"def-use handler {du[op].name}"
                      + (f", state handler {st[op].name}" if op in st else ", generic state transfer"))
        elif op in scope_ops:
            rep.holds("C02.R1", key, e.rel, e.line, "declaration/import kind consumed by the scope builder (no operands for def-use)")
        else:
            miss = ["def-use"]
            near = _nearest(op, set(du) | set(st))
            rep_violation("C02.R1", key, e.rel, e.line,
                          f"{lg} frontend ({e.func}) emits operation `{op}` which has no {' / '.join(miss)} handler"
                          + (f" (the shared vocabulary has `{near}`)" if near else "")
                          + f": its operands {sorted(es[0].attrs)} are invisible to the analyses", sites=len(es))

    # ------------------------------------------------------------------ R2
    for (lg, op), es in sorted(by_lang_op.items()):
        if op not in CORE_REQUIRED:
            continue
        readers = READ.get(op, set())
        supplied: Set[str] = set()
        for e in es:
            supplied |= set(e.attrs)
        for r in sorted(CORE_REQUIRED[op]):
            key = f"{lg}::{op}::requires {r}"
            if r not in readers and (op, r) not in GENERIC_OK:
                rep_violation("C02.R2", key, es[0].rel, es[0].line,
                              f"no reader of `{op}` reads operand `{r}` any more (readers read {sorted(readers)}): reader side renamed")
            elif r in supplied:
                rep.holds("C02.R2", key, es[0].rel, es[0].line, f"supplied by {len([e for e in es if r in e.attrs])}/{len(es)} emission sites")
            elif all(not e.complete for e in es):
                rep.unknown("C02.R2", key, es[0].rel, es[0].line, "all emission sites build their content dynamically")
            else:
                extra = sorted(supplied - readers - DESCRIPTIVE)
                rep_violation("C02.R2", key, es[0].rel, es[0].line,
                              f"{lg} never supplies operand `{r}` of `{op}` (supplies {sorted(supplied)}"
                              + (f"; `{extra}` look like renames no reader reads" if extra else "") + ")")
        seen_attr = set()
        for e in es:
            if not e.complete:
                continue
            for a in e.attrs:
                if a in seen_attr or a in gir.METADATA or a in DESCRIPTIVE:
                    continue
                seen_attr.add(a)
                key = f"{lg}::{op}::emits {a}"
                if a in readers:
                    rep.holds("C02.R2", key, e.rel, e.line, "read by the operation's handlers")
                elif (op, a) in GENERIC_OK:
                    rep.holds("C02.R2", key, e.rel, e.line, GENERIC_OK[(op, a)])
                else:
                    near = _nearest(a, readers)
                    rep_violation("C02.R2", key, e.rel, e.line,
                                  f"{lg} ({e.func}) emits `{op}.{a}`, which no reader of `{op}` reads"
                                  + (f" (readers of `{op}` read `{near}`)" if near else "") + ": the element is lost")

    # ------------------------------------------------------------------ R3
    cm = model.module("config/constants.py")
    sh = model.module("basics/scope_hierarchy.py")
    decl_sets = {}
    for name, v in cm.assigns.items():
        if name.endswith("_OPERATION") or name.endswith("_OPERATIONS"):
            val = literal(v)
            if val is NotImplemented and isinstance(v, ast.Call) and v.args:
                val = literal(v.args[0])
            if val is not NotImplemented:
                decl_sets[name] = set(val)
    used_sets = {n.id for n in ast.walk(sh.tree) if isinstance(n, ast.Name) and n.id in decl_sets}
    known_decls = set().union(*[decl_sets[s] for s in used_sets]) if used_sets else set()
    if len(known_decls) < 8:
        raise AnalysisError("cannot find the declaration-kind sets consumed by scope_hierarchy")
    rep.analysed["declaration kinds known to the scope builder"] = sorted(d for d in known_decls if d.endswith("_decl"))
    for (lg, op), es in sorted(by_lang_op.items()):
        if not op.endswith("_decl"):
            continue
        key = f"{lg}::{op}"
        if op in known_decls:
            rep.holds("C02.R3", key, es[0].rel, es[0].line, "member of a constants.py set consumed by discover_scopes")
        else:
            rep_violation("C02.R3", key, es[0].rel, es[0].line,
                          f"{lg} emits declaration `{op}` which is in none of the operation sets the scope builder dispatches on "
                          f"({sorted(used_sets)}): the declared name is never entered into a scope")

    # ------------------------------------------------------------------ R4
    regm = model.module("events/event_registers.py")
    normalisers: Dict[str, Set[str]] = {}
    for n in ast.walk(regm.tree):
        if isinstance(n, ast.Call) and call_name(n) == "EventHandler":
            h = next((k.value for k in n.keywords if k.arg == "handler"), None)
            lg = next((k.value for k in n.keywords if k.arg == "langs"), None)
            hn = dotted(h) or ""
            if hn.split(".")[-1] in ("unify_this", "unify_python_self") and isinstance(lg, ast.List):
                for e in lg.elts:
                    s = const_str(e)
                    if s:
                        normalisers.setdefault(s, set()).add(hn)
    receiver_langs = {"python": "self", "javascript": "this", "typescript": "this", "java": "this", "php": "$this"}
    for lg, kw in receiver_langs.items():
        m = model.modules.get(f"lang/{lg}_parser.py")
        if m is None:
            continue
        routed = False
        for n in ast.walk(m.tree):
            if isinstance(n, ast.Call) and (call_name(n) or "").split(".")[-1] in ("global_this", "global_self"):
                routed = True
            if isinstance(n, ast.Attribute) and n.attr == "THIS" and (dotted(n) or "").endswith("LIAN_INTERNAL.THIS"):
                routed = True
        key = f"{lg}::receiver `{kw}`"
        if routed:
            rep.holds("C02.R4", key, m.rel, 1, "frontend maps the keyword to LIAN_INTERNAL.THIS")
        elif lg in normalisers:
            rep.holds("C02.R4", key, "events/event_registers.py", 1, f"normaliser {sorted(normalisers[lg])} registered for {lg}")
        else:
            rep_violation("C02.R4", key, m.rel, 1,
                          f"{lg}: neither the frontend routes `{kw}` to LIAN_INTERNAL.THIS nor is unify_this/unify_python_self registered "
                          f"for the language: field accesses on the receiver are not recognised as `%this` by any analysis")

    # ------------------------------------------------------------------ R5
    from .c01 import check_tmp_elimination
    check_tmp_elimination(model, rep, "C02.R5")
    _r6_literal_and_operator_plumbing(model, rep)
    _r6b_literal_text_untouched(model, rep)
    # ------------------------------------------------------------------ R7 / R8 (cross-cutting loop and operand-order rules)
    from .. import generic2
    seven_rels = [m.rel for lg, m in fes if lg in gir.SEVEN] + ["lang/common_parser.py"]
    rep.rule("C02.R7", "no element of a repeated construct is lost: a value a frontend computes for every child of a node (one lowered name, one "
                       "clause, one field) is handed on inside that iteration, not once after the loop with the last child's value", 100)
    generic2.check_per_iteration_values(model, rep, "C02.R7", seven_rels)
    rep.rule("C02.R8", "compound assignment keeps operand order in every frontend: `t op= e` and `place op= e` lower to old-value <op> e", 40)
    generic2.check_augmented_operand_order(model, rep, "C02.R8", seven_rels, adjudicated=AUG_ADJUDICATED)
    # declarations are one of the elements the language-independent analyses consume: the hoisting pass shared by the frontends must not
    # lose one (rules shared with C01.R9 / C05.R9)
    from .c05 import _r9_hoisting
    _r9_hoisting(model, rep, "C02.R9")
    import re as _re
    from .. import generic3
    rep.rule("C02.R10", "no part of a loop or branch is lost in a brace language: the body NODE of for/while/do/if is handed to parse() (a brace-less body "
                        "that is a statement of its own keeps its handler), and a field the grammar lets repeat is read with the plural accessor", 40)
    generic3.check_bodies_parsed_whole(model, rep, "C02.R10", [f"lang/{l}_parser.py" for l in ("c", "java", "javascript", "typescript", "php") if f"lang/{l}_parser.py" in model.modules],
                                       func_filter=lambda f_: _re.search(r"(^|_)(for|while|do|if|foreach|else)(_|$)", f_.name) is not None)
    generic3.check_repeated_fields(model, rep, "C02.R10")
    from .. import generic4
    rep.rule("C02.R11", "element indices count elements in every frontend: a loop that numbers the children of an array/list literal with "
                        "enumerate() does not skip children (comments) inside the counted loop", 4)
    generic4.check_skip_counted_indices(model, rep, "C02.R11", [m_.rel for lg_, m_ in gir.frontend_modules(model, gir.SEVEN)], min_sites=4)


def _scope_builder_ops(model: RepoModel) -> Set[str]:
    cm = model.module("config/constants.py")
    sh = model.module("basics/scope_hierarchy.py")
    sets = {}
    for name, v in cm.assigns.items():
        if name.endswith("_OPERATION") or name.endswith("_OPERATIONS"):
            val = literal(v)
            if val is NotImplemented and isinstance(v, ast.Call) and v.args:
                val = literal(v.args[0])
            if val is not NotImplemented:
                sets[name] = set(val)
    used = {n.id for n in ast.walk(sh.tree) if isinstance(n, ast.Name) and n.id in sets}
    return set().union(*[sets[u] for u in used]) if used else set()


def _nearest(name: str, cands) -> str:
    import difflib
    m = difflib.get_close_matches(name, list(cands), n=1, cutoff=0.6)
    return m[0] if m else ""


# ---------------------------------------------------------------- self-test mutants
def _rename_key(rel, func, old, new, cls="Parser", nth=0):
    def mut(src):
        from ..mutate import replace_expr_where
        return replace_expr_where(src, cls, func, lambda e: isinstance(e, ast.Constant) and e.value == old, repr(new), nth)
    return mut


def _rename_attr(op, old, new, func=None, nth=0):
    """rename attribute ``old`` of an emitted ``{op: {...}}`` literal (AST located)."""
    def mut(src):
        from ..mutate import replace_node, MutationError
        tree = ast.parse(src)
        hits = []
        for f in ast.walk(tree):
            if isinstance(f, ast.FunctionDef) and (func is None or f.name == func):
                for n in ast.walk(f):
                    if isinstance(n, ast.Dict) and len(n.keys) == 1 and const_str(n.keys[0]) == op and isinstance(n.values[0], ast.Dict):
                        for k in n.values[0].keys:
                            if const_str(k) == old:
                                hits.append(k)
        if len(hits) <= nth:
            raise MutationError(f"no emission of {op}.{old} in {func}")
        hits.sort(key=lambda k: (k.lineno, k.col_offset))
        return replace_node(src, hits[nth], repr(new))
    return mut


def _rename_op(op, new, func=None, nth=0):
    def mut(src):
        from ..mutate import replace_node, MutationError
        tree = ast.parse(src)
        hits = []
        for f in ast.walk(tree):
            if isinstance(f, ast.FunctionDef) and (func is None or f.name == func):
                for n in ast.walk(f):
                    if isinstance(n, ast.Dict) and len(n.keys) == 1 and const_str(n.keys[0]) == op:
                        hits.append(n.keys[0])
        if len(hits) <= nth:
            raise MutationError(f"no emission of {op} in {func}")
        hits.sort(key=lambda k: (k.lineno, k.col_offset))
        return replace_node(src, hits[nth], repr(new))
    return mut


MUTANTS = [
    ("literal-none-not-caught", "lang/common_parser.py",
     lambda src: __import__("sa.mutate", fromlist=["x"]).text_replace(src, "            result = self.literal(node, statements, replacement)\n            if result is None:\n                return self.read_node_text(node)\n            return result",
                                                                     "            return self.literal(node, statements, replacement)"),
     "a literal never lowers to None"),
    ("php-compound-operator-mapped-before-strip", "lang/php_parser.py",
     lambda src: __import__("sa.mutate", fromlist=["x"]).text_replace(src, '        shadow_operator = operator.replace("=", "")\n        shadow_operator = self.CONSTANTS_MAP.get(shadow_operator, shadow_operator)',
                                                                     '        shadow_operator = self.CONSTANTS_MAP.get(operator, operator).replace("=", "")'),
     "operator map applied after `=` is stripped"),
    ("py-return-op-renamed", "lang/python_parser.py", _rename_op("return_stmt", "return", "return_statement"), "python::return"),
    ("py-if-then-renamed", "lang/python_parser.py", _rename_attr("if_stmt", "then_body", "body", "if_statement"), "python::if_stmt::emits body"),
    ("py-while-body-renamed", "lang/python_parser.py", _rename_attr("while_stmt", "body", "loop_body"), "python::while_stmt"),
    ("js-call-args-renamed", "lang/javascript_parser.py", _rename_attr("call_stmt", "positional_args", "arguments"), "javascript::call_stmt::emits arguments"),
    ("java-field-read-renamed", "lang/java_parser.py", _rename_attr("field_read", "receiver_object", "object"), "java::field_read"),
    ("c-while-cond-renamed", "lang/c_parser.py", _rename_attr("while_stmt", "condition", "cond"), "c::while_stmt"),
    ("php-assign-operand-renamed", "lang/php_parser.py", _rename_attr("assign_stmt", "operand", "source"), "php::assign_stmt::emits source"),
    ("go-if-op-renamed", "lang/go_parser.py", _rename_op("if_stmt", "if"), "go::if"),
    ("go-array-write-renamed", "lang/go_parser.py", _rename_attr("array_write", "index", "idx"), "go::array_write"),
    ("ts-while-unhandled-op", "lang/typescript_parser.py", _rename_op("while_stmt", "loop_stmt"), "typescript::loop_stmt"),
    ("ts-return-renamed-attr", "lang/typescript_parser.py", _rename_attr("return_stmt", "name", "target"), "typescript::return_stmt"),
    ("tmp-elim-ignores-operator", "events/default_event_handlers/add_var_decl.py",
     lambda src: __import__("sa.mutate", fromlist=["x"]).text_replace(src, '            or curr_content.get("operand2") \n            or curr_content.get("operator")):', '            or curr_content.get("operand2")):'),
     "has no operator"),
    ("reader-renamed", "basics/stmt_def_use_analysis.py",
     lambda src: __import__("sa.mutate", fromlist=["x"]).replace_expr_where(
         src, "StmtDefUseAnalysis", "return_stmt_def_use", lambda e: isinstance(e, ast.Attribute) and e.attr == "name", lambda n: "stmt.value"),
     "return_stmt::requires name"),
    ("handler-unregistered", "basics/stmt_def_use_analysis.py",
     lambda src: __import__("sa.mutate", fromlist=["x"]).text_replace(src, '"field_write"', '"field_store"'), "::field_write"),
    ("python-self-normaliser-unregistered", "events/event_registers.py",
     lambda src: __import__("sa.mutate", fromlist=["x"]).text_replace(
         src, 'handler = basic.unify_python_self,\n                langs = ["python"]', 'handler = basic.unify_python_self,\n                langs = ["abc"]'),
     "python::receiver"),
]
