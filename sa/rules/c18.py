"""C18 -- running lian never alters inputs and writes only inside its workspace (DESIGN section 3, C18).

Effect confinement decided with E3 (sa/effects.py): every filesystem-mutating call site in src/lian
and the provenance roots of its path arguments.
"""
from __future__ import annotations

import ast
from typing import Dict, List, Optional, Set

from .. import effects
from ..astutil import is_const
from ..cfg import cfg_of
from ..model import AnalysisError, Func, RepoModel, call_name, const_str, dotted, is_self_attr, norm, walk_no_nested

PREP = "preparation.py"
# functions nothing in the analysis pipeline calls (debug helpers); their effect sites are information only
UNREACHED_OK = {"common_structs.py::BasicGraph.save_png", "util/util.py::replace_weight_to_label_in_dot"}


def run(model: RepoModel, rep, tier: str):
    rep.not_decided = ("OS-level behaviour of symlinks and mount points, what clang writes, races with other processes, behaviour when an "
                       "input lies inside the workspace that --force deletes")
    P = effects.Provenance(model)
    sites = effects.effect_sites(model)
    rep.analysed["effect sites"] = len(sites)
    rep.rule("C18.R1", "every path that is written, created or copied to derives from options.workspace", min_instances=12)
    rep.rule("C18.R2", "every delete targets an entry listed from a workspace-derived directory and, outside the backup directory, is "
                       "control dependent on the --force flag", min_instances=4)
    rep.rule("C18.R3", "inputs are only read: files whose path derives from an input are opened read-only and only appear as the "
                       "source of a copy", min_instances=3)
    rep.rule("C18.R4", "copying is bounded: the directory walk that copies inputs never descends into the workspace, and symlinked "
                       "sources are skipped", min_instances=2)
    rep.rule("C18.R5", "the workspace path is fixed before anything touches the filesystem: the default directory name is appended and "
                       "preparation runs after that", min_instances=3)

    def classify(roots: Set[str]):
        bad = [r for r in roots if r in ("input", "cwd", "settings", "relative-name", "tempdir") or r.startswith("const:'/")]
        unk = [r for r in roots if r.startswith("unknown:")]
        rel_const = [r for r in roots if r.startswith("const:") and not r.startswith("const:'/")]
        # a configuration constant holding a relative name (config:NAME=value) is a relative path too when nothing else anchors it
        rel_const += [r for r in roots if r.startswith("config:") and "=" in r and not r.split("=", 1)[1].startswith("/")]
        return bad, unk, rel_const

    # ------------------------------------------------------------------ R1 / R3
    for s in sites:
        for role, e in s.path_args:
            roots = P.roots(e, s.func)
            key = f"{s.where}::{s.kind} {role} `{norm(e)}`"
            file, line = s.func.module.rel, s.call.lineno
            if s.kind == "delete":
                continue
            if role in ("program",):
                rep.info("C18.R1", key, file, line, f"external program {sorted(roots)}")
                continue
            if role == "src":
                bad, unk, rel = classify(roots)
                cn_ = call_name(s.call) or ""
                if cn_ in ("os.link", "os.symlink", "os.rename", "os.replace", "shutil.move") and "input" in roots:
                    what_ = "links" if cn_ in ("os.link", "os.symlink") else "moves"
                    rep.violation("C18.R3", key, file, line,
                                  f"{s.where} {what_} an input file (`{norm(e)}`, roots {sorted(roots)}) with {cn_}: "
                                  + ("the workspace entry and the input are then ONE file, so any later write to the workspace copy (a second input that maps to "
                                     "the same workspace name, a preprocessor) changes the input" if what_ == "links" else "the input disappears from where the user keeps it"))
                    continue
                # a copy source may be an input, the repository's own mock code, or the workspace (backup)
                allowed = {r for r in roots if r in ("input", "workspace", "repo") or r.startswith("config:")}
                rest = roots - allowed
                if not rest:
                    rep.holds("C18.R3", key, file, line, f"copy source roots {sorted(roots)}; the call only reads it")
                else:
                    rep.unknown("C18.R3", key, file, line, f"copy source roots {sorted(roots)}")
                continue
            bad, unk, rel = classify(roots)
            if s.where in UNREACHED_OK and (unk and not bad):
                rep.info("C18.R1", key, file, line, f"debug helper nothing calls; roots {sorted(roots)}")
                continue
            if bad:
                rep.violation("C18.R1", key, file, line,
                              f"{s.where} {s.kind}s `{norm(e)}` whose path derives from {sorted(bad)} (all roots: {sorted(roots)}): a file is "
                              f"created or overwritten outside the workspace / next to an input")
            elif rel and "workspace" not in roots:
                rep.violation("C18.R1", key, file, line,
                              f"{s.where} {s.kind}s the relative constant path {sorted(rel)}: it lands in the current directory, not in the workspace")
            elif unk:
                rep.unknown("C18.R1", key, file, line, f"roots {sorted(roots)}")
            elif roots == {"workspace"} or (roots and all(r == "workspace" or r.startswith("config:") for r in roots) and "workspace" in roots):
                rep.holds("C18.R1", key, file, line, "path derives from options.workspace")
            else:
                rep.unknown("C18.R1", key, file, line, f"roots {sorted(roots)}")
    # opens of input-derived paths are read-only
    for f in model.all_funcs():
        for c in model.calls_in(f):
            if call_name(c) == "open" and c.args:
                mode = effects._open_mode(c)
                if mode and not any(ch in mode for ch in "wax+"):
                    continue
                roots = P.roots(c.args[0], f)
                if "input" in roots:
                    rep.violation("C18.R3", f"{f.ref}::open `{norm(c.args[0])}` mode {mode}", f.module.rel, c.lineno,
                                  f"{f.ref} opens an input-derived path for writing (mode {mode!r})")
    n_ro = 0
    for f in model.all_funcs():
        for c in model.calls_in(f):
            if call_name(c) == "open" and c.args:
                mode = effects._open_mode(c)
                if mode and not any(ch in mode for ch in "wax+"):
                    n_ro += 1
    rep.holds("C18.R3", "src/lian::read-only opens", "", 0, f"{n_ro} open() calls are read-only by their literal mode")
    rep.holds("C18.R3", "src/lian::no write-mode open of an input-derived path", "", 0, "checked every write-mode open above (R1 roots)")

    # ------------------------------------------------------------------ R2
    wb = model.cls(PREP, "WorkspaceBuilder")
    for s in sites:
        if s.kind != "delete":
            continue
        role, e = s.path_args[0]
        roots = P.roots(e, s.func)
        key = f"{s.where}::delete `{norm(e)}`"
        file, line = s.func.module.rel, s.call.lineno
        cfg = cfg_of(s.func.node)
        node = None
        for n in cfg.g.nodes:
            if any(c is s.call for c in cfg.calls_at(n)):
                node = n
        probs = []
        if not (roots and all(r in ("workspace", "listdir-entry") for r in roots) and "workspace" in roots):
            probs.append(f"the deleted path has roots {sorted(roots)}, not (workspace directory + listed entry)")
        # the path must be join(<dir>, <listed entry>), i.e. a child, never the directory itself or a parent
        defs = [n.value for n in walk_no_nested(s.func.node) if isinstance(n, ast.Assign) and isinstance(n.targets[0], ast.Name)
                and isinstance(e, ast.Name) and n.targets[0].id == e.id]
        if isinstance(e, ast.Name) and not any(isinstance(d, ast.Call) and call_name(d) == "os.path.join" and len(d.args) == 2 for d in defs):
            probs.append("the deleted path is not os.path.join(<directory>, <listed entry>)")
        in_backup = s.func.name == "cleanup_directory"
        if not in_backup and node is not None:
            forced = False
            for t, lab in cfg.controlling_branches(node):
                if isinstance(t, ast.If):
                    txt = norm(t.test)
                    if txt == "not self.options.force" and lab == "F":
                        forced = True
                    if txt == "self.options.force" and lab == "T":
                        forced = True
            if not forced:
                probs.append("the delete is not control dependent on options.force")
        if in_backup:
            # cleanup_directory is only called on <workspace>/<backup dir>
            cs = P.callers(s.func)
            for g, c in cs:
                a = P.arg_for(c, s.func, s.func.params[1])
                r2 = P.roots(a, g) if a is not None else {"unknown"}
                txt = norm(a) if a is not None else ""
                if r2 != {"workspace"}:
                    probs.append(f"{g.qualname} calls cleanup_directory on a path with roots {sorted(r2)}")
                else:
                    bdefs = [n.value for n in walk_no_nested(g.node) if isinstance(n, ast.Assign) and isinstance(n.targets[0], ast.Name)
                             and isinstance(a, ast.Name) and n.targets[0].id == a.id]
                    if not any(isinstance(d, ast.Call) and call_name(d) == "os.path.join" and len(d.args) >= 2
                               and (dotted(d.args[-1]) or "").startswith("config.") for d in bdefs):
                        probs.append(f"{g.qualname} empties `{txt}`, which is not a named sub-directory of the workspace")
        if probs:
            rep.violation("C18.R2", key, file, line, f"{s.where}: " + "; ".join(probs))
        else:
            rep.holds("C18.R2", key, file, line, "child of a workspace directory" + ("" if in_backup else ", under options.force"))

    # ------------------------------------------------------------------ R4
    ct = wb.methods.get("copytree_with_extension")
    if ct is None:
        raise AnalysisError("WorkspaceBuilder.copytree_with_extension vanished")
    cfg = cfg_of(ct.node)
    walks = [n for n in cfg.g.nodes if cfg.kind[n] == "iter" and isinstance(cfg.stmt[n].iter, ast.Call) and call_name(cfg.stmt[n].iter) == "os.walk"]
    key = f"{PREP}::WorkspaceBuilder.copytree_with_extension::walk never descends into the workspace"
    if not walks:
        rep.unknown("C18.R4", key, PREP, ct.node.lineno, "no os.walk in copytree_with_extension")
    else:
        w = walks[0]
        tgt = cfg.stmt[w].target
        dirs_var = tgt.elts[1].id if isinstance(tgt, ast.Tuple) and len(tgt.elts) == 3 and isinstance(tgt.elts[1], ast.Name) else None
        pruned = False
        for n in cfg.loop_body_nodes[w]:
            st = cfg.stmt.get(n)
            if cfg.kind[n] == "stmt" and isinstance(st, ast.Assign) and dirs_var:
                for t in st.targets:
                    if isinstance(t, ast.Subscript) and isinstance(t.value, ast.Name) and t.value.id == dirs_var and isinstance(t.slice, ast.Slice):
                        if any("workspace" in P.roots(x, ct) for x in ast.walk(st.value) if isinstance(x, (ast.Name, ast.Attribute))
                               and (dotted(x) or "").split(".")[-1] not in (dirs_var, "d", "root")):
                            pruned = True
            if cfg.kind[n] == "stmt" and isinstance(st, ast.Expr) and isinstance(st.value, ast.Call) and isinstance(st.value.func, ast.Attribute) \
                    and st.value.func.attr == "remove" and isinstance(st.value.func.value, ast.Name) and st.value.func.value.id == dirs_var:
                pruned = True
        # or: the caller proves disjointness with a realpath containment test (not a substring test on the default name)
        runf = wb.methods.get("run")
        caller_guard = False
        for n in walk_no_nested(runf.node) if runf else []:
            if isinstance(n, ast.If) and any(isinstance(x, ast.Call) and call_name(x) in ("os.path.commonpath", "os.path.samefile") for x in ast.walk(n.test)):
                caller_guard = True
        # the comparison that prunes has to be made on resolved paths: a workspace reached through a symlink (or a `..`) must
        # still be recognised
        resolved = True
        why = ""
        if pruned:
            for n in cfg.loop_body_nodes[w]:
                st = cfg.stmt.get(n)
                if cfg.kind[n] == "stmt" and isinstance(st, ast.Assign) and any(isinstance(t, ast.Subscript) and isinstance(t.value, ast.Name)
                                                                                and t.value.id == dirs_var for t in st.targets):
                    for cmp_ in [x for x in ast.walk(st.value) if isinstance(x, ast.Compare)]:
                        for side in [cmp_.left] + list(cmp_.comparators):
                            ok_side = isinstance(side, ast.Call) and call_name(side) in ("os.path.realpath", "os.path.samefile")
                            if isinstance(side, ast.Name):
                                defs = [a.value for a in walk_no_nested(ct.node) if isinstance(a, ast.Assign) and isinstance(a.targets[0], ast.Name)
                                        and a.targets[0].id == side.id]
                                ok_side = bool(defs) and all(isinstance(d, ast.Call) and call_name(d) == "os.path.realpath" for d in defs)
                            if not ok_side:
                                resolved = False
                                why = norm(side)
        # ... and the path that is compared is the path of the directory about to be entered: <walk root>/<name>
        root_var = tgt.elts[0].id if isinstance(tgt, ast.Tuple) and len(tgt.elts) == 3 and isinstance(tgt.elts[0], ast.Name) else None
        wrong_base = None
        if pruned and root_var:
            for n in cfg.loop_body_nodes[w]:
                st = cfg.stmt.get(n)
                if cfg.kind[n] == "stmt" and isinstance(st, ast.Assign) and any(isinstance(t, ast.Subscript) and isinstance(t.value, ast.Name)
                                                                                and t.value.id == dirs_var for t in st.targets):
                    comp_vars = {g.target.id for x in ast.walk(st.value) if isinstance(x, (ast.GeneratorExp, ast.ListComp)) for g in x.generators
                                 if isinstance(g.target, ast.Name)}
                    for j_ in ast.walk(st.value):
                        if isinstance(j_, ast.Call) and call_name(j_) == "os.path.join" and len(j_.args) >= 2 \
                                and any(isinstance(a, ast.Name) and a.id in comp_vars for a in j_.args[1:]):
                            if not (isinstance(j_.args[0], ast.Name) and j_.args[0].id == root_var):
                                wrong_base = j_
        if pruned and wrong_base is not None:
            rep.violation("C18.R4", key, PREP, wrong_base.lineno,
                          f"the walk decides what to prune by resolving `{norm(wrong_base)}`, which is not the directory it is about to enter "
                          f"(`os.path.join({root_var}, <name>)`): a workspace deeper than one level below the input (`-w proj/build/ws proj`) is "
                          f"not recognised and the copy descends into itself")
        elif pruned and not resolved:
            rep.violation("C18.R4", key, PREP, cfg.stmt[w].lineno,
                          f"the walk prunes the workspace by comparing `{why}`, which is not a resolved path (os.path.realpath): a workspace "
                          f"given through a symlink (`-w out` with out -> proj/build) is not recognised inside the input and the copy "
                          f"recurses into itself")
        elif pruned or caller_guard:
            rep.holds("C18.R4", key, PREP, cfg.stmt[w].lineno, "the workspace directory is pruned from the walk (resolved paths compared)" if pruned else "caller tests containment")
        else:
            rep.violation("C18.R4", key, PREP, cfg.stmt[w].lineno,
                          "copytree_with_extension walks the input with os.walk and creates the copy under the workspace without pruning the "
                          "workspace from `dirs`: when the workspace lies inside an input directory (`cd proj; lian ... -f .`) the walk "
                          "descends into the copy it is making and recurses until ENAMETOOLONG")
    from .c14 import check_path_prefix_tests
    check_path_prefix_tests(model, rep, "C18.R4")
    from ..generic3 import check_path_string_ops
    rep.rule("C18.R6", "output paths derived from an input's path are derived with os.path (splitext / join): cutting a path at its first dot or at the "
                       "first occurrence of the extension text yields a path outside the workspace when a directory name contains a dot", 3)
    check_path_string_ops(model, rep, "C18.R6", ["preparation.py", "lang/lang_analysis.py", "main.py", "util/util.py"])
    from .. import generic6
    rep.rule("C18.R7", "only a directory the user named becomes the workspace: the test whether -w already contains the default workspace name "
                       "is made on the option as given, not on an absolutised path", 1)
    generic6.check_workspace_name_test(model, rep, "C18.R7")
    key = f"{PREP}::WorkspaceBuilder.copytree_with_extension::symlinked sources skipped"
    from ..model import effective_body
    _eb = effective_body(ct.node)
    first = _eb[0] if _eb else None
    ok = isinstance(first, ast.If) and isinstance(first.test, ast.Call) and call_name(first.test) == "os.path.islink" \
        and any(isinstance(b, ast.Return) for b in first.body)
    (rep.holds if ok else rep.violation)("C18.R4", key, PREP, ct.node.lineno,
                                         "if os.path.islink(src): return" if ok else
                                         "symlinked sources are followed: a link pointing outside the input (or back into the workspace) is copied")

    # ------------------------------------------------------------------ R5
    mm = model.module("main.py")
    lian = mm.classes.get("Lian")
    sw = lian.methods.get("set_workspace_dir") if lian else None
    ini = lian.methods.get("init_submodules") if lian else None
    if sw is None or ini is None:
        raise AnalysisError("Lian.set_workspace_dir / init_submodules vanished")
    key = "main.py::Lian.set_workspace_dir::appends the default directory name"
    appended = any(isinstance(n, ast.Assign) and dotted(n.targets[0]) == "self.options.workspace" and isinstance(n.value, ast.Call)
                   and call_name(n.value) == "os.path.join" and dotted(n.value.args[0]) == "self.options.workspace" for n in walk_no_nested(sw.node))
    (rep.holds if appended else rep.violation)("C18.R5", key, "main.py", sw.node.lineno,
                                               "options.workspace = join(options.workspace, <default name>) unless already present" if appended else
                                               "the default workspace directory name is no longer appended: --force empties the directory the user named")
    # the only excuse for not appending is that the text the user gave already names the default directory; a test on a path derived
    # from the process's current directory (abspath/realpath/getcwd) skips the append for reasons the user never stated
    key = "main.py::Lian.set_workspace_dir::the append is skipped only for what the user wrote"
    scfg = cfg_of(sw.node)
    ENV_CALLS = ("os.path.abspath", "os.path.realpath", "os.getcwd", "os.path.expanduser", "os.path.normpath", "Path.cwd", "os.path.dirname",
                 "os.path.basename")
    bad = None
    n_app = 0
    for n in scfg.g.nodes:
        st = scfg.stmt.get(n)
        if scfg.kind[n] == "stmt" and isinstance(st, ast.Assign) and dotted(st.targets[0]) == "self.options.workspace" \
                and isinstance(st.value, ast.Call) and call_name(st.value) == "os.path.join":
            n_app += 1
            for atom, _truth in scfg.conditions_at(n):
                for c in ast.walk(atom):
                    if isinstance(c, ast.Call) and (call_name(c) in ENV_CALLS or (isinstance(c.func, ast.Attribute) and c.func.attr in ("resolve", "absolute"))):
                        bad = (atom, c)
    if n_app:
        if bad:
            rep.violation("C18.R5", key, "main.py", bad[0].lineno,
                          f"whether the default directory name is appended is decided by `{norm(bad[0])}`, which depends on `{norm(bad[1])}` and "
                          f"hence on the directory the process runs in, not on what the user wrote after -w: run from below a directory whose "
                          f"name contains the default name, the bare -w directory becomes the workspace and --force empties it")
        else:
            rep.holds("C18.R5", key, "main.py", sw.node.lineno, "the conditions guarding the append test the option text only")
    key = "main.py::Lian.init_submodules::workspace fixed before preparation"
    icfg = cfg_of(ini.node)
    prep_nodes = [n for n in icfg.g.nodes for c in icfg.calls_at(n) if call_name(c) == "preparation.run"]
    set_nodes = {n for n in icfg.g.nodes for c in icfg.calls_at(n) if is_self_attr(c.func, "set_workspace_dir")}
    flag_f = set()
    for (t, lab), b in icfg.branch_of.items():
        if isinstance(icfg.stmt[t], ast.If) and "set_workspace_dir_flag" in norm(icfg.stmt[t].test):
            # `if not flag:` -> F branch means the flag was set (by an explicit earlier call)
            neg = isinstance(icfg.stmt[t].test, ast.UnaryOp)
            if (neg and lab == "F") or (not neg and lab == "T"):
                flag_f.add(b)
    if prep_nodes and icfg.path_avoiding(icfg.ENTRY, prep_nodes[0], set_nodes | flag_f) is None:
        rep.holds("C18.R5", key, "main.py", ini.node.lineno, "every path to preparation.run passes set_workspace_dir (or the flag says it already ran)")
    else:
        rep.violation("C18.R5", key, "main.py", ini.node.lineno,
                      "preparation.run can be reached before set_workspace_dir: the workspace is the bare -w directory and --force empties it")


# ---------------------------------------------------------------- self-test mutants
def _t(old, new):
    return lambda src: __import__("sa.mutate", fromlist=["x"]).text_replace(src, old, new)


MUTANTS = [
    ("taint-report-under-default-dir-name", "taint/taint_analysis.py",
     lambda src: __import__("sa.mutate", fromlist=["x"]).text_replace(src, "        output_dir = os.path.join(self.options.workspace, config.TAINT_OUTPUT_DIR)", "        output_dir = os.path.join(self.options.default_workspace_dir, config.TAINT_OUTPUT_DIR)"),
     "print_and_write_flows"),
    ("prune-compares-abspath", PREP, lambda src: src.replace("os.path.realpath(self.options.workspace)", "os.path.abspath(self.options.workspace)", 1)
        .replace("os.path.realpath(os.path.join(root, d))", "os.path.abspath(os.path.join(root, d))", 1), "walk never descends"),
    ("preprocess-original-files", PREP, _t("                    self.rescan_c_like_files(src_dir_path)",
                                           "                    for src_file in self.dst_file_to_src_file.values():\n                        self.preprocess_c_like_file(src_file)"),
     "preprocess_c_like_file"),
    ("taint-output-to-cwd", "taint/taint_analysis.py",
     _t('output_dir = os.path.join(self.options.workspace, config.TAINT_OUTPUT_DIR)', 'output_dir = os.path.join(os.getcwd(), config.TAINT_OUTPUT_DIR)'),
     "print_and_write_flows"),
    ("processed-file-next-to-input", PREP,
     _t('new_file_path = f"{file_path_name}_processed{extension}"', 'new_file_path = f"{os.path.splitext(self.dst_file_to_src_file.get(file_path, file_path))[0]}_processed{extension}"'),
     "preprocess_c_like_file"),
    ("delete-without-force", PREP,
     _t('        if not self.options.force:\n            if not self.options.incremental:\n                util.error_and_quit(f"The target directory already exists. Use --force/-f to overwrite.")\n        else:',
        '        if not self.options.force and not self.options.incremental:\n            util.error_and_quit(f"The target directory already exists. Use --force/-f to overwrite.")\n        if True:'),
     "manage_directory::delete"),
    ("delete-input-dir", PREP, _t("            for filename in os.listdir(path):\n                file_path = os.path.join(path, filename)\n                try:\n                    if os.path.isfile(file_path) or os.path.islink(file_path):\n                        os.unlink(file_path)",
                                  "            for filename in os.listdir(path):\n                file_path = os.path.join(self.options.in_path[0], filename)\n                try:\n                    if os.path.isfile(file_path) or os.path.islink(file_path):\n                        os.unlink(file_path)"),
     "manage_directory::delete"),
    ("walk-not-pruned", PREP,
     lambda src: __import__("sa.mutate", fromlist=["x"]).delete_stmt_where(
         src, "WorkspaceBuilder", "copytree_with_extension",
         lambda st: isinstance(st, ast.Assign) and isinstance(st.targets[0], ast.Subscript) and isinstance(st.targets[0].slice, ast.Slice)),
     "walk never descends"),
    ("symlinks-followed", PREP,
     lambda src: __import__("sa.mutate", fromlist=["x"]).delete_stmt_where(
         src, "WorkspaceBuilder", "copytree_with_extension",
         lambda st: isinstance(st, ast.If) and isinstance(st.test, ast.Call) and call_name(st.test) == "os.path.islink"),
     "symlinked sources"),
    ("copy-direction-swapped", PREP, _t("shutil.copy2(src_file, dst_file)", "shutil.copy2(dst_file, src_file)"), "copytree_with_extension::copy dst"),
    ("workspace-name-not-appended", "main.py",
     _t("            self.options.workspace = os.path.join(self.options.workspace, default_workspace_dir)\n", "            pass\n"),
     "set_workspace_dir"),
    ("append-skipped-by-cwd", "main.py", _t("if default_workspace_dir not in self.options.workspace:", "if default_workspace_dir not in os.path.abspath(self.options.workspace):"),
     "the append is skipped only for what the user wrote"),
    ("sfg-dump-relative", "core/sfg_dumper.py", _t('with open(self.file_name, "w", encoding="utf-8") as f:', 'with open(os.path.basename(self.file_name), "w", encoding="utf-8") as f:'),
     "dump_to_file"),
]
