"""C13 -- analysis terminates within bounded time on every program (DESIGN section 3, C13).

Termination of the pipeline is not decided.  Decided: every place where the design relies on a bound
maintains it.
"""
from __future__ import annotations

import ast
from typing import Dict, List, Optional, Set, Tuple

from ..astutil import is_const
from ..cfg import CFG, cfg_of
from ..model import AnalysisError, Func, RepoModel, call_name, const_str, dotted, is_self_attr, literal, norm, walk_no_nested

PS = "core/prelim_semantics.py"
GSS = "core/global_stmt_states.py"
GS = "core/global_semantics.py"
ANCHOR_FILES = ["core/prelim_semantics.py", "core/global_semantics.py", "core/global_stmt_states.py", "common_structs.py",
                "taint/taint_analysis.py", "core/stmt_states.py", "util/util.py", "preparation.py", "basics/control_flow.py",
                "basics/basic_analysis.py", "basics/import_hierarchy.py", "basics/scope_hierarchy.py", "util/loader.py",
                "events/default_event_handlers/basic.py", "events/default_event_handlers/add_var_decl.py", "taint/taint_structs.py",
                "core/resolver.py", "lang/lang_analysis.py"]


def cond_roots(test) -> Set[str]:
    """names and self-attributes the loop condition reads: 'x', 'frame', 'self.attr'."""
    out = set()
    for n in ast.walk(test):
        if isinstance(n, ast.Name) and isinstance(n.ctx, ast.Load) and n.id not in ("len", "util", "config", "True", "False", "None"):
            out.add(n.id)
        if isinstance(n, ast.NamedExpr) and isinstance(n.target, ast.Name):
            out.add("<walrus>")
    attrs = set()
    for n in ast.walk(test):
        if isinstance(n, ast.Attribute) and isinstance(n.value, ast.Name) and n.value.id == "self":
            attrs.add(f"self.{n.attr}")
    if attrs:
        out.discard("self")
    return out | attrs


PURE_PREFIXES = ("get", "is_", "has_", "peek", "query", "read", "find", "convert", "contain", "access", "lookup", "search", "to_", "len")
PURE_METHODS = {"keys", "values", "items", "copy", "index", "count", "startswith", "endswith", "strip", "lstrip", "rstrip", "split", "join",
                "lower", "upper", "format", "top", "first", "last", "size", "empty", "successors", "predecessors", "nodes", "edges"}


def _pure(method: str) -> bool:
    return method in PURE_METHODS or method.startswith(PURE_PREFIXES)


def changes(cfg: CFG, n: int, roots: Set[str], scalars: Set[str] = frozenset(), aliases: Set[str] = frozenset()) -> bool:
    """does CFG node n possibly change the state the condition reads?
    scalars: roots that hold numbers (only an assignment changes them); aliases: locals bound to parts of a root
    (only a store/mutating call *through* them counts, not rebinding the local)."""
    if "<walrus>" in roots:
        return True
    st = cfg.stmt.get(n)
    if st is None or cfg.kind[n] == "branch":
        return False

    def root_of(e) -> Optional[str]:
        cur = e
        while isinstance(cur, (ast.Attribute, ast.Subscript, ast.Call)):
            if isinstance(cur, ast.Attribute) and isinstance(cur.value, ast.Name) and cur.value.id == "self":
                return f"self.{cur.attr}"
            cur = cur.func if isinstance(cur, ast.Call) else cur.value
        return cur.id if isinstance(cur, ast.Name) else None

    if cfg.kind[n] == "stmt":
        if isinstance(st, (ast.Assign, ast.AugAssign, ast.AnnAssign, ast.Delete)):
            tg = st.targets if isinstance(st, (ast.Assign, ast.Delete)) else [st.target]
            flat = []
            for t in tg:
                flat.extend(t.elts if isinstance(t, (ast.Tuple, ast.List)) else [t])
            for t in flat:
                r = root_of(t)
                if isinstance(t, ast.Name):
                    if t.id in roots and t.id not in aliases:
                        return True
                elif r in roots and r not in scalars:
                    return True
    if cfg.kind[n] == "iter":
        for t in ast.walk(st.target):
            if isinstance(t, ast.Name) and t.id in roots:
                return True
    for e in cfg.exprs_at(n):
        for c in ast.walk(e):
            if isinstance(c, ast.Call):
                # a method call on (something reached from) a root, or a root passed as an argument, may mutate it
                if isinstance(c.func, ast.Attribute):
                    r = root_of(c.func.value)
                    if r in roots and r not in scalars and not _pure(c.func.attr):
                        return True
                    if r == "self" or (isinstance(c.func.value, ast.Name) and c.func.value.id == "self"):
                        if any(x.startswith("self.") for x in roots) and not _pure(c.func.attr):
                            return True   # a method of self may change self.<attr>
                fname = c.func.attr if isinstance(c.func, ast.Attribute) else (c.func.id if isinstance(c.func, ast.Name) else "")
                if _pure(fname) or fname in ("isinstance", "print", "str", "int", "list", "set", "tuple", "sorted", "enumerate", "range", "min", "max"):
                    continue
                for a in list(c.args) + [k.value for k in c.keywords]:
                    r = root_of(a) if not isinstance(a, ast.Name) else a.id
                    if r in roots and r not in scalars:
                        return True    # a mutable root handed to a callee may be changed there
            if isinstance(c, ast.NamedExpr) and isinstance(c.target, ast.Name) and c.target.id in roots:
                return True
    return False


def run(model: RepoModel, rep, tier: str):
    rep.not_decided = ("total termination and polynomial growth of the pipeline, cyclic imports and object graphs, recursion in the "
                       "frontends on deeply nested sources, the cost of pandas/networkx calls")
    rep.rule("C13.R1", "loop variants: on every path from the start of a while-loop body back to its head, something the loop condition "
                       "reads is changed (or the path leaves the loop); index loops advance on every such path", min_instances=25)
    rep.rule("C13.R2", "statement revisit bound: successors are queued only under the per-statement counter test, every completed visit "
                       "increments the counter, and the bounds are finite positive constants", min_instances=5)
    rep.rule("C13.R3", "descent cut-offs dominate frame creation: a callee is scheduled only through the negation of the recursion / "
                       "repeated-path / per-call-site-budget tests, and the budget is consumed on the way", min_instances=4)
    rep.rule("C13.R4", "worklists of the taint phase grow only behind a visited / growth test", min_instances=3)
    rep.rule("C13.R5", "self-feeding work-lists: a while loop that pops from a work-list and adds to the same work-list remembers what it has "
                       "already processed (a set that is membership-tested and grown inside the loop), or is one of the loops read and frozen "
                       "with the reason why it is finite", min_instances=8)
    _r5_self_feeding_worklists(model, rep)
    # ------------------------------------------------------------------ R6 recursive descents over graphs that may be cyclic
    from ..generic2 import check_mark_before_recursion
    rep.rule("C13.R6", "recursive descents over graphs that may be cyclic (states reachable through fields and elements, the class graph, "
                       "definition-use chains) enter the current key into their memo before they call themselves", 5)
    check_mark_before_recursion(model, rep, "C13.R6", sorted(r for r in model.modules if r.startswith(("core/", "taint/")))
                                + ["basics/type_hierarchy.py", "common_structs.py"])
    _r6b_memo_key_is_bounded(model, rep)
    _r7_bounded_evaluation(model, rep)
    from .. import generic6
    rep.rule("C13.R8", "the size check of constant folding bounds sequence repetition whichever side the sequence is on", 1)
    generic6.check_repetition_bound_both_orders(model, rep, "C13.R8")

    # functions something in the pipeline can reach (by-name over-approximation: a function is reachable when a reachable
    # function mentions its name; roots: main.py, event registration, handler tables)
    by_name: Dict[str, List[Func]] = {}
    for f in model.all_funcs():
        by_name.setdefault(f.name, []).append(f)
    mentions: Dict[int, Set[str]] = {}
    for f in model.all_funcs():
        s_ = set()
        for x in ast.walk(f.node):
            if isinstance(x, ast.Attribute):
                s_.add(x.attr)
            elif isinstance(x, ast.Name):
                s_.add(x.id)
        mentions[id(f.node)] = s_
    reach: Set[int] = set()
    todo = [f for f in model.all_funcs() if f.module.rel in ("main.py", "events/event_registers.py") or f.name in ("__init__", "run", "init", "enable")]
    # module-level code (handler tables, registrations) also references functions
    for mm in model.modules.values():
        for st in mm.tree.body:
            if not isinstance(st, (ast.FunctionDef, ast.ClassDef)):
                for x in ast.walk(st):
                    nm = x.attr if isinstance(x, ast.Attribute) else (x.id if isinstance(x, ast.Name) else None)
                    if nm in by_name:
                        todo.extend(by_name[nm])
    while todo:
        f = todo.pop()
        if id(f.node) in reach:
            continue
        reach.add(id(f.node))
        for nm in mentions[id(f.node)]:
            for g in by_name.get(nm, []):
                if id(g.node) not in reach:
                    todo.append(g)
    rep.analysed["functions reachable from the pipeline (by-name over-approximation)"] = len(reach)

    # ------------------------------------------------------------------ R1
    n_loops = 0
    for rel, m in sorted(model.modules.items()):
        if rel.startswith("lang/") and rel != "lang/lang_analysis.py":
            continue
        for f in m.all_funcs():
            whiles = [n for n in walk_no_nested(f.node) if isinstance(n, ast.While)]
            if not whiles:
                continue
            cfg = cfg_of(f.node)
            for w in whiles:
                n_loops += 1
                head = cfg.node(w)
                key = f"{f.ref}::while {norm(w.test)}"
                if isinstance(w.test, ast.Constant) and w.test.value:
                    # while True: must have a reachable break/return
                    leaves = any(isinstance(x, (ast.Break, ast.Return)) for b in w.body for x in ast.walk(b))
                    (rep.holds if leaves else rep.violation)("C13.R1", key, rel, w.lineno,
                                                             "constant-true loop with an exit statement" if leaves else "constant-true loop without break/return")
                    continue
                roots = cond_roots(w.test)
                # scalar roots: bare names compared with < > <= >= in the test, or assigned numbers / +=1 in the function
                scalars = set()
                for x in ast.walk(w.test):
                    if isinstance(x, ast.Compare) and any(isinstance(o, (ast.Lt, ast.LtE, ast.Gt, ast.GtE)) for o in x.ops):
                        for side in [x.left] + list(x.comparators):
                            if isinstance(side, ast.Name):
                                scalars.add(side.id)
                for x in walk_no_nested(f.node):
                    if isinstance(x, ast.AugAssign) and isinstance(x.target, ast.Name) and isinstance(x.value, ast.Constant) and isinstance(x.value.value, int):
                        scalars.add(x.target.id)
                    if isinstance(x, ast.Assign) and isinstance(x.targets[0], ast.Name) and isinstance(x.value, ast.Constant) and isinstance(x.value.value, int) \
                            and not isinstance(x.value.value, bool):
                        scalars.add(x.targets[0].id)
                scalars &= roots
                # locals bound inside the loop to an element of a (non-scalar) root alias it: frame = stack[-1]; frame.index += 1
                aliases = set()
                for x in ast.walk(w):
                    if isinstance(x, (ast.Assign, ast.AnnAssign)) and isinstance(getattr(x, "targets", [getattr(x, "target", None)])[0], ast.Name) \
                            and x.value is not None and (isinstance(x.value, (ast.Subscript, ast.Attribute)) or (
                                isinstance(x.value, ast.Call) and isinstance(x.value.func, ast.Attribute) and _pure(x.value.func.attr))):
                        base = x.value.func.value if isinstance(x.value, ast.Call) else x.value
                        while isinstance(base, (ast.Subscript, ast.Attribute)):
                            base = base.value
                        if isinstance(base, ast.Name) and base.id in roots and base.id not in scalars:
                            aliases.add(getattr(x, "targets", [getattr(x, "target", None)])[0].id)
                roots = roots | aliases
                body = cfg.loop_body_nodes[head]
                changing = {n for n in body if changes(cfg, n, roots, scalars, aliases)}
                # boolean flag refinement (path-insensitive CFGs report infeasible paths otherwise): a local flag that is set to a
                # constant at the top of the iteration and flipped only next to a changing statement makes the flipped branch
                # equivalent to having passed that statement
                bt0 = cfg.branch_of.get((head, "T"))
                for n in list(body):
                    st = cfg.stmt.get(n)
                    if cfg.kind[n] != "test" or not isinstance(st, ast.If):
                        continue
                    tst, neg = st.test, False
                    if isinstance(tst, ast.UnaryOp) and isinstance(tst.op, ast.Not):
                        tst, neg = tst.operand, True
                    if not isinstance(tst, ast.Name):
                        continue
                    F = tst.id
                    assigns = [(k, cfg.stmt[k].value.value) for k in body if cfg.kind[k] == "stmt" and isinstance(cfg.stmt[k], ast.Assign)
                               and isinstance(cfg.stmt[k].targets[0], ast.Name) and cfg.stmt[k].targets[0].id == F
                               and isinstance(cfg.stmt[k].value, ast.Constant) and isinstance(cfg.stmt[k].value.value, bool)]
                    other = [k for k in body if cfg.kind[k] == "stmt" and isinstance(cfg.stmt[k], (ast.Assign, ast.AugAssign))
                             and any(isinstance(t, ast.Name) and t.id == F for t in (cfg.stmt[k].targets if isinstance(cfg.stmt[k], ast.Assign) else [cfg.stmt[k].target]))
                             and k not in [a for a, _ in assigns]]
                    if other or not assigns:
                        continue
                    init = [k for k, v in assigns if cfg.dominates(k, n)]
                    if not init:
                        continue
                    init_val = dict(assigns)[init[0]]
                    flips = [k for k, v in assigns if v != init_val]
                    if not flips or bt0 is None:
                        continue
                    # which branch of the test needs the flipped value?
                    flipped_val = not init_val
                    want_true_branch = (flipped_val and not neg) or ((not flipped_val) and neg)
                    b = cfg.branch_of.get((n, "T" if want_true_branch else "F"))
                    if b is None:
                        continue
                    if all(cfg.path_avoiding(bt0, k, changing, within=set(body)) is None or k in changing for k in flips):
                        changing.add(b)
                p = cfg.back_paths_all_pass(head, changing)
                if p is None:
                    # index loops: additionally every back path must *advance* (not merely reassign)
                    rep.holds("C13.R1", key, rel, w.lineno,
                              f"every back path changes one of {sorted(roots)} ({len(changing)} changing statement(s) in {len(body)} body nodes)")
                elif id(f.node) not in reach:
                    rep.info("C13.R1", key, rel, w.lineno,
                             f"{f.ref} has a back path that changes nothing the condition reads, but nothing in the pipeline references this "
                             f"function (API helper): outside the property's scope", path=cfg.describe_path(p))
                else:
                    rep.violation("C13.R1", key, rel, w.lineno,
                                  f"{f.ref}: a path through the body of `while {norm(w.test)}` returns to the loop head without changing "
                                  f"anything the condition reads ({sorted(roots)}): once taken with the condition true, the loop never ends",
                                  path=cfg.describe_path(p))
    rep.analysed["while loops outside the frontends"] = n_loops

    # ------------------------------------------------------------------ R2
    ps = model.module(PS)
    p2 = ps.classes.get("P2PrelimSemanticAnalysis") or next(c for c in ps.classes.values() if "analyze_stmts" in c.methods)
    an = p2.methods.get("analyze_stmts")
    if an is None:
        raise AnalysisError("analyze_stmts vanished")
    cfg = cfg_of(an.node)
    adds = [n for n in cfg.g.nodes for c in cfg.calls_at(n) if isinstance(c.func, ast.Attribute) and c.func.attr in ("add", "append", "extend", "push")
            and "worklist" in norm(c.func.value) and any("graph_successors" in norm(a) or "successors" in norm(a) for a in c.args)]
    if not adds:
        raise AnalysisError("analyze_stmts: queuing of CFG successors not found")
    incs = {n for n in cfg.g.nodes if cfg.kind[n] == "stmt" and isinstance(cfg.stmt[n], ast.AugAssign) and "stmt_counters" in norm(cfg.stmt[n].target)
            and isinstance(cfg.stmt[n].op, ast.Add) and is_const(cfg.stmt[n].value, 1)}
    loop_heads = [n for n in cfg.g.nodes if cfg.kind[n] == "test" and isinstance(cfg.stmt[n], ast.While)]
    for a in adds:
        st = cfg.stmt[a]
        key = f"{PS}::analyze_stmts::{norm(st)}"
        ok_guard = False
        for tst, truth in cfg.conditions_at(a):          # polarity-agnostic: `if c < b: add else: pop` == `if not c < b: pop; continue` + add
            if isinstance(tst, ast.Compare) and len(tst.ops) == 1 and "stmt_counters" in norm(tst.left):
                if (isinstance(tst.ops[0], (ast.Lt, ast.LtE)) and truth) or (isinstance(tst.ops[0], (ast.Gt, ast.GtE)) and not truth):
                    ok_guard = True
        probs = []
        if not ok_guard:
            probs.append("successors are queued without the `stmt_counters[stmt_id] < bound` test")
        if loop_heads:
            h = loop_heads[0]
            within = cfg.loop_body_nodes[h] | {h}
            p = cfg.path_avoiding(a, h, incs, within=within)
            if p is not None:
                probs.append("a path from queuing the successors back to the loop head does not increment stmt_counters[stmt_id]")
        if probs:
            rep.violation("C13.R2", key, PS, st.lineno, "analyze_stmts: " + "; ".join(probs) + ": a statement in a CFG cycle is revisited without bound")
        else:
            rep.holds("C13.R2", key, PS, st.lineno, "queued under the counter test; the counter is incremented on every path back to the head (interruptions return)")
    # the bound itself
    cm = model.module("config/config.py")
    for name in sorted(k for k in cm.assigns if k.startswith("MAX_ANALYSIS_ROUND")):
        v = literal(cm.assigns[name])
        key = f"config/config.py::{name}"
        if isinstance(v, int) and 0 < v < 1000:
            rep.holds("C13.R2", key, "config/config.py", cm.assigns[name].lineno, f"= {v}")
        else:
            rep.violation("C13.R2", key, "config/config.py", cm.assigns[name].lineno, f"{name} = {norm(cm.assigns[name])} is not a small positive integer constant")
    # max_analysis_round is taken from those constants
    srcs = [n for f in p2.methods.values() for n in walk_no_nested(f.node) if isinstance(n, ast.Assign) and any(is_self_attr(t, "max_analysis_round") for t in n.targets)]
    key = f"{PS}::max_analysis_round source"
    if srcs and all((dotted(n.value) or "").startswith("config.MAX_ANALYSIS_ROUND") for n in srcs):
        rep.holds("C13.R2", key, PS, srcs[0].lineno, f"self.max_analysis_round = {norm(srcs[0].value)}")
    elif srcs:
        rep.violation("C13.R2", key, PS, srcs[0].lineno, f"self.max_analysis_round is set from `{norm(srcs[0].value)}`, not from a config.MAX_ANALYSIS_ROUND_* constant")

    # ------------------------------------------------------------------ R3
    gm = model.module(GSS)
    gss = gm.classes.get("GlobalStmtStates") or next(iter(gm.classes.values()))
    ct = gss.methods.get("compute_target_method_states")
    if ct is None:
        raise AnalysisError("GlobalStmtStates.compute_target_method_states vanished")
    cfg = cfg_of(ct.node)
    # the list of callees handed to the frame driver, by role: what is passed as callee_ids= to InterruptionData
    sched_lists = {k.value.id for c in walk_no_nested(ct.node) if isinstance(c, ast.Call) and (call_name(c) or "").endswith("InterruptionData")
                   for k in c.keywords if k.arg == "callee_ids" and isinstance(k.value, ast.Name)}
    sched = [n for n in cfg.g.nodes for c in cfg.calls_at(n) if isinstance(c.func, ast.Attribute) and c.func.attr == "append"
             and isinstance(c.func.value, ast.Name) and c.func.value.id in sched_lists]
    if not sched:
        raise AnalysisError("compute_target_method_states: scheduling of callees not found")
    sn = sched[0]
    cut = None
    for t, lab in cfg.controlling_branches(sn):
        if isinstance(t, ast.If) and isinstance(t.test, ast.BoolOp) and isinstance(t.test.op, ast.Or) and lab == "F" \
                and any(isinstance(b, ast.Continue) for b in t.body):
            cut = t
    key = f"{GSS}::compute_target_method_states::cut-off before scheduling a callee"
    if cut is None:
        rep.violation("C13.R3", key, GSS, cfg.stmt[sn].lineno,
                      "callees are scheduled for analysis without passing the cut-off disjunction (recursion / known path / budget): "
                      "recursive programs descend without bound")
    else:
        disj = [norm(v) for v in cut.test.values]
        need = {
            "recursion (callee already on the call path)": any(" in self.frame.call_path" in d for d in disj),
            "cycle count": any("count_cycles()" in d and ">" in d for d in disj),
            "per-call-site budget": any("call_site_analyze_counter" in d and "MAX_ANALYSIS_ROUND_FOR_CALL_SITE" in d and ">" in d for d in disj),
        }
        for what, ok in need.items():
            k2 = f"{key}::{what}"
            if ok:
                rep.holds("C13.R3", k2, GSS, cut.lineno, "disjunct present in the cut-off that guards scheduling")
            else:
                rep.violation("C13.R3", k2, GSS, cut.lineno,
                              f"the cut-off before scheduling a callee no longer tests the {what} (disjuncts: {disj}): "
                              + ("mutual recursion is re-entered until the Python stack or memory is exhausted" if "recursion" in what or "cycle" in what
                                 else "the same call site is re-analysed without bound"))
        # the budget is consumed between the cut-off and the scheduling
        incs = {n for n in cfg.g.nodes if cfg.kind[n] == "stmt" and isinstance(cfg.stmt[n], (ast.Assign, ast.AugAssign))
                and "call_site_analyze_counter" in norm(cfg.stmt[n].targets[0] if isinstance(cfg.stmt[n], ast.Assign) else cfg.stmt[n].target)
                and "+ 1" in norm(cfg.stmt[n]) or (cfg.kind[n] == "stmt" and isinstance(cfg.stmt[n], ast.AugAssign) and "call_site_analyze_counter" in norm(cfg.stmt[n].target))}
        k2 = f"{key}::budget consumed"
        cutn = cfg.node(cut)
        fb = cfg.branch_of.get((cutn, "F"))
        if fb is not None and cfg.path_avoiding(fb, sn, incs) is None:
            rep.holds("C13.R3", k2, GSS, cfg.stmt[sn].lineno, "call_site_analyze_counter[site] += 1 on every path from the cut-off to the scheduling")
        else:
            rep.violation("C13.R3", k2, GSS, cfg.stmt[sn].lineno,
                          "a callee is scheduled without incrementing call_site_analyze_counter for its call site: the per-site budget never runs out")
    # P2 bottom-up: a callee frame is pushed only if it has not been analysed
    am = p2.methods.get("analyze_method")
    if am is not None:
        key = f"{PS}::analyze_method::callee frames only for unanalysed methods"
        # the frame stack by role: the local constructed from ComputeFrameStack(...)
        stack_vars = {n.targets[0].id for n in walk_no_nested(am.node) if isinstance(n, ast.Assign) and isinstance(n.targets[0], ast.Name)
                      and any(isinstance(x, ast.Call) and (call_name(x) or "").endswith("ComputeFrameStack") for x in ast.walk(n.value))} or {"frame_stack"}
        pushes = [n for n in walk_no_nested(am.node) if isinstance(n, ast.Call) and isinstance(n.func, ast.Attribute) and n.func.attr in ("add", "append", "push")
                  and isinstance(n.func.value, ast.Name) and n.func.value.id in stack_vars]
        guarded = any("analyzed_method_list" in norm(t.test) for t in walk_no_nested(am.node) if isinstance(t, ast.If))
        if pushes and guarded:
            rep.holds("C13.R3", key, PS, am.node.lineno, f"{len(pushes)} frame push(es); membership in analyzed_method_list is tested")
        elif pushes:
            rep.violation("C13.R3", key, PS, pushes[0].lineno, "analyze_method pushes callee frames without testing analyzed_method_list: recursion never bottoms out")

    # P2: a frame that leaves the stack is recorded as analysed on that path (the only thing that stops its caller from asking again)
    if am is not None:
        acfg = cfg_of(am.node)
        pops = [n for n in acfg.g.nodes for c in acfg.calls_at(n) if isinstance(c.func, ast.Attribute) and c.func.attr == "pop"
                and isinstance(c.func.value, ast.Name) and c.func.value.id in stack_vars]
        recs = {n for n in acfg.g.nodes for c in acfg.calls_at(n) if isinstance(c.func, ast.Attribute) and c.func.attr == "add"
                and "analyzed_method_list" in norm(c.func.value)}
        heads = [n for n in acfg.g.nodes if acfg.kind[n] == "test" and isinstance(acfg.stmt[n], ast.While)]
        if pops and heads:
            h = heads[0]
            bt = acfg.branch_of[(h, "T")]
            within = acfg.loop_body_nodes[h] | {h}
            for pn in pops:
                key = f"{PS}::analyze_method::frame popped at line {_rel_line(acfg, pn, am)} is recorded as analysed"
                before = acfg.path_avoiding(bt, pn, recs, within=within) is None
                after = acfg.path_avoiding(pn, h, recs, within=within) is None
                if before or after or pn in recs:
                    rep.holds("C13.R3", key, PS, acfg.stmt[pn].lineno, "analyzed_method_list.add(frame.method_id) on every path through this pop")
                else:
                    rep.violation("C13.R3", key, PS, acfg.stmt[pn].lineno,
                                  "analyze_method pops a frame without adding its method to analyzed_method_list: the caller's call statement "
                                  "requests the same callee again on its next visit and the bottom-up phase never ends (a callee whose frame "
                                  "cannot be initialised, e.g. an empty stub, is enough)")
    # P3: the per-entry call-site budget is one object shared by reference by every frame of the entry point
    cs = model.module("common_structs.py")
    cfc = cs.classes.get("ComputeFrame")
    if cfc is not None and "__init__" in cfc.methods:
        ini = cfc.methods["__init__"]
        key = "common_structs.py::ComputeFrame.__init__::call_site_analyze_counter is kept by reference"
        asg = [n for n in walk_no_nested(ini.node) if isinstance(n, ast.Assign) and any(is_self_attr(t, "call_site_analyze_counter") for t in n.targets)]
        rebinding = [n for n in walk_no_nested(ini.node) if isinstance(n, ast.Assign) and any(isinstance(t, ast.Name) and t.id == "call_site_analyze_counter" for t in n.targets)]
        none_only = all(any(isinstance(t, ast.If) and "call_site_analyze_counter is None" in norm(t.test) and any(x is r for x in ast.walk(t))
                            for t in walk_no_nested(ini.node)) for r in rebinding)
        if asg and all(isinstance(a.value, ast.Name) and a.value.id == "call_site_analyze_counter" for a in asg) and none_only:
            rep.holds("C13.R3", key, "common_structs.py", asg[0].lineno, "self.call_site_analyze_counter = call_site_analyze_counter (the caller's dict itself)")
        elif asg:
            rep.violation("C13.R3", key, "common_structs.py", asg[0].lineno,
                          f"ComputeFrame stores `{norm(asg[0].value)}` instead of the dict it was given: an empty shared dict is falsy/copied, so "
                          f"every frame counts call-site visits in a private dict and MAX_ANALYSIS_ROUND_FOR_CALL_SITE bounds nothing across "
                          f"frames -- a chain f_i -> f_(i-1) called from two sites each is analysed 2^n times")
        gsm = model.module(GS)
        for f in gsm.all_funcs():
            for n in walk_no_nested(f.node):
                if isinstance(n, ast.Call) and (call_name(n) or "").endswith("ComputeFrame") and not (call_name(n) or "").endswith("MetaComputeFrame"):
                    kw = next((k.value for k in n.keywords if k.arg == "call_site_analyze_counter"), None)
                    key = f"{GS}::{f.qualname}::ComputeFrame(... call_site_analyze_counter=self.call_site_analyze_counter) line {_fn_rel(n, f)}"
                    if kw is not None and is_self_attr(kw, "call_site_analyze_counter"):
                        rep.holds("C13.R3", key, GS, n.lineno, "the frame shares the analysis-wide budget")
                    else:
                        rep.violation("C13.R3", key, GS, n.lineno,
                                      f"{f.qualname} creates a frame without the shared call-site budget: visits made in that frame are not "
                                      f"counted against MAX_ANALYSIS_ROUND_FOR_CALL_SITE")

    # ------------------------------------------------------------------ R4
    tm = model.module("taint/taint_analysis.py")
    for cls_name, fname in (("TaintAnalysis", "get_state_with_inclusion_tag"), ("TaintAnalysis", "get_all_forward_nodes"),
                            ("TaintAnalysis", "get_all_backward_nodes"), ("PathFinder", "propagate_taint")):
        c = tm.classes.get(cls_name)
        f = c.methods.get(fname) if c else None
        if f is None:
            continue
        cfg = cfg_of(f.node)
        key = f"taint/taint_analysis.py::{cls_name}.{fname}::worklist grows only behind a visited test"
        heads = [n for n in cfg.g.nodes if cfg.kind[n] == "test" and isinstance(cfg.stmt[n], ast.While)]
        if not heads:
            continue
        h = heads[0]
        wl = sorted(r for r in cond_roots(cfg.stmt[h].test))
        bad = None
        n_add = 0
        for n in cfg.loop_body_nodes[h]:
            for cl in cfg.calls_at(n):
                if isinstance(cl.func, ast.Attribute) and cl.func.attr in ("append", "appendleft", "extend", "add") and isinstance(cl.func.value, ast.Name) \
                        and cl.func.value.id in wl:
                    n_add += 1
                    visited_sets = {x.func.value.id for k in cfg.loop_body_nodes[h] for x in cfg.calls_at(k)
                                    if isinstance(x.func, ast.Attribute) and x.func.attr == "add" and isinstance(x.func.value, ast.Name)}
                    guarded = False
                    for atom, truth in cfg.conditions_at(n):
                        for cmp_ in ast.walk(atom):
                            if isinstance(cmp_, ast.Compare) and len(cmp_.ops) == 1 and isinstance(cmp_.comparators[0], ast.Name) \
                                    and cmp_.comparators[0].id in visited_sets:
                                if isinstance(cmp_.ops[0], ast.NotIn) and truth and cmp_ is atom:
                                    guarded = True
                                if isinstance(cmp_.ops[0], ast.In) and not truth and cmp_ is atom:
                                    guarded = True
                                if cmp_ is not atom and ((isinstance(cmp_.ops[0], ast.NotIn) and truth) or (isinstance(cmp_.ops[0], ast.In) and not truth)):
                                    guarded = True      # part of a larger test, polarity as before
                    if not guarded:
                        bad = cl
        delegated = any(is_self_attr(cl.func) and cl.func.attr.startswith("_propagate") for n in cfg.loop_body_nodes[h] for cl in cfg.calls_at(n))
        if bad is not None:
            rep.violation("C13.R4", key, tm.rel, bad.lineno,
                          f"{fname} adds `{norm(bad.args[0]) if bad.args else ''}` to its worklist without a visited/membership test: on a cyclic "
                          f"state-flow graph the loop never ends")
        elif n_add or delegated:
            rep.holds("C13.R4", key, tm.rel, f.node.lineno,
                      f"{n_add} direct addition(s), each under a membership test" + ("; propagation helpers enqueue on tag growth (C10.R5)" if delegated else ""))

    # ------------------------------------------------------------------ size caps (information)
    caps = sorted(k for k in cm.assigns if k.startswith("MAX_") and ("STATES" in k or "ELEMENT" in k or "DEPTH" in k))
    consulted = {}
    for name in caps:
        consulted[name] = sum(1 for f in model.all_funcs() for n in walk_no_nested(f.node)
                              if isinstance(n, ast.Compare) and any((dotted(x) or "") == f"config.{name}" for x in ast.walk(n)))
    rep.analysed["size caps (constant -> comparisons that consult it)"] = consulted


def _rel_line(cfg, n, f) -> int:
    """line offset inside the function (stable under edits elsewhere in the file)."""
    return cfg.stmt[n].lineno - f.node.lineno


def _fn_rel(node, f) -> int:
    return node.lineno - f.node.lineno


SELF_FEEDING_OK = {
    ("basics/scope_hierarchy.py", "UnitScopeHierarchyAnalysis.summarize_symbol_decls"):
        "walks parent links of the scope forest; scopes whose closure is complete are recorded in visited_set after each outer iteration",
    ("core/global_semantics.py", "P3GlobalSemanticAnalysis.analyze_frame_stack"):
        "the frame stack grows only through the descent cut-offs decided in R3 (recursion, repeated path, per-call-site budget)",
    ("events/default_event_handlers/add_var_decl.py", "adjust_variable_decls"):
        "walks the finite tree of statement lists: every pushed frame is a list nested inside the statement being visited",
}


def _r6b_memo_key_is_bounded(model: RepoModel, rep):
    """A recursion that detects 'already in progress' through a memo key only terminates on cyclic data if the key can take finitely
    many values.  A key component computed from a parameter that every round of the recursion EXTENDS (an access path that grows by
    one element per level) is different at every level: the in-progress entry is never found again."""
    from ..generic2 import _param_roots
    n = 0
    for rel in sorted(r for r in model.modules if r.startswith("core/")):
        mod = model.module(rel)
        for outer in mod.all_funcs(nested=False):
            nested = {g.name.split(".")[-1]: g for g in mod._nested_of(outer)}
            if len(nested) < 2:
                continue
            for hname, h in nested.items():
                # memo guard: `key in cache` ... return, with key a tuple bound in h
                guards = [c for c in walk_no_nested(h.node) if isinstance(c, ast.Compare) and len(c.ops) == 1 and isinstance(c.ops[0], ast.In)
                          and isinstance(c.left, ast.Name) and isinstance(c.comparators[0], ast.Name) and c.comparators[0].id not in h.params]
                if not guards:
                    continue
                kvar = guards[0].left.id
                kdefs = [a.value for a in walk_no_nested(h.node) if isinstance(a, ast.Assign) and isinstance(a.targets[0], ast.Name) and a.targets[0].id == kvar]
                if len(kdefs) != 1 or not isinstance(kdefs[0], ast.Tuple):
                    continue
                hparams = set(h.params)
                # parameters of h that the cycle through the sibling closures extends before handing them back to h
                extended: Dict[str, ast.AST] = {}
                for g in nested.values():
                    for c in walk_no_nested(g.node):
                        if isinstance(c, ast.Call) and isinstance(c.func, ast.Name) and c.func.id == hname:
                            for p_, a_ in list(zip(h.params, c.args)) + [(k.arg, k.value) for k in c.keywords if k.arg]:
                                ds = [a_] + ([d.value for d in walk_no_nested(g.node) if isinstance(d, ast.Assign) and isinstance(d.targets[0], ast.Name)
                                              and isinstance(a_, ast.Name) and d.targets[0].id == a_.id])
                                for d in ds:
                                    grows = (isinstance(d, ast.Call) and any(w in (call_name(d) or "").lower() for w in ("extend", "append"))) \
                                        or (isinstance(d, ast.BinOp) and isinstance(d.op, ast.Add) and isinstance(d.right, (ast.List, ast.Tuple)))
                                    if grows and (p_ in {x.id for x in ast.walk(d) if isinstance(x, ast.Name)} or p_ in g.params):
                                        extended[p_] = d
                n += 1
                key = f"{rel}::{h.qualname}::the in-progress key `{kvar}` takes finitely many values"
                bad = [(e, r) for e in kdefs[0].elts for r in _param_roots(h.node, e, hparams) if r in extended]
                if bad:
                    e, r = bad[0]
                    rep.violation("C13.R6", key, rel, e.lineno,
                                  f"the key contains `{norm(e)[:60]}`, computed from parameter `{r}`, which the recursion extends on every level "
                                  f"(`{norm(extended[r])[:70]}`): the key is new at every level, the 'already in progress' entry is never found, and a "
                                  f"cyclic field graph (a.next = b; b.next = a) recurses until RecursionError")
                else:
                    rep.holds("C13.R6", key, rel, kdefs[0].lineno, f"components {[norm(e)[:30] for e in kdefs[0].elts]} do not depend on {sorted(extended) or 'any growing parameter'}")
    if not n:
        raise AnalysisError("no closure with an in-progress memo (`key in cache`) found in core/: the field-merging recursion has moved")


def _r7_bounded_evaluation(model: RepoModel, rep):
    """Constant expressions of the analysed program are folded with eval().  Time and memory of `**`, `<<` and sequence repetition
    are not bounded by the size of the expression text, so every eval of program-derived text has to be preceded by a size check
    that can refuse those operators."""
    rep.rule("C13.R7", "constant folding is bounded: every eval() of an expression assembled from program constants is dominated by a check "
                       "that inspects the expression's power, shift and multiplication nodes and can refuse (raise) before anything is computed", 1)
    n = 0
    for rel, mod in sorted(model.modules.items()):
        for f in mod.all_funcs():
            evals = [c for c in walk_no_nested(f.node) if isinstance(c, ast.Call) and isinstance(c.func, ast.Name) and c.func.id == "eval"]
            if not evals:
                continue
            cfg = cfg_of(f.node)
            for ev in evals:
                n += 1
                key = f"{rel}::{f.qualname}::`{norm(ev)[:60]}`::size-checked before it is evaluated"
                evn = next((nd for nd in cfg.g.nodes if any(c is ev for c in cfg.calls_at(nd))), None)
                if evn is None:
                    rep.unknown("C13.R7", key, rel, ev.lineno, "eval call not located in the CFG")
                    continue
                ok = None
                for nd in cfg.g.nodes:
                    if nd == evn or not cfg.dominates(nd, evn):
                        continue
                    for c in cfg.calls_at(nd):
                        callee = None
                        if isinstance(c.func, ast.Name):
                            callee = mod.functions.get(c.func.id)
                        elif isinstance(c.func, ast.Attribute) and is_self_attr(c.func) and f.cls is not None:
                            callee = model.find_method(f.cls, c.func.attr)
                        if callee is None:
                            continue
                        txt = {x.attr for x in ast.walk(callee.node) if isinstance(x, ast.Attribute)} | {x.id for x in ast.walk(callee.node) if isinstance(x, ast.Name)}
                        refuses = any(isinstance(x, ast.Raise) for x in ast.walk(callee.node))
                        if {"Pow", "LShift", "Mult"} <= txt and refuses and any(norm(a) in {norm(b) for b in ev.args[:1]} for a in c.args[:1]):
                            ok = callee
                if ok is not None:
                    rep.holds("C13.R7", key, rel, ev.lineno, f"dominated by {ok.qualname}(<same expression>), which inspects Pow / LShift / Mult nodes and raises")
                else:
                    rep.violation("C13.R7", key, rel, ev.lineno,
                                  f"{f.qualname} evaluates `{norm(ev.args[0]) if ev.args else '?'}` with eval() without a preceding check of the sizes involved: "
                                  f"a program containing `x = 9 ** 9 ** 9` (folded in two steps: 9 ** 387420489) or `1 << 10 ** 12` keeps the "
                                  f"analysis busy for ever or exhausts memory")
    if not n:
        raise AnalysisError("no eval() call found: the constant folder this rule is about has vanished or moved")
    # a list is never grown to a length that a constant of the analysed program dictates: the helper that extends element lists up to an
    # index compares the extension with a configured cap first (and refuses, so that the caller widens to "unknown index")
    um = model.module("util/util.py")
    for f in um.all_funcs():
        cfg = None
        for c in walk_no_nested(f.node):
            if not (isinstance(c, ast.Call) and isinstance(c.func, ast.Attribute) and c.func.attr == "extend" and c.args
                    and any(isinstance(x, ast.Call) and call_name(x) == "range" for x in ast.walk(c.args[0]))):
                continue
            sized_by = {x.id for r in ast.walk(c.args[0]) if isinstance(r, ast.Call) and call_name(r) == "range" for a in r.args for x in ast.walk(a)
                        if isinstance(x, ast.Name) and x.id in f.params}
            if not sized_by:
                continue
            cfg = cfg or cfg_of(f.node)
            key = f"util/util.py::{f.qualname}::`{norm(c)[:60]}`::the extension is capped"
            nd = next((n_ for n_ in cfg.g.nodes if any(cc is c for cc in cfg.calls_at(n_))), None)
            capped = nd is not None and any(isinstance(a, ast.Compare) and (sized_by & {x.id for x in ast.walk(a) if isinstance(x, ast.Name)})
                                            and any((dotted(x) or "").startswith("config.MAX") for x in ast.walk(a)) for a, _t in cfg.conditions_at(nd))
            if capped:
                rep.holds("C13.R7", key, "util/util.py", c.lineno, f"guarded by a comparison of {sorted(sized_by)} with a config.MAX_* cap")
            else:
                rep.violation("C13.R7", key, "util/util.py", c.lineno,
                              f"{f.qualname} extends a list by a number of elements computed from {sorted(sized_by)} without a cap: for `a[30000000] = x` the "
                              f"index is a constant of the analysed program, and the analysis builds (and copies, per visit) a list of that length -- time and "
                              f"memory proportional to the VALUE of a literal")


def _r5_self_feeding_worklists(model: RepoModel, rep):
    n = 0
    for rel, mod in sorted(model.modules.items()):
        if rel.startswith("lang/"):
            continue
        for f in mod.all_funcs():
            seen_loops = set()
            for L in walk_no_nested(f.node):
                if not isinstance(L, ast.While):
                    continue
                pops = [c for c in ast.walk(L) if isinstance(c, ast.Call) and isinstance(c.func, ast.Attribute) and c.func.attr in ("pop", "popleft")
                        and isinstance(c.func.value, ast.Name)]
                for p in pops:
                    wl = p.func.value.id
                    adds = [c for c in ast.walk(L) if isinstance(c, ast.Call) and isinstance(c.func, ast.Attribute)
                            and c.func.attr in ("add", "append", "extend", "fast_add", "insert_to_first", "appendleft")
                            and isinstance(c.func.value, ast.Name) and c.func.value.id == wl]
                    if not adds or (id(L), wl) in seen_loops:
                        continue
                    seen_loops.add((id(L), wl))
                    n += 1
                    tested = {norm(c.comparators[0]) for c in ast.walk(L) if isinstance(c, ast.Compare) and isinstance(c.ops[0], (ast.In, ast.NotIn))}
                    grown = {norm(c.func.value) for c in ast.walk(L) if isinstance(c, ast.Call) and isinstance(c.func, ast.Attribute)
                             and c.func.attr in ("add", "update")} - {wl}
                    visited = sorted(tested & grown)
                    key = f"{rel}::{f.qualname}::work-list `{wl}` (while loop #{_loop_ordinal(f, L)})"
                    # what is remembered must be what is tested: `if x not in V: V.add(x); wl.append(x)` or `x = wl.pop(); if x in V: continue;
                    # V.add(x)`.  Adding a different element (the one being expanded instead of the one being queued) leaves the tested
                    # element unmarked: it is queued once per path that reaches it (exponential on diamond-shaped graphs, endless on rings)
                    mismatch = None
                    for V in visited:
                        t_exprs = {norm(c.left) for c in ast.walk(L) if isinstance(c, ast.Compare) and isinstance(c.ops[0], (ast.In, ast.NotIn)) and norm(c.comparators[0]) == V}
                        a_exprs = {norm(c.args[0]): c for c in ast.walk(L) if isinstance(c, ast.Call) and isinstance(c.func, ast.Attribute) and c.func.attr == "add"
                                   and norm(c.func.value) == V and c.args}
                        # elements queued behind `E not in V`
                        for i_ in ast.walk(L):
                            if not isinstance(i_, ast.If):
                                continue
                            for c in ast.walk(i_.test):
                                if isinstance(c, ast.Compare) and isinstance(c.ops[0], ast.NotIn) and norm(c.comparators[0]) == V:
                                    E = norm(c.left)
                                    queued = any(isinstance(a_, ast.Call) and a_ in adds and a_.args and norm(a_.args[0]) == E for b_ in i_.body for a_ in ast.walk(b_))
                                    if queued and a_exprs and E not in a_exprs and not (set(a_exprs) & t_exprs):
                                        bad_add = next(iter(a_exprs.values()))
                                        mismatch = (V, bad_add, [E])
                    if visited and mismatch:
                        V, c, t_exprs = mismatch
                        rep.violation("C13.R5", key, rel, c.lineno,
                                      f"{f.qualname} tests {t_exprs} against `{V}` but remembers `{norm(c.args[0])}` (`{norm(c)}`): the element that is "
                                      f"tested is never marked, so it is queued again from every predecessor -- once per path on a layered graph of "
                                      f"diamonds (exponential work), for ever on a ring")
                    elif visited:
                        rep.holds("C13.R5", key, rel, L.lineno, f"processed elements are remembered in {visited}")
                    elif (rel, f.qualname) in SELF_FEEDING_OK:
                        rep.info("C13.R5", key, rel, L.lineno, "adjudicated: " + SELF_FEEDING_OK[(rel, f.qualname)])
                    else:
                        rep.violation("C13.R5", key, rel, L.lineno,
                                      f"{f.qualname} pops from `{wl}` and adds to it inside the same loop without remembering what it has already "
                                      f"processed (no set is both membership-tested and grown in the loop; SimpleWorkList only de-duplicates what "
                                      f"is queued at the moment, pop() forgets the element): on a cyclic structure -- objects linked in a ring -- "
                                      f"the loop never ends")
    rep.analysed["self-feeding work-list loops"] = n


def _loop_ordinal(f: Func, L) -> int:
    loops = sorted((x.lineno for x in walk_no_nested(f.node) if isinstance(x, ast.While)))
    return loops.index(L.lineno) + 1


# ---------------------------------------------------------------- self-test mutants
def _t(old, new):
    return lambda src: __import__("sa.mutate", fromlist=["x"]).text_replace(src, old, new)


def _m(kind, rel_cls, func, pred, new=None, nth=0):
    def mut(src):
        from .. import mutate
        if kind == "del":
            return mutate.delete_stmt_where(src, rel_cls, func, pred, nth)
        if kind == "stmt":
            return mutate.replace_stmt_where(src, rel_cls, func, pred, new, nth)
        return mutate.replace_expr_where(src, rel_cls, func, pred, new, nth)
    return mut


MUTANTS = [
    ("summary-walk-without-visited-set", "core/stmt_states.py",
     lambda src: _t("            if current_state_index in state_visited or current_state_index < 0:\n                continue\n            state_visited.add(current_state_index)\n",
                    "            if current_state_index < 0:\n                continue\n")(src),
     "apply_callee_semantic_summary::work-list `work_list`"),
    ("counter-or-empty", "common_structs.py", _t("        self.call_site_analyze_counter = call_site_analyze_counter\n", "        self.call_site_analyze_counter = call_site_analyze_counter or {}\n"),
     "kept by reference"),
    ("failed-init-not-recorded", PS, _t("                if self.init_compute_frame(frame, frame_stack) is None:\n                    self.analyzed_method_list.add(frame.method_id)\n",
                                        "                if self.init_compute_frame(frame, frame_stack) is None:\n"), "is recorded as analysed"),
    ("callee-frame-without-budget", GS, _t("                            call_site_analyze_counter=self.call_site_analyze_counter,\n", ""), "ComputeFrame("),
    ("analyze-stmts-no-counter-inc", PS, _m("del", "P2PrelimSemanticAnalysis", "analyze_stmts",
                                            lambda st: isinstance(st, ast.AugAssign) and "stmt_counters" in norm(st.target)), "analyze_stmts"),
    ("analyze-stmts-early-continue-no-pop", PS, _t("            if stmt_id <= 0 or stmt_id not in frame.stmt_counters:\n                frame.stmt_worklist.pop()\n                continue",
                                                   "            if stmt_id <= 0 or stmt_id not in frame.stmt_counters:\n                continue"),
     "analyze_stmts::while"),
    ("successors-queued-unguarded", PS, _t("                if frame.stmt_counters[stmt_id] < self.max_analysis_round:\n                    frame.stmt_worklist.add(util.graph_successors(frame.cfg, stmt_id))",
                                           "                if True:\n                    frame.stmt_worklist.add(util.graph_successors(frame.cfg, stmt_id))"), "analyze_stmts"),
    ("recursion-cutoff-dropped", GSS, _t("                each_callee_id in self.frame.call_path or\n", ""), "recursion"),
    ("budget-cutoff-dropped", GSS, _t("                self.frame.content_already_analyzed.get(new_call_site, False) or\n                self.frame.call_site_analyze_counter.get(new_call_site, 0) > config.MAX_ANALYSIS_ROUND_FOR_CALL_SITE\n",
                                      "                self.frame.content_already_analyzed.get(new_call_site, False)\n"), "per-call-site budget"),
    ("budget-not-consumed", GSS, _m("del", "GlobalStmtStates", "compute_target_method_states",
                                    lambda st: isinstance(st, ast.Assign) and "call_site_analyze_counter" in norm(st.targets[0]), nth=0), "budget consumed"),
    ("cfg-walker-continue-no-advance", "basics/control_flow.py", _t("            if util.is_empty(current):\n                pos += 1\n                continue",
                                                                    "            if util.is_empty(current):\n                continue"), "analyze_block::while"),
    ("main-func-index-stuck", "events/default_event_handlers/basic.py",
     lambda src: __import__("sa.mutate", fromlist=["x"]).delete_stmt_where(
         src, None, "add_main_func", lambda st: isinstance(st, ast.AugAssign) and isinstance(st.target, ast.Name) and st.target.id == "index", nth=-1),
     "add_main_func::while"),
    ("taint-inclusion-no-visited", "taint/taint_analysis.py", _t("                if next_state.node_type == SFG_NODE_KIND.STATE and next_state not in state_visited:",
                                                                 "                if next_state.node_type == SFG_NODE_KIND.STATE:"), "get_state_with_inclusion_tag"),
    ("eval-without-size-check", "util/util.py", _t("    check_eval_result_size(content)\n    return eval(content, {}, {})", "    return eval(content, {}, {})"), "size-checked before it is evaluated"),
    ("round-bound-huge", "config/config.py",
     lambda src: __import__("re").sub(r"(MAX_ANALYSIS_ROUND_FOR_PRELIM_ANALYSIS\s*=\s*)\d+", r"\g<1>10**9", src, count=1), "MAX_ANALYSIS_ROUND_FOR_PRELIM_ANALYSIS"),
]
