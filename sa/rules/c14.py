"""C14 -- analysis output is a deterministic function of the input (DESIGN section 3, C14).

Decided: no run-to-run varying quantity (directory enumeration order, hash-seed dependent set order,
object identities, clocks) feeds an identifier allocator or an order-sensitive accumulation.
"""
from __future__ import annotations

import ast
from typing import Dict, List, Optional, Set, Tuple

from ..model import AnalysisError, Func, RepoModel, call_name, const_str, dotted, is_self_attr, norm, walk_no_nested

DIR_ENUM = {"os.scandir", "os.listdir", "os.walk", "glob.glob", "glob.iglob"}
CLOCKS = ("time.time", "time.time_ns", "time.monotonic", "time.perf_counter", "datetime.now", "datetime.datetime.now", "datetime.utcnow",
          "os.getpid", "uuid.uuid1", "uuid.uuid4", "random.random", "random.randint", "random.choice", "random.shuffle", "random.sample")
# sites adjudicated by reading (key: function ref + iterable text) with one line of reason
ADJUDICATED = {
    ("preparation.py::WorkspaceBuilder.rescan_c_like_files", "os.walk(target_path)"):
        "each file is preprocessed on its own into a file named after it; nothing is numbered or accumulated across files",
    ("basics/entry_points.py::EntryPointGenerator._load_settings", "os.walk(self.options.default_settings)"):
        "rule order does not influence the selected set (results are a set union; first match only short-circuits)",
    ("externs/extern_system.py::ExternSystem.scan_rule_path", "os.walk(target_path)"):
        "mock rule files; with --nomock never read; order only decides which duplicate rule wins (not decided here)",
}
INT_NAME_HINTS = ("_id", "_ids", "index", "indexes", "_pos", "stmt_id", "state_id", "symbol_id", "bit_pos", "counter")
STR_NAME_HINTS = (".name", ".value", ".key", ".field", ".symbol_name", ".unit_path", "_name", "_path")


def allocators(model: RepoModel) -> Set[str]:
    """names of functions that hand out identifiers / arena positions: they post-increment a counter attribute or
    append to an arena and return its position."""
    out = set()
    for f in model.all_funcs():
        incs = any(isinstance(n, ast.AugAssign) and isinstance(n.op, (ast.Add, ast.Sub)) and is_self_attr(n.target)
                   and isinstance(n.value, ast.Constant) and n.value.value == 1 for n in walk_no_nested(f.node))
        rets = any(isinstance(n, ast.Return) and n.value is not None for n in walk_no_nested(f.node))
        small = (f.node.end_lineno - f.node.lineno) < 25
        if incs and rets and small:
            out.add(f.name)
        if f.name in ("create_state_and_add_space", "create_copy_of_state_and_add_space", "create_copy_of_symbol_and_add_space"):
            out.add(f.name)
        if f.cls is not None and f.cls.name in ("SymbolStateSpace", "BasicSpace") and f.name == "add":
            out.add("add_space_element")
    return out


def body_effects(model: RepoModel, f: Func, body: List[ast.stmt], allocs: Set[str], depth: int = 1, elem: Optional[str] = None) -> Dict[str, List[int]]:
    """order-sensitive effects syntactically present in a loop body (one call deep through self.m())."""
    eff: Dict[str, List[int]] = {}
    for st in body:
        for n in walk_no_nested(st) if not isinstance(st, (ast.FunctionDef, ast.ClassDef)) else []:
            # `D[<element>] = v`: a dict keeps insertion order, so the order of the keys of D is the order of this loop
            if elem is not None and isinstance(n, ast.Assign):
                for t in n.targets:
                    if isinstance(t, ast.Subscript) and isinstance(t.slice, ast.Name) and t.slice.id == elem:
                        eff.setdefault("inserts keys into a mapping (insertion order is kept)", []).append(n.lineno)
            if isinstance(n, ast.Call):
                cn = call_name(n) or ""
                last = n.func.attr if isinstance(n.func, ast.Attribute) else cn
                if last in allocs:
                    eff.setdefault("allocates ids/positions", []).append(n.lineno)
                if last in ("append", "insert", "extend") and isinstance(n.func, ast.Attribute):
                    eff.setdefault("appends to a sequence", []).append(n.lineno)
                if last in ("write", "dump", "to_feather"):
                    eff.setdefault("writes output", []).append(n.lineno)
                if depth > 0 and isinstance(n.func, ast.Attribute) and is_self_attr(n.func) and f.cls is not None:
                    callee = model.find_method(f.cls, n.func.attr)
                    if callee is not None and callee is not f:
                        sub = body_effects(model, callee, callee.node.body, allocs, depth - 1)
                        for k, v in sub.items():
                            if k.startswith("first match"):
                                continue   # a return inside the callee does not end the caller's loop
                            eff.setdefault(k + f" (via {callee.name})", []).append(n.lineno)
            if isinstance(n, (ast.Break, ast.Return)):
                eff.setdefault("first match wins (break/return)", []).append(n.lineno)
            # a text carried from one iteration to the next and rewritten per element: `line = re.sub(pat(elem), repl, line)`
            if isinstance(n, ast.Assign) and len(n.targets) == 1 and isinstance(n.targets[0], ast.Name):
                v = n.targets[0].id
                for c in ast.walk(n.value):
                    if isinstance(c, ast.Call):
                        cn2 = call_name(c) or ""
                        last2 = c.func.attr if isinstance(c.func, ast.Attribute) else cn2
                        reads_v = any(isinstance(x, ast.Name) and x.id == v for a in list(c.args) + [k.value for k in c.keywords] for x in ast.walk(a)) or \
                            (isinstance(c.func, ast.Attribute) and isinstance(c.func.value, ast.Name) and c.func.value.id == v)
                        if reads_v and (cn2 in ("re.sub", "re.subn") or last2 in ("replace", "sub", "subn", "translate")):
                            eff.setdefault("rewrites a text carried across iterations (overlapping patterns do not commute)", []).append(n.lineno)
    return eff


def _is_set_expr(e) -> bool:
    if isinstance(e, (ast.Set, ast.SetComp)):
        return True
    if isinstance(e, ast.Call) and call_name(e) in ("set", "frozenset"):
        return True
    if isinstance(e, ast.BinOp) and isinstance(e.op, (ast.BitOr, ast.BitAnd, ast.Sub, ast.BitXor)) and (_is_set_expr(e.left) or _is_set_expr(e.right)):
        return True
    # set algebra on dict views: `a.keys() - b.keys()` is a set
    if isinstance(e, ast.BinOp) and isinstance(e.op, (ast.BitOr, ast.BitAnd, ast.Sub, ast.BitXor)) and any(
            isinstance(x, ast.Call) and isinstance(x.func, ast.Attribute) and x.func.attr in ("keys", "items") and not x.args for x in (e.left, e.right)):
        return True
    return False


def _hash_kind_of_class(model: RepoModel, f: Func, cname: str, depth: int = 0) -> str:
    """what the position of an instance in a set depends on: 'object' when the class inherits object.__hash__ (the address: differs from
    process to process), 'str' when its hash involves text (PYTHONHASHSEED), 'int' when it is computed from integers and from objects
    that are themselves hashed by integers (the same in every process)."""
    ci = model.resolve_class_name(cname.split(".")[-1], f.module)
    if ci is None or depth > 3:
        return "object"
    deco = " ".join(norm(d) for d in ci.node.decorator_list)
    h = ci.methods.get("__hash__")
    texts = []
    if h is not None:
        texts.append(" ".join(norm(st) for st in h.node.body))
    elif "dataclass" in deco and ("frozen=True" in deco or "unsafe_hash=True" in deco or "eq=False" not in deco):
        # generated hash: the tuple of the fields
        for st in ci.node.body:
            if isinstance(st, ast.AnnAssign):
                texts.append(norm(st.annotation))
    else:
        return "object"
    txt = " ".join(texts)
    if "str" in txt or any(hint in txt for hint in ("name", "path", "text", "label")) and "self.path" not in txt and "tuple" not in txt:
        return "str"
    return "int"


def _elem_kind(f: Func, setname: str, selfattr: bool, model: RepoModel) -> Tuple[str, str]:
    """('int'|'str'|'object'|'unknown', evidence) for the elements of a local set / self attribute set."""
    exprs = []
    scope = [f] if not selfattr else ([g for g in f.cls.methods.values()] if f.cls else [f])
    for g in scope:
        for n in walk_no_nested(g.node):
            if isinstance(n, ast.Call) and isinstance(n.func, ast.Attribute) and n.func.attr in ("add", "update"):
                base = n.func.value
                if (not selfattr and isinstance(base, ast.Name) and base.id == setname) or (selfattr and is_self_attr(base, setname)):
                    exprs.extend(n.args)
            if isinstance(n, ast.Assign):
                for t in n.targets:
                    if (not selfattr and isinstance(t, ast.Name) and t.id == setname) or (selfattr and is_self_attr(t, setname)):
                        v = n.value
                        if isinstance(v, ast.Set):
                            exprs.extend(v.elts)
                        elif isinstance(v, ast.SetComp):
                            exprs.append(v.elt)
                        elif isinstance(v, ast.Call) and call_name(v) in ("set", "frozenset") and v.args:
                            exprs.append(v.args[0])
                        elif isinstance(v, ast.BinOp):
                            exprs.extend([v.left, v.right])
    kinds = set()
    ev = []
    for x in exprs:
        t = norm(x)
        if isinstance(x, ast.Constant):
            kinds.add("str" if isinstance(x.value, str) else "int")
        elif isinstance(x, (ast.JoinedStr,)) or (isinstance(x, ast.Call) and call_name(x) == "str"):
            kinds.add("str")
        elif any(t.endswith(h) or (h.startswith(".") and h in t) for h in STR_NAME_HINTS) and not any(t.endswith(h) for h in INT_NAME_HINTS):
            kinds.add("str")
        elif any(h in t for h in INT_NAME_HINTS) or (isinstance(x, ast.Call) and call_name(x) in ("int", "len")):
            kinds.add("int")
        elif isinstance(x, ast.Call) and (call_name(x) or "")[:1].isupper():
            kinds.add(_hash_kind_of_class(model, f, call_name(x)))
        else:
            kinds.add("unknown")
        ev.append(t[:40])
    if not kinds:
        return "unknown", "no element source found"
    if "str" in kinds:
        return "str", ", ".join(ev[:3])
    if "object" in kinds:
        return "object", ", ".join(ev[:3])
    if kinds == {"int"}:
        return "int", ", ".join(ev[:3])
    return "unknown", ", ".join(ev[:3])


def run(model: RepoModel, rep, tier: str):
    rep.not_decided = ("determinism of pandas/pyarrow/networkx internals, byte equality of files, sets whose type is only visible through "
                       "parameters or container values, effects more than one call deep")
    allocs = allocators(model)
    rep.analysed["id/position allocators recognised"] = sorted(allocs)
    rep.rule("C14.R1", "directory enumeration order never decides an identifier or an ordered accumulation: the listing is sorted, or "
                       "what is done per entry is commutative", min_instances=5)
    rep.rule("C14.R2", "no iteration over a hash-ordered collection of strings/objects allocates identifiers, appends to a stored sequence "
                       "or picks a first match, unless sorted", min_instances=10)
    rep.rule("C14.R4", "a forced run starts from an empty workspace: the wipe visits every entry, so results cannot depend on what an "
                       "earlier run left behind", min_instances=2)
    rep.rule("C14.R5", "what a file is (project code or extern mock code) is decided by its path relative to the workspace, never by a substring "
                       "of its absolute path: otherwise the result depends on where the workspace happens to be located", 1)
    _r5_location_independence(model, rep)
    rep.rule("C14.R6", "a sort that fixes the order of a set of value-hashed objects tells its members apart: the key reads every field the "
                       "class hashes on (except fields that are constant within one such set)", 1)
    _r6_sort_keys_discriminate(model, rep)
    from .. import generic5
    rep.rule("C14.R7", "the spelling of the workspace path changes nothing: a table whose keys are stored through os.path.realpath is looked up "
                       "through os.path.realpath (or with its own keys)", 1)
    generic5.check_key_normalisation(model, rep, "C14.R7")
    rep.rule("C14.R3", "no clock, pid, random or object identity value reaches an identifier or a stored result", min_instances=2)

    # ------------------------------------------------------------------ R1
    for f in model.all_funcs():
        for n in walk_no_nested(f.node):
            if not isinstance(n, ast.For):
                continue
            it = n.iter
            inner = it
            wrapped_sorted = False
            if isinstance(it, ast.Call) and call_name(it) == "sorted" and it.args:
                wrapped_sorted = True
                inner = it.args[0]
            if not (isinstance(inner, ast.Call) and call_name(inner) in DIR_ENUM):
                continue
            key = f"{f.ref}::for over {norm(inner)}"
            eff = body_effects(model, f, n.body, allocs)
            # os.walk: the per-directory lists are in enumeration order too; dirs sorted in place + sorted(files) makes it deterministic
            if call_name(inner) == "os.walk":
                tg = n.target
                dirs_v = tg.elts[1].id if isinstance(tg, ast.Tuple) and len(tg.elts) == 3 and isinstance(tg.elts[1], ast.Name) else None
                files_v = tg.elts[2].id if isinstance(tg, ast.Tuple) and len(tg.elts) == 3 and isinstance(tg.elts[2], ast.Name) else None
                dirs_sorted = any((isinstance(x, ast.Call) and isinstance(x.func, ast.Attribute) and x.func.attr == "sort"
                                   and isinstance(x.func.value, ast.Name) and x.func.value.id == dirs_v) or
                                  (isinstance(x, ast.Assign) and isinstance(x.targets[0], ast.Subscript) and isinstance(x.targets[0].value, ast.Name)
                                   and x.targets[0].value.id == dirs_v and isinstance(x.value, ast.Call) and call_name(x.value) == "sorted")
                                  for b in n.body for x in ast.walk(b))
                files_sorted = all(isinstance(x.iter, ast.Call) and call_name(x.iter) == "sorted" for b in n.body for x in ast.walk(b)
                                   if isinstance(x, ast.For) and any(isinstance(y, ast.Name) and y.id == files_v for y in ast.walk(x.iter)))
                wrapped_sorted = dirs_sorted and files_sorted
            # insertion order of a dict that an id allocator later iterates
            feeds_ordered_dict = []
            for b in n.body:
                for x in ast.walk(b):
                    if isinstance(x, ast.Call) and is_self_attr(x.func) and f.cls is not None:
                        callee = model.find_method(f.cls, x.func.attr)
                        for g in ([callee] if callee else []) + [f]:
                            for y in walk_no_nested(g.node):
                                if isinstance(y, ast.Assign) and isinstance(y.targets[0], ast.Subscript) and is_self_attr(y.targets[0].value):
                                    feeds_ordered_dict.append(y.targets[0].value.attr)
            dict_consumed_by_alloc = []
            for attr in sorted(set(feeds_ordered_dict)):
                for g in model.all_funcs():
                    for y in walk_no_nested(g.node):
                        if isinstance(y, ast.For) and isinstance(y.iter, ast.Attribute) and y.iter.attr == attr and is_self_attr(y.iter):
                            e2 = body_effects(model, g, y.body, allocs)
                            if any(k.startswith("allocates") for k in e2):
                                dict_consumed_by_alloc.append(f"{g.qualname} iterates self.{attr} and allocates ids")
            adj = ADJUDICATED.get((f.ref, norm(inner)))
            sensitive = {k: v for k, v in eff.items() if k.startswith("allocates") or k.startswith("appends") or k.startswith("first match")}
            lossy_key = None
            if wrapped_sorted and isinstance(it, ast.Call) and call_name(it) == "sorted":
                kk = next((k.value for k in it.keywords if k.arg == "key"), None)
                if kk is not None:
                    # the sort key has to tell any two directory entries apart: the entry's name/path itself (alone or as a tuple
                    # component); anything computed from it by a many-to-one function leaves ties in enumeration order
                    def injective(e, argname):
                        if isinstance(e, ast.Name) and e.id == argname:
                            return True
                        if isinstance(e, ast.Attribute) and isinstance(e.value, ast.Name) and e.value.id == argname and e.attr in ("name", "path"):
                            return True
                        if isinstance(e, ast.Tuple):
                            return any(injective(x, argname) for x in e.elts)
                        return False
                    if isinstance(kk, ast.Lambda) and kk.args.args:
                        if not injective(kk.body, kk.args.args[0].arg):
                            lossy_key = norm(kk)
                    elif not (isinstance(kk, ast.Attribute) and kk.attr in ("name", "path")):
                        lossy_key = norm(kk)
            if wrapped_sorted and lossy_key and (any(k.startswith("allocates") for k in eff) or sensitive):
                rep.violation("C14.R1", key, f.module.rel, n.lineno,
                              f"{f.ref} sorts `{norm(inner)}` with `key={lossy_key}`, which maps different entries to the same key (names differing "
                              f"only in what the key ignores): sorted() is stable, so such entries stay in the order the filesystem returned them "
                              f"and {sorted(eff)[0] if eff else 'the order-sensitive body'} follows that order")
            elif wrapped_sorted:
                rep.holds("C14.R1", key, f.module.rel, n.lineno, "the listing is sorted before it is consumed")
            elif any(k.startswith("allocates") for k in eff):
                rep.violation("C14.R1", key, f.module.rel, n.lineno,
                              f"{f.ref} iterates `{norm(inner)}` unsorted and {sorted(k for k in eff if k.startswith('allocates'))[0]} per entry: "
                              f"identifiers (and every file derived from them) depend on the order the filesystem returns entries in "
                              f"(ext4 and tmpfs differ)")
            elif dict_consumed_by_alloc:
                rep.violation("C14.R1", key, f.module.rel, n.lineno,
                              f"{f.ref} iterates `{norm(inner)}` unsorted and records entries in a dict whose insertion order decides "
                              f"identifiers later: {dict_consumed_by_alloc[0]}")
            elif sensitive and adj:
                rep.holds("C14.R1", key, f.module.rel, n.lineno, f"order-sensitive by shape ({sorted(sensitive)}), adjudicated: {adj}")
            elif sensitive:
                rep.unknown("C14.R1", key, f.module.rel, n.lineno, f"unsorted listing with effects {sorted(sensitive)}; not adjudicated")
            else:
                rep.holds("C14.R1", key, f.module.rel, n.lineno, f"per-entry effects are commutative ({sorted(eff) or 'filesystem operations only'})")

    # ------------------------------------------------------------------ R2
    set_attrs: Dict[str, Set[str]] = {}
    for f in model.all_funcs():
        for n in walk_no_nested(f.node):
            if isinstance(n, (ast.Assign, ast.AnnAssign)):
                tg = n.targets if isinstance(n, ast.Assign) else [n.target]
                if n.value is None:
                    continue
                for t in tg:
                    if is_self_attr(t) and _is_set_expr(n.value) and f.cls:
                        set_attrs.setdefault(t.attr, set()).add(f.cls.name)
    # fields declared as sets on the class (`all_parameters: set = field(default_factory=set)`): a set wherever the object travels
    ann_sets: Dict[str, str] = {}
    ann_other: Set[str] = set()
    for mod_ in model.modules.values():
        for ci_ in mod_.classes.values():
            for st_ in ci_.node.body:
                if isinstance(st_, ast.AnnAssign) and isinstance(st_.target, ast.Name):
                    a_ = norm(st_.annotation)
                    if a_ == "set" or a_.lower().startswith(("set[", "typing.set[")):
                        ann_sets[st_.target.id] = a_
                    else:
                        ann_other.add(st_.target.id)
    for k_ in list(ann_sets):
        if k_ in ann_other:
            del ann_sets[k_]              # the same field name is something else on another class: not decidable by name

    def field_set(e) -> Optional[str]:
        """`<obj>.<field>` / `<obj>.<field>.copy()` for a field annotated as a set"""
        if isinstance(e, ast.Call) and isinstance(e.func, ast.Attribute) and e.func.attr == "copy" and not e.args:
            e = e.func.value
        if isinstance(e, ast.Attribute) and e.attr in ann_sets and not is_self_attr(e):
            return e.attr
        return None

    _fsk: Dict[str, Tuple[str, str]] = {}
    _adds: List[tuple] = []

    def field_set_kind(fld: str) -> Tuple[str, str]:
        if fld not in _fsk:
            _fsk[fld] = _field_set_kind(fld)
        return _fsk[fld]

    def _field_set_kind(fld: str) -> Tuple[str, str]:
        ann = ann_sets[fld]
        if "[int]" in ann:
            return "int", ann
        if "[str]" in ann:
            return "str", ann
        if not _adds:
            for g_ in model.all_funcs():
                for c_ in walk_no_nested(g_.node):
                    if isinstance(c_, ast.Call) and isinstance(c_.func, ast.Attribute) and c_.func.attr == "add" and isinstance(c_.func.value, ast.Attribute) \
                            and c_.func.value.attr in ann_sets and c_.args:
                        _adds.append((c_.func.value.attr, g_, c_))
            _adds.append((None, None, None))
        for fld_, g_, c_ in _adds:
            if fld_ == fld:
                if True:
                    a0 = c_.args[0]
                    # the class of what is added: a constructor call, or a local bound to one
                    cands = [a0] + ([d.value for d in walk_no_nested(g_.node) if isinstance(d, ast.Assign) and isinstance(d.targets[0], ast.Name)
                                     and isinstance(a0, ast.Name) and d.targets[0].id == a0.id])
                    for x in cands:
                        if isinstance(x, ast.Call) and (call_name(x) or "")[:1].isupper():
                            return _hash_kind_of_class(model, g_, call_name(x)), f"{norm(c_)[:50]} ({call_name(x)})"
        return "unknown", ann
    # attributes that are dicts of sets: filled with `add_to_dict_with_default_set(<obj>.A, key, element)`
    dict_of_sets: Dict[str, Tuple[Func, ast.Call]] = {}
    for g_ in model.all_funcs():
        for c_ in walk_no_nested(g_.node):
            if isinstance(c_, ast.Call) and (call_name(c_) or "").endswith("add_to_dict_with_default_set") and len(c_.args) >= 3 and isinstance(c_.args[0], ast.Attribute):
                dict_of_sets.setdefault(c_.args[0].attr, (g_, c_))

    def dictset(e) -> Optional[str]:
        """`<obj>.A[k]` / `<obj>.A.get(k, ...)` for a dict-of-sets attribute A"""
        if isinstance(e, ast.Subscript) and isinstance(e.value, ast.Attribute) and e.value.attr in dict_of_sets:
            return e.value.attr
        if isinstance(e, ast.Call) and isinstance(e.func, ast.Attribute) and e.func.attr == "get" and isinstance(e.func.value, ast.Attribute) \
                and e.func.value.attr in dict_of_sets:
            return e.func.value.attr
        return None

    def dictset_kind(attr: str) -> Tuple[str, str]:
        g_, c_ = dict_of_sets[attr]
        el = c_.args[2]
        cands = [el] + ([d.value for d in walk_no_nested(g_.node) if isinstance(d, ast.Assign) and isinstance(d.targets[0], ast.Name)
                         and isinstance(el, ast.Name) and d.targets[0].id == el.id])
        for x in cands:
            if isinstance(x, ast.Call) and (call_name(x) or "")[:1].isupper():
                return _hash_kind_of_class(model, g_, call_name(x)), f"{norm(c_)[:60]} ({call_name(x)})"
        t = norm(el)
        if any(h in t for h in INT_NAME_HINTS) and not any(t.endswith(h) for h in STR_NAME_HINTS):
            return "int", t
        return "unknown", t
    n_sites = 0
    for f in model.all_funcs():
        if f.module.rel.startswith("lang/") and f.module.rel != "lang/lang_analysis.py":
            continue
        local_sets = {n.targets[0].id for n in walk_no_nested(f.node) if isinstance(n, ast.Assign) and isinstance(n.targets[0], ast.Name)
                      and _is_set_expr(n.value)}
        local_ann_sets = {n.target.id: norm(n.annotation) for n in walk_no_nested(f.node) if isinstance(n, ast.AnnAssign) and isinstance(n.target, ast.Name)
                          and (norm(n.annotation) == "set" or norm(n.annotation).lower().startswith("set["))}
        local_field_sets = {n.targets[0].id: field_set(n.value) for n in walk_no_nested(f.node) if isinstance(n, ast.Assign) and isinstance(n.targets[0], ast.Name)
                            and field_set(n.value)}
        for n in walk_no_nested(f.node):
            if not isinstance(n, ast.For):
                continue
            it = n.iter
            what = None
            if isinstance(it, ast.Name) and it.id in local_sets:
                what = ("local", it.id)
            elif isinstance(it, ast.Attribute) and is_self_attr(it) and it.attr in set_attrs and f.cls and f.cls.name in set_attrs[it.attr]:
                what = ("attr", it.attr)
            elif _is_set_expr(it):
                what = ("expr", norm(it))
            elif field_set(it):
                what = ("field", field_set(it))
            elif dictset(it):
                what = ("dictset", dictset(it))
            elif isinstance(it, ast.Name) and it.id in local_ann_sets:
                what = ("annlocal", it.id)
            elif isinstance(it, ast.Name) and it.id in local_field_sets:
                what = ("field", local_field_sets[it.id])
            if what is None:
                continue
            n_sites += 1
            key = f"{f.ref}::for over set `{norm(it)}`"
            if what[0] == "field":
                kind, ev = field_set_kind(what[1])
            elif what[0] == "dictset":
                kind, ev = dictset_kind(what[1])
            elif what[0] == "annlocal":
                ann_ = local_ann_sets[what[1]]
                inner_ = ann_[ann_.index("[") + 1:-1] if "[" in ann_ else ""
                if inner_ == "int":
                    kind, ev = "int", ann_
                elif inner_ == "str":
                    kind, ev = "str", ann_
                elif inner_[:1].isupper():
                    kind, ev = _hash_kind_of_class(model, f, inner_), f"{what[1]}: {ann_}"
                else:
                    kind, ev = "unknown", ann_
            else:
                kind, ev = ("unknown", "") if what[0] == "expr" else _elem_kind(f, what[1], what[0] == "attr", model)
            if kind == "unknown" and isinstance(n.target, ast.Name):
                # how the loop uses its element tells its kind: receiver of string-only methods, argument of re.escape / os.path.*
                tv = n.target.id
                STR_METHODS = ("replace", "strip", "lstrip", "rstrip", "startswith", "endswith", "split", "lower", "upper", "encode", "format", "join", "splitlines")
                for x in ast.walk(n):
                    if isinstance(x, ast.Call) and isinstance(x.func, ast.Attribute) and isinstance(x.func.value, ast.Name) and x.func.value.id == tv \
                            and x.func.attr in STR_METHODS:
                        kind, ev = "str", f"{tv}.{x.func.attr}(...) in the loop body"
                    if isinstance(x, ast.Call) and (call_name(x) or "") in ("re.escape", "os.path.join", "os.path.basename", "os.path.dirname") \
                            and any(isinstance(a, ast.Name) and a.id == tv for a in x.args):
                        kind, ev = "str", f"{call_name(x)}({tv}) in the loop body"
                    # field names are program identifiers: the key of a FIELD_ELEMENT access point is a string
                    if isinstance(x, ast.Call) and (call_name(x) or "").endswith("AccessPoint") and any(
                            k.arg == "key" and isinstance(k.value, ast.Name) and k.value.id == tv for k in x.keywords) and any(
                            k.arg == "kind" and norm(k.value).endswith("FIELD_ELEMENT") for k in x.keywords):
                        kind, ev = "str", f"AccessPoint(kind=FIELD_ELEMENT, key={tv}) in the loop body"
            if kind == "unknown" and what[0] == "expr":
                # keys of the mappings the set is computed from: another loop of this function over the same mapping tells their kind
                maps = {norm(x.func.value) for x in ast.walk(it) if isinstance(x, ast.Call) and isinstance(x.func, ast.Attribute) and x.func.attr in ("keys", "items")}
                for L2 in walk_no_nested(f.node):
                    if not (isinstance(L2, ast.For) and L2 is not n):
                        continue
                    src2 = L2.iter.func.value if isinstance(L2.iter, ast.Call) and isinstance(L2.iter.func, ast.Attribute) and L2.iter.func.attr in ("keys", "items") else L2.iter
                    if norm(src2) not in maps:
                        continue
                    kv = L2.target.elts[0] if isinstance(L2.target, ast.Tuple) and L2.target.elts else L2.target
                    if not isinstance(kv, ast.Name):
                        continue
                    for x in ast.walk(L2):
                        if isinstance(x, ast.Call) and (call_name(x) or "").endswith("AccessPoint") and any(
                                k.arg == "key" and isinstance(k.value, ast.Name) and k.value.id == kv.id for k in x.keywords) and any(
                                k.arg == "kind" and norm(k.value).endswith("FIELD_ELEMENT") for k in x.keywords):
                            kind, ev = "str", f"keys of `{norm(src2)}` are field names (AccessPoint(kind=FIELD_ELEMENT, key={kv.id}), line {x.lineno})"
            eff = body_effects(model, f, n.body, allocs, elem=n.target.id if isinstance(n.target, ast.Name) else None)
            sensitive = sorted(k for k in eff if k.startswith("allocates") or k.startswith("appends") or k.startswith("first match") or k.startswith("rewrites")
                               or k.startswith("inserts keys"))
            if kind == "int":
                rep.holds("C14.R2", key, f.module.rel, n.lineno, f"elements are ints ({ev}): set order does not depend on the hash seed")
            elif not sensitive:
                rep.holds("C14.R2", key, f.module.rel, n.lineno, f"body effects are commutative; element kind {kind}")
            elif kind in ("str", "object"):
                rep.violation("C14.R2", key, f.module.rel, n.lineno,
                              f"{f.ref} iterates the set `{norm(it)}` of {kind} elements ({ev}) and {sensitive[0]} in that order: the result "
                              f"depends on PYTHONHASHSEED whenever the set has two or more elements; wrap the iteration in sorted()")
            else:
                rep.unknown("C14.R2", key, f.module.rel, n.lineno, f"element kind not inferred ({ev}); effects {sensitive}")
    rep.analysed["set iterations examined"] = n_sites

    # set -> sequence conversions (list(S), tuple(S), str(S), sep.join(S)) freeze the hash order into a value
    OBJ_HINTS = ("node", "name", "path", "symbol", "key", "type", "str", "label", "text")
    n_conv = 0
    for f in model.all_funcs():
        local_sets = {n.targets[0].id for n in walk_no_nested(f.node) if isinstance(n, ast.Assign) and isinstance(n.targets[0], ast.Name)
                      and _is_set_expr(n.value)}
        for n in walk_no_nested(f.node):
            if not isinstance(n, ast.Call):
                continue
            cn = call_name(n) or ""
            arg = None
            if cn in ("list", "tuple", "str") and n.args:
                arg = n.args[0]
            elif isinstance(n.func, ast.Attribute) and n.func.attr == "join" and n.args:
                arg = n.args[0]
            if arg is None:
                continue
            is_set = _is_set_expr(arg) or (isinstance(arg, ast.Name) and arg.id in local_sets and
                                           # the name still holds the set here: its last assignment before the call is the set expression
                                           _is_set_expr(max([a for a in walk_no_nested(f.node) if isinstance(a, ast.Assign) and isinstance(a.targets[0], ast.Name)
                                                             and a.targets[0].id == arg.id and a.lineno < n.lineno] or [None], key=lambda a: a.lineno if a else -1).value
                                                        if any(isinstance(a, ast.Assign) and isinstance(a.targets[0], ast.Name) and a.targets[0].id == arg.id and a.lineno < n.lineno
                                                               for a in walk_no_nested(f.node)) else None))
            if not is_set:
                continue
            n_conv += 1
            key = f"{f.ref}::{cn or 'join'}({norm(arg)[:50]})"
            if isinstance(arg, ast.Name):
                kind, ev = _elem_kind(f, arg.id, False, model)
            else:
                inner = norm(arg)
                kind = "int" if any(h in inner for h in INT_NAME_HINTS) and not any(h in inner.lower() for h in ("name", "node")) else (
                    "object" if any(h in inner.lower() for h in OBJ_HINTS) else "unknown")
                ev = inner[:40]
            if kind == "unknown" and isinstance(arg, ast.Name):
                # element sources such as `element.type` / `x.name`
                txt = " ".join(norm(c.args[0]) for c in walk_no_nested(f.node) if isinstance(c, ast.Call) and isinstance(c.func, ast.Attribute)
                               and c.func.attr == "add" and isinstance(c.func.value, ast.Name) and c.func.value.id == arg.id and c.args)
                if any(h in txt.lower() for h in OBJ_HINTS) and not any(txt.endswith(h) for h in INT_NAME_HINTS):
                    kind, ev = "str", txt[:40]
            if kind == "int":
                rep.holds("C14.R2", key, f.module.rel, n.lineno, f"set of ints ({ev}) turned into a sequence: order independent of the hash seed")
            elif kind in ("str", "object"):
                rep.violation("C14.R2", key, f.module.rel, n.lineno,
                              f"{f.ref} turns a set of {kind} elements ({ev}) into a sequence with `{norm(n)[:60]}`: the order of the result "
                              f"follows PYTHONHASHSEED; use sorted(...)")
            else:
                rep.unknown("C14.R2", key, f.module.rel, n.lineno, f"element kind of `{norm(arg)[:40]}` not inferred")
    rep.analysed["set -> sequence conversions examined"] = n_conv

    # ------------------------------------------------------------------ R4
    prep = model.module("preparation.py")
    wb = prep.classes.get("WorkspaceBuilder")
    md = wb.methods.get("manage_directory") if wb else None
    if md is None:
        raise AnalysisError("WorkspaceBuilder.manage_directory vanished")
    from ..cfg import cfg_of
    mcfg = cfg_of(md.node)
    wipe = [h for h in mcfg.g.nodes if mcfg.kind[h] == "iter" and isinstance(mcfg.stmt[h].iter, ast.Call) and call_name(mcfg.stmt[h].iter) == "os.listdir"]
    key = "preparation.py::WorkspaceBuilder.manage_directory::the forced wipe visits every entry"
    if not wipe:
        rep.violation("C14.R4", key, "preparation.py", md.node.lineno, "--force no longer empties the workspace: results depend on what earlier runs left there")
    else:
        h = wipe[0]
        body = mcfg.loop_body_nodes[h]
        type_tests = {n for n in body if mcfg.kind[n] == "test" and any(isinstance(x, ast.Call) and call_name(x) in ("os.path.isfile", "os.path.isdir", "os.path.islink")
                                                                     for x in ast.walk(mcfg.stmt[n].test))}
        deletes = {n for n in body for c in mcfg.calls_at(n) if call_name(c) in ("os.unlink", "os.remove", "shutil.rmtree")}
        p = mcfg.back_paths_all_pass(h, type_tests | deletes)
        if p is None and deletes:
            rep.holds("C14.R4", key, "preparation.py", mcfg.stmt[h].lineno, "every path through the wipe loop reaches the file/directory test that leads to the delete")
        else:
            skip = [mcfg.stmt[n] for n in (p or []) if mcfg.kind.get(n) == "test"]
            rep.violation("C14.R4", key, "preparation.py", skip[0].lineno if skip else mcfg.stmt[h].lineno,
                          "the forced wipe of the workspace skips some entries" + (f" (`{norm(skip[0].test)}`)" if skip else "")
                          + ": files left by an earlier run (e.g. mock sources of another language) become extra units and shift every id, so the "
                            "output depends on what was analysed before")

    # whether the wipe happens is decided by the force flag alone: an option that only controls how much is printed (or any other
    # option) must not stand between --force and the wipe
    if wipe:
        key = "preparation.py::WorkspaceBuilder.manage_directory::the forced wipe depends on the force flag only"
        conds = mcfg.conditions_at(wipe[0])
        opts = sorted({x.attr for a, _t in conds for x in ast.walk(a) if isinstance(x, ast.Attribute) and isinstance(x.value, ast.Attribute)
                       and x.value.attr == "options"})
        other = [o for o in opts if o != "force"]
        if "force" not in opts:
            rep.unknown("C14.R4", key, "preparation.py", mcfg.stmt[wipe[0]].lineno, f"the wipe is not guarded by options.force in a recognised way ({opts})")
        elif other:
            rep.violation("C14.R4", key, "preparation.py", mcfg.stmt[wipe[0]].lineno,
                          f"with --force the workspace is emptied only when also options.{other[0]} has a particular value "
                          f"(`{'; '.join(norm(a) for a, _t in conds)[:120]}`): a run with the other value re-uses a workspace that still holds the "
                          f"sources of whatever was analysed there before, which become extra units and shift every id")
        else:
            rep.holds("C14.R4", key, "preparation.py", mcfg.stmt[wipe[0]].lineno, "guarded by options.force only")
    # ------------------------------------------------------------------ R3
    for f in model.all_funcs():
        if f.module.rel.startswith("lang/") and f.module.rel != "lang/lang_analysis.py":
            continue
        for n in walk_no_nested(f.node):
            if not isinstance(n, ast.Call):
                continue
            cn = call_name(n) or ""
            if cn in CLOCKS or cn.startswith("random.") or cn.startswith("uuid."):
                key = f"{f.ref}::{cn}()"
                rep.violation("C14.R3", key, f.module.rel, n.lineno,
                              f"{f.ref} calls {cn}(): a run-dependent value inside the analysis (no such call exists on the pinned tree)")
            elif cn == "id" and n.args:
                key = f"{f.ref}::id({norm(n.args[0])})"
                # where does it go?  keyword argument of a constructor / dict key / local used as key
                parent_kw = None
                for p in walk_no_nested(f.node):
                    if isinstance(p, ast.Call):
                        for k in p.keywords:
                            if k.value is n:
                                parent_kw = (call_name(p), k.arg)
                if parent_kw == ("Rule", "rule_id"):
                    # Rule.rule_id: is it ever written to an output?  to_dict() carries it; to_dict is only hashed for a tag key
                    users = [g.ref for g in model.all_funcs() for x in walk_no_nested(g.node)
                             if g.module.rel.startswith("taint/") and isinstance(x, ast.Attribute) and x.attr == "rule_id"
                             and isinstance(x.ctx, ast.Load) and g.name not in ("to_dict", "__repr__")]
                    if not users:
                        rep.holds("C14.R3", key, f.module.rel, n.lineno, "stored in Rule.rule_id, which nothing reads except to_dict() (used as a dictionary key only)")
                    else:
                        rep.violation("C14.R3", key, f.module.rel, n.lineno, f"object identity stored in Rule.rule_id, which {users[0]} reads")
                else:
                    # local identity used as a visited/dedup key is fine when it never leaves the function
                    tgt = None
                    for p in walk_no_nested(f.node):
                        if isinstance(p, ast.Assign) and p.value is n and isinstance(p.targets[0], ast.Name):
                            tgt = p.targets[0].id
                    escapes = False
                    if tgt:
                        for p in walk_no_nested(f.node):
                            if isinstance(p, ast.Return) and p.value is not None and any(isinstance(x, ast.Name) and x.id == tgt for x in ast.walk(p.value)):
                                escapes = True
                            if isinstance(p, ast.Call) and (call_name(p) or "").split(".")[-1] in allocs and any(
                                    isinstance(x, ast.Name) and x.id == tgt for a in p.args for x in ast.walk(a)):
                                escapes = True
                    if tgt and not escapes:
                        rep.holds("C14.R3", key, f.module.rel, n.lineno, f"identity kept in local `{tgt}` as a lookup key; never returned or allocated from")
                    else:
                        rep.unknown("C14.R3", key, f.module.rel, n.lineno, "use of id() not classified")
    # hash() of a string that is stored
    for f in model.all_funcs():
        for n in walk_no_nested(f.node):
            if isinstance(n, ast.Call) and call_name(n) == "hash" and n.args and not f.name == "__hash__":
                a = n.args[0]
                key = f"{f.ref}::hash({norm(a)})"
                strish = isinstance(a, ast.Call) and call_name(a) == "str" or isinstance(a, ast.JoinedStr)
                # stored in a dict literal value (a row written to disk)?
                stored = any(isinstance(p, ast.Dict) and any(v is n for v in p.values) for p in walk_no_nested(f.node))
                if strish and stored:
                    rep.violation("C14.R3", key, f.module.rel, n.lineno, "hash of a string is written into a stored row: it changes with PYTHONHASHSEED")
                elif strish:
                    rep.holds("C14.R3", key, f.module.rel, n.lineno, "string hash used as an in-memory dictionary key only")
                else:
                    rep.holds("C14.R3", key, f.module.rel, n.lineno, "hash of an id tuple / CallSite (integers): independent of the hash seed")


# ---------------------------------------------------------------- self-test mutants
LOCATION_TESTS_OK = {
    ("preparation.py", "WorkspaceBuilder.run"): "an *input* path below a directory called lian_workspace is skipped: depends on the input's location, "
                                                "which C14 does not quantify over (the outputs of a given workspace location are unaffected)",
    ("main.py", "Lian.set_workspace_dir"): "only decides whether the default directory name is appended to -w; changes where the workspace is, "
                                           "not what is computed in it",
}


def check_path_prefix_tests(model: RepoModel, rep, RID: str) -> int:
    """`path.startswith(prefix)` on path strings means "lies under prefix" only when the prefix ends with a separator:
    `/in/lian_workspace_utils`.startswith(`/in/lian_workspace`) is true although the first is a sibling of the second.  Every such
    test between two paths must use `prefix + os.sep` (or compare whole paths / use commonpath)."""
    n = 0
    PATHY = ("path", "workspace", "root", "dir", "real")
    for rel, mod in sorted(model.modules.items()):
        if rel.startswith("lang/") and rel != "lang/lang_analysis.py":
            continue
        for f in mod.all_funcs():
            for c in walk_no_nested(f.node):
                if not (isinstance(c, ast.Call) and isinstance(c.func, ast.Attribute) and c.func.attr == "startswith" and len(c.args) == 1):
                    continue
                recv, pre = c.func.value, c.args[0]
                recv_path = (isinstance(recv, ast.Call) and (call_name(recv) or "").startswith("os.path.")) or any(h in norm(recv).lower() for h in PATHY)
                pre_x = _expand_local(f, pre)
                pre_path = not isinstance(pre_x, (ast.Constant, ast.JoinedStr, ast.Tuple)) and (any(h in norm(pre_x).lower() for h in PATHY)
                                                                                                 or any(h in norm(pre).lower() for h in PATHY))
                if not (recv_path and pre_path):
                    continue
                n += 1
                key = f"{rel}::{f.qualname}::`{norm(c)[:80]}`::a path prefix ends with a separator"
                ends_sep = any(isinstance(x, ast.BinOp) and isinstance(x.op, ast.Add) and ((dotted(x.right) or "") in ("os.sep", "os.path.sep")
                                                                                          or (isinstance(x.right, ast.Constant) and x.right.value in ("/", "\\")))
                               for x in [pre_x, pre] if isinstance(x, ast.BinOp)) \
                    or any(isinstance(x, ast.Call) and call_name(x) == "os.path.join" and x.args and isinstance(x.args[-1], ast.Constant) and x.args[-1].value == "" for x in [pre_x, pre])
                if ends_sep:
                    rep.holds(RID, key, rel, c.lineno, "prefix + separator")
                elif (dotted(pre_x) or "").startswith("config.") and "workspace" not in norm(pre_x).lower():
                    rep.info(RID, key, rel, c.lineno, "the prefix is a directory of the installed package (a configuration constant), not a location the user "
                                                      "chooses: no workspace or input placement changes the outcome")
                else:
                    rep.violation(RID, key, rel, c.lineno,
                                  f"{f.qualname} tests `{norm(c)[:90]}`: a string prefix test between two paths without a trailing separator also holds "
                                  f"for SIBLINGS whose name merely starts the same way (`.../lian_workspace_utils` vs `.../lian_workspace`): which "
                                  f"directories are skipped or classified then depends on where the workspace is and what it is called")
    return n



# fields of a value-hashed class that are the same for all members of one set that gets sorted (confirmed by reading the producers)
CONSTANT_WITHIN_SET = {
    "Argument": {"position", "name"},     # an argument set holds the states of ONE argument: same position and name, different space index
    "Parameter": {"method_id", "name"},   # the parameters of ONE callee; symbol_id is the declaration's id, the name is a function of it
}


def _r6_sort_keys_discriminate(model: RepoModel, rep):
    """sorted(S, key=lambda a: (...)) is how set iteration order is made independent of the hash seed (R2 accepts it).  It only works when
    the key separates any two members: sorted() is stable, so members with equal keys stay in set order."""
    cs = model.module("common_structs.py")
    hashed = {}
    for cname, ci in cs.classes.items():
        h = ci.methods.get("__hash__")
        if h is None:
            continue
        fields = {x.attr for x in ast.walk(h.node) if isinstance(x, ast.Attribute) and isinstance(x.value, ast.Name) and x.value.id == "self"}
        allf = {x.attr for mth in ci.methods.values() for x in ast.walk(mth.node) if isinstance(x, ast.Attribute) and isinstance(x.value, ast.Name) and x.value.id == "self"}
        allf |= {t.target.id for t in ci.node.body if isinstance(t, ast.AnnAssign) and isinstance(t.target, ast.Name)}
        if fields:
            hashed[cname] = (fields, allf)
    n = 0
    for rel, m in sorted(model.modules.items()):
        if not (rel.startswith(("core/", "taint/", "basics/")) or rel == "common_structs.py"):
            continue
        for f in m.all_funcs():
            for c in walk_no_nested(f.node):
                if not (isinstance(c, ast.Call) and call_name(c) == "sorted" and c.args):
                    continue
                kk = next((k.value for k in c.keywords if k.arg == "key"), None)
                if not (isinstance(kk, ast.Lambda) and kk.args.args):
                    continue
                a = kk.args.args[0].arg
                attrs = {x.attr for x in ast.walk(kk.body) if isinstance(x, ast.Attribute) and isinstance(x.value, ast.Name) and x.value.id == a}
                if not attrs or any(isinstance(x, ast.Name) and x.id == a and not any(isinstance(p_, ast.Attribute) and p_.value is x for p_ in ast.walk(kk.body))
                                    for x in ast.walk(kk.body)):
                    continue   # the member itself is part of the key
                cands = {cn: hf for cn, (hf, allf) in hashed.items() if attrs <= allf}
                if not cands:
                    continue
                n += 1
                key = f"{f.ref}::`sorted({norm(c.args[0])}, key={norm(kk)})`"
                ok = [cn for cn, hf in cands.items() if (hf - CONSTANT_WITHIN_SET.get(cn, set())) <= attrs]
                if ok:
                    rep.holds("C14.R6", key, rel, c.lineno, f"the key reads the fields {sorted(attrs)}; members are {'/'.join(ok)} objects hashed on "
                                                            f"{sorted(cands[ok[0]])} (constant within one set: {sorted(CONSTANT_WITHIN_SET.get(ok[0], set()))})")
                else:
                    cn = sorted(cands)[0]
                    missing = sorted((cands[cn] - CONSTANT_WITHIN_SET.get(cn, set())) - attrs)
                    rep.violation("C14.R6", key, rel, c.lineno,
                                  f"{f.ref} orders a set of {'/'.join(sorted(cands))} objects by {sorted(attrs)} only; the class hashes on "
                                  f"{sorted(cands[cn])} and the key does not read {missing}: members that differ only there tie, sorted() is "
                                  f"stable, so they keep the set's iteration order, which depends on PYTHONHASHSEED")
    rep.analysed["sort keys over value-hashed objects"] = n

def _r5_location_independence(model: RepoModel, rep):
    check_path_prefix_tests(model, rep, "C14.R5")
    from ..generic3 import check_path_string_ops
    check_path_string_ops(model, rep, "C14.R5", sorted(r for r in model.modules if not (r.startswith("lang/") and r.endswith("_parser.py"))))
    n = 0
    for rel, mod in sorted(model.modules.items()):
        if rel.startswith("lang/") and rel != "lang/lang_analysis.py":
            continue
        for f in mod.all_funcs():
            for c in walk_no_nested(f.node):
                if not (isinstance(c, ast.Compare) and len(c.ops) == 1 and isinstance(c.ops[0], (ast.In, ast.NotIn))):
                    continue
                left, right = c.left, c.comparators[0]
                rt = norm(right).lower()
                if isinstance(right, (ast.Tuple, ast.List, ast.Set, ast.Dict)) or not ("path" in rt or "workspace" in rt):
                    continue
                lt = norm(left)
                names_ws = any(isinstance(x, ast.Attribute) and x.attr in ("EXTERNS_DIR", "DEFAULT_WORKSPACE", "SOURCE_CODE_DIR") for x in ast.walk(left)) \
                    or any(isinstance(x, ast.Constant) and isinstance(x.value, str) and ("externs" in x.value or "lian_workspace" in x.value) for x in ast.walk(left)) \
                    or (isinstance(left, ast.Name) and "workspace" in left.id)
                if not names_ws:
                    # any constant substring searched in the ABSOLUTE path of a unit (the workspace copy): the directories above the
                    # workspace are part of that string
                    if isinstance(left, ast.Constant) and isinstance(left.value, str) and left.value and isinstance(right, (ast.Name, ast.Attribute)) \
                            and norm(right).split(".")[-1] in ("unit_path", "file_path", "real_path", "abs_path"):
                        n += 1
                        key = f"{rel}::{f.qualname}::`{norm(c)[:90]}`"
                        rep.violation("C14.R5", key, rel, c.lineno,
                                      f"{f.qualname} classifies a unit by `{norm(c)[:90]}`, a substring test on the absolute path of the workspace copy: "
                                      f"a workspace below a directory whose name contains {left.value!r} changes the classification of every unit")
                    elif isinstance(left, ast.Constant) and isinstance(left.value, str) and isinstance(right, ast.Call) \
                            and (call_name(right) or "").split(".")[-1] in ("relpath", "basename"):
                        n += 1
                        rep.holds("C14.R5", f"{rel}::{f.qualname}::`{norm(c)[:90]}`", rel, c.lineno, "substring searched in the project-relative part of the path only")
                    continue
                n += 1
                key = f"{rel}::{f.qualname}::`{norm(c)[:90]}`"
                adj = LOCATION_TESTS_OK.get((rel, f.qualname))
                if adj:
                    rep.info("C14.R5", key, rel, c.lineno, "adjudicated: " + adj)
                else:
                    rep.violation("C14.R5", key, rel, c.lineno,
                                  f"{f.qualname} classifies a file by `{norm(c)[:90]}`, a substring test on an absolute path: with the workspace (or "
                                  f"any directory above it) named accordingly, e.g. -w /x/lian_workspace/externs/run, project files are taken for "
                                  f"extern mock code and lowered differently -- the output depends on the workspace location")
    # the positive form: membership decided against <workspace>/<dir>
    la = model.module("lang/lang_analysis.py")
    pf = next((cl.methods["parse"] for cl in la.classes.values() if "parse" in cl.methods and any(
        isinstance(x, ast.Attribute) and x.attr == "MOCK_SOURCE_CODE_READY" for x in ast.walk(cl.methods["parse"].node))), None)
    key = "lang/lang_analysis.py::GIRParser.parse::mock code is recognised relative to the workspace"
    if pf is None:
        rep.unknown("C14.R5", key, "lang/lang_analysis.py", 0, "the place where MOCK_SOURCE_CODE_READY is raised was not found")
        return
    guards = [t for t in walk_no_nested(pf.node) if isinstance(t, ast.If) and any(isinstance(x, ast.Attribute) and x.attr == "MOCK_SOURCE_CODE_READY" for b in t.body for x in ast.walk(b))]
    g = guards[-1] if guards else None
    anchored = g is not None and isinstance(g.test, ast.Call) and isinstance(g.test.func, ast.Attribute) and g.test.func.attr == "startswith" \
        and any(isinstance(x, ast.Attribute) and x.attr == "workspace" for a in g.test.args for x in ast.walk(_expand_local(pf, a)))
    if anchored:
        rep.holds("C14.R5", key, "lang/lang_analysis.py", g.lineno, f"`{norm(g.test)[:90]}` with the prefix built from options.workspace")
    elif g is not None and n == 0:
        rep.unknown("C14.R5", key, "lang/lang_analysis.py", g.lineno, f"guard `{norm(g.test)[:90]}` not recognised")


def _expand_local(f: Func, e):
    if isinstance(e, ast.BinOp):
        return ast.BinOp(left=_expand_local(f, e.left), op=e.op, right=_expand_local(f, e.right))
    if isinstance(e, ast.Name):
        ds = [a.value for a in walk_no_nested(f.node) if isinstance(a, ast.Assign) and isinstance(a.targets[0], ast.Name) and a.targets[0].id == e.id]
        if len(ds) == 1:
            return ds[0]
    return e


def _t(old, new):
    return lambda src: __import__("sa.mutate", fromlist=["x"]).text_replace(src, old, new)


MUTANTS = [
    ("template-test-on-absolute-path", "basics/basic_analysis.py",
     lambda src: _t('if "{{" in os.path.relpath(unit_path, src_root):', 'if "{{" in unit_path:')(src),
     "is_cookiecutter_file"),
    ("original-path-looked-up-as-typed", "preparation.py",
     lambda src: _t("self.dst_file_to_src_file.get(os.path.realpath(entry.path), \"\")", "self.dst_file_to_src_file.get(entry.path, \"\")")(src),
     "C14.R7"),
    ("argument-sort-key-without-space-index", "core/stmt_states.py",
     lambda src: _t("key = lambda arg: (arg.index_in_space, arg.state_id)", "key = lambda arg: (arg.position, arg.state_id)")(src),
     "C14.R6"),
    ("mock-code-recognised-by-substring", "lang/lang_analysis.py",
     lambda src: _t("            if os.path.realpath(file_path).startswith(externs_root + os.sep):", "            if f\"{os.sep}{config.EXTERNS_DIR}{os.sep}\" in file_path:")(src),
     "GIRParser.parse::`"),
    ("import-rewrites-in-set-order", "events/default_event_handlers/basic.py",
     lambda src: _t("            for old_name, new_name in replacements.items():\n", "            for old_name in dotted_names:\n                new_name = old_name.replace('.', '_')\n")(
         _t("                    replacements[name] = new_name\n", "                    dotted_names.add(name)\n")(
             _t("    replacements = {}  # Dictionary to map original names to new names\n", "    dotted_names = set()\n")(src))),
     "for over set `dotted_names`"),
    ("import-nodes-via-set", "basics/import_hierarchy.py", _t("                return list(import_nodes)", "                return list(set(import_nodes))"), "list(set(import_nodes))"),
    ("ts-array-types-unsorted", "lang/typescript_parser.py", _t("        data_type = sorted(data_type)", "        data_type = list(data_type)"), "typescript_parser.py"),
    ("wipe-skips-externs", "preparation.py", _t("            for filename in os.listdir(path):\n                file_path = os.path.join(path, filename)\n                try:\n                    if os.path.isfile(file_path) or os.path.islink(file_path):\n                        os.unlink(file_path)\n                    elif os.path.isdir(file_path):\n                        shutil.rmtree(file_path)\n                except Exception as e:\n                    util.error_and_quit(f\"Failed to delete {file_path}. Reason: {e}\")\n\n    def obtain",
                                                "            for filename in os.listdir(path):\n                if filename == config.EXTERNS_DIR:\n                    continue\n                file_path = os.path.join(path, filename)\n                try:\n                    if os.path.isfile(file_path) or os.path.islink(file_path):\n                        os.unlink(file_path)\n                    elif os.path.isdir(file_path):\n                        shutil.rmtree(file_path)\n                except Exception as e:\n                    util.error_and_quit(f\"Failed to delete {file_path}. Reason: {e}\")\n\n    def obtain"),
     "forced wipe"),
    ("scandir-unsorted", "preparation.py", _t("for entry in sorted(os.scandir(module_path), key=lambda e: e.name):", "for entry in os.scandir(module_path):"),
     "scan_modules_by_scanning_workspace_dir"),
    ("walk-files-unsorted", "preparation.py", _t("for file in sorted(files):", "for file in files:"), "copytree_with_extension"),
    ("require-values-unsorted", "core/stmt_states.py", _t("for each_value in sorted(require_values, key=str):", "for each_value in require_values:"),
     "require_stmt_state"),
    ("module-id-from-clock", "preparation.py", _t("        result = self.global_module_id\n", "        import time\n        result = self.global_module_id + int(time.time()) % 2\n"),
     "time.time"),
    ("rule-id-reaches-output", "taint/taint_analysis.py",
     _t('flow.vuln_type = vuln_type', 'flow.vuln_type = vuln_type\n                    flow.rule = self.rule_manager.all_sinks[0].rule_id'), "id(source)"),
    ("hash-of-name-stored", "common_structs.py", _t('"hash_id": hash(_id),', '"hash_id": hash(str(_id)),'), "hash(str(_id))"),
]
