"""C05 -- names are bound to the declaration the lexical scoping selects (clause level; DESIGN section 3, C05).

What is decided here is the *shape of the binding mechanism*, not its agreement with any language's scoping
rules: (R1) every declaration is owned by its nearest enclosing scope statement, (R2) the enclosing scope is
found by walking parent links only, (R3) re-homed declarations (fields, methods, parameters, for/with
initialisers) are moved consistently in both stores and only to a statement that opens a scope, (R4) the
visible-scope relation only ever flows from a scope to its ancestors and the two declaration tables are keyed
by the owner scope, (R5) the resolver restricts candidates to visible scopes and takes the innermost, and
unresolved names get a negative id, (R6) the def-use pass binds every symbol through that resolver with the
statement it occurs in.
"""
from __future__ import annotations

import ast
from typing import Dict, List, Optional, Set, Tuple

from ..astutil import kwarg
from ..model import AnalysisError, Func, RepoModel, call_name, dotted, enclosing_map, is_self_attr, norm, walk_no_nested
from .. import mutate as M

SH = "basics/scope_hierarchy.py"
RS = "core/resolver.py"
DU = "basics/stmt_def_use_analysis.py"
CLS = "UnitScopeHierarchyAnalysis"

# kinds that carry a `name` in the scope table but are not bindings a use can resolve to
NOT_A_BINDING = {
    "PACKAGE_STMT": "names the package of the unit; nothing in the unit refers to it as a variable",
    "EXPORT_STMT": "re-export of a name declared elsewhere in the unit; the declaration itself is what uses bind to",
    "UNIT_KIND": "the root scope row",
}
# declarations whose owner is deliberately not determine_scope(parent)
OWNER_EXCEPTIONS = {
    "CASE_AS_OPERATION": "the name bound by `case ... as name` / `catch (e)` lives in the body block of that clause (`row.body`)",
}


def _attr_tail(node) -> Optional[str]:
    return node.attr if isinstance(node, ast.Attribute) else None


def _is_attr_of(node, base: str, attr: str) -> bool:
    return isinstance(node, ast.Attribute) and node.attr == attr and isinstance(node.value, ast.Name) and node.value.id == base


def _kind_of(call: ast.Call) -> Optional[str]:
    k = kwarg(call, "scope_kind")
    return _attr_tail(k) if k is not None else None


def _stmts_before(body: List[ast.stmt], node: ast.AST) -> List[ast.stmt]:
    """Statements (recursively, in source order) of ``body`` that start before ``node``."""
    out = []
    for st in body:
        for s in ast.walk(st):
            if isinstance(s, ast.stmt) and (s.lineno, s.col_offset) < (node.lineno, node.col_offset):
                out.append(s)
    out.sort(key=lambda s: (s.lineno, s.col_offset))
    return out


def _last_def(body: List[ast.stmt], name: str, before: ast.AST) -> Optional[ast.AST]:
    d = None
    for s in _stmts_before(body, before):
        if isinstance(s, ast.Assign) and any(isinstance(t, ast.Name) and t.id == name for t in s.targets):
            d = s.value
    return d


def _defs_of(fnode, name: str) -> List[ast.AST]:
    return [s.value for s in walk_no_nested(fnode) if isinstance(s, ast.Assign)
            and any(isinstance(t, ast.Name) and t.id == name for t in s.targets)]


def _branches(chain: ast.If):
    """(test, body) for every arm of an if/elif chain; the final else has test None."""
    cur = chain
    while True:
        yield cur.test, cur.body
        if len(cur.orelse) == 1 and isinstance(cur.orelse[0], ast.If):
            cur = cur.orelse[0]
        else:
            if cur.orelse:
                yield None, cur.orelse
            return


def _kinds_list(test) -> Optional[List[str]]:
    """`row.scope_kind in [LIAN_SYMBOL_KIND.A, ...]` -> [A, ...]"""
    if isinstance(test, ast.Compare) and len(test.ops) == 1 and isinstance(test.ops[0], ast.In) \
            and _attr_tail(test.left) == "scope_kind" and isinstance(test.comparators[0], (ast.List, ast.Tuple, ast.Set)):
        return [_attr_tail(e) for e in test.comparators[0].elts]
    if isinstance(test, ast.Compare) and len(test.ops) == 1 and isinstance(test.ops[0], ast.Eq) and _attr_tail(test.left) == "scope_kind":
        return [_attr_tail(test.comparators[0])]
    return None


def run(model: RepoModel, rep, tier: str):
    rep.not_decided = ("that the binding lian computes coincides with the scoping rules of each source language (hoisting, global/nonlocal, "
                       "let/const/var, class-body visibility, import forms), invariance under consistent renaming, and that scope ids grow with "
                       "nesting at run time (the static side of that is C03.R1); only the shape of the binding mechanism is decided")
    sh = model.module(SH)
    cls = sh.classes.get(CLS)
    if cls is None:
        raise AnalysisError(f"{CLS} vanished from {SH}")
    need = {}
    for n in ("discover_scopes", "determine_scope", "correct_scopes", "summarize_symbol_decls"):
        f = cls.methods.get(n)
        if f is None:
            raise AnalysisError(f"{CLS}.{n} vanished")
        need[n] = f

    rep.rule("C05.R1", "ownership: every declaration/scope row created by discover_scopes is owned by "
                       "determine_scope(<its statement>.parent_stmt_id) (frozen exception: case/catch `as` names live in the clause body), "
                       "and every statement kind that opens a scope is given a visible-scope entry by summarize_symbol_decls", min_instances=15)
    rep.rule("C05.R2", "determine_scope finds the owner by walking parent links only: it recurses on <stmt>.parent_stmt_id and returns a "
                       "statement's own id only when that statement opens a scope", min_instances=2)
    rep.rule("C05.R3", "re-homing in correct_scopes is consistent: the scope row and the statement->scope cache are updated with the same "
                       "owner, the owner is the statement whose block the declaration was read from, and that owner kind opens a scope",
             min_instances=10)
    rep.rule("C05.R4", "summarize_symbol_decls: visibility only flows from a scope to its ancestors (child sees parent, closure over what "
                       "is already visible, itself), both declaration tables are keyed by the owner scope with the same name, and every "
                       "named declaration kind is entered", min_instances=9)
    rep.rule("C05.R6", "the def-use pass binds every named symbol through the resolver with the statement it occurs in and its own name; "
                       "`global` asks for the module scope; an unresolved name gets one fresh negative id per name", min_instances=5)

    open_kinds, named_kinds, owner_sets = _r1(model, rep, need["discover_scopes"], need["summarize_symbol_decls"])
    _r2(model, rep, need["determine_scope"])
    _r3(model, rep, need["correct_scopes"], need["discover_scopes"], owner_sets)
    _r4(model, rep, need["summarize_symbol_decls"], named_kinds)
    _r5(model, rep)
    _r6(model, rep)
    _r7(model, rep)
    _r9_hoisting(model, rep)
    from .c01 import check_receiver_param_removal
    check_receiver_param_removal(model, rep, "C05.R10", declare=True)
    from .. import generic2
    DECL_KEYS = ("global_stmt", "nonlocal_stmt", "import_stmt", "from_import_stmt", "import_as_stmt", "export_stmt", "variable_decl", "parameter_decl",
                 "method_decl", "class_decl", "namespace_decl", "with_stmt", "catch_clause")
    rep.rule("C05.R11", "every name of a declaration list reaches the GIR: what a frontend computes for each name in a loop (`global a, b`, "
                        "`import x, y`, a parameter list) is emitted inside that iteration, not once after the loop for the last name only", 30)
    generic2.check_per_iteration_values(model, rep, "C05.R11", sorted(r for r in model.modules if r.startswith("lang/") and r.endswith("_parser.py")),
                                        func_filter=generic2.emits(DECL_KEYS))
    from .. import generic3
    rep.rule("C05.R13", "a file is registered as a module under its own name: the stem and extension of a file name are taken with os.path.splitext, "
                        "never by cutting at the first dot (`util.bak.py` is not module `util`)", 3)
    generic3.check_path_string_ops(model, rep, "C05.R13", ["preparation.py", "lang/lang_analysis.py", IH])
    rep.rule("C05.R12", "no vacuous condition decides a binding: in the resolver and the scope / import builders no `E != a or E != b` "
                        "(always true) or `E == a and E == b` (always false) guards a branch", 3)
    generic2.check_vacuous_conditions(model, rep, "C05.R12", ["core/resolver.py", SH, IH, "basics/stmt_def_use_analysis.py"])
    from .. import generic4
    rep.rule("C05.R14", "a relative import is searched in the right package: n leading dots climb n-1 packages above the importing file's own package (dot counter, guarded level assignment and the range of the climbing loop evaluated for 1..5 dots)", 1)
    generic4.check_relative_import_levels(model, rep, "C05.R14")
    rep.rule("C05.R15", "every name of `global a, b` / `nonlocal a, b` is lowered: the row is emitted inside a loop over the statement's children", 2)
    generic4.check_listed_names_all_lowered(model, rep, "C05.R15", sorted(r for r in model.modules if r.startswith("lang/") and r.endswith("_parser.py")))
    from .. import generic5
    rep.rule("C05.R16", "`from . import x` stays in the importing file's package: the dot joining source and name is not added after a source "
                        "that consists of dots", 1)
    generic5.check_import_path_join(model, rep, "C05.R16")
    from ..generic import check_accumulators
    check_accumulators(model, rep, "C05.R8", [SH, IH], C05_ADJUDICATED,
                       "declarations, visible scopes or import candidates gathered so far are incomplete, so some names stay unresolved or bind elsewhere", 5)


# ---------------------------------------------------------------------------------------------- R1
def _is_determine_scope_of_parent(e, rowvars: Set[str]) -> bool:
    return (isinstance(e, ast.Call) and call_name(e) == "self.determine_scope" and len(e.args) == 1
            and isinstance(e.args[0], ast.Attribute) and e.args[0].attr == "parent_stmt_id"
            and isinstance(e.args[0].value, ast.Name) and e.args[0].value.id in rowvars)


def _main_loop(f: Func) -> Tuple[ast.For, ast.If, str]:
    for n in walk_no_nested(f.node):
        if isinstance(n, ast.For) and isinstance(n.iter, ast.Call) and (call_name(n.iter) or "").endswith("get_all_stmt_ids"):
            chain = [s for s in n.body if isinstance(s, ast.If)]
            rowvar = None
            for s in n.body:
                if isinstance(s, ast.Assign) and isinstance(s.value, ast.Call) and (call_name(s.value) or "").endswith("get_stmt_by_id") \
                        and isinstance(s.targets[0], ast.Name):
                    rowvar = s.targets[0].id
            if chain and rowvar:
                return n, chain[-1], rowvar
    raise AnalysisError(f"{f.ref}: loop over get_all_stmt_ids() with the operation dispatch not found")


def _r1(model, rep, disc: Func, summ: Func):
    RID = "C05.R1"
    loop, chain, rowvar = _main_loop(disc)
    idvar = loop.target.id if isinstance(loop.target, ast.Name) else "stmt_id"
    open_kinds: Dict[str, int] = {}
    named_kinds: Dict[str, int] = {}
    owner_sets: Dict[str, bool] = {}          # self.<set> filled in this branch -> branch opens a scope
    n_rows = 0
    for test, body in _branches(chain):
        opens = any(isinstance(c, ast.Call) and call_name(c) == "self.all_scope_ids.add" and c.args
                    and isinstance(c.args[0], ast.Name) and c.args[0].id == idvar
                    for s in body for c in ast.walk(s))
        for s in body:
            for c in ast.walk(s):
                if isinstance(c, ast.Call) and isinstance(c.func, ast.Attribute) and c.func.attr == "add" and is_self_attr(c.func.value) \
                        and c.func.value.attr.endswith("_stmt_ids") and c.args and isinstance(c.args[0], ast.Name) and c.args[0].id == idvar:
                    owner_sets[c.func.value.attr] = opens
        tnames = {n.id for n in ast.walk(test) if isinstance(n, ast.Name)} if test is not None else set()
        for s in body:
            for c in ast.walk(s):
                if not (isinstance(c, ast.Call) and call_name(c) == "Scope"):
                    continue
                kind = _kind_of(c) or "?"
                n_rows += 1
                if opens:
                    open_kinds[kind] = c.lineno
                if kwarg(c, "name") is not None:
                    named_kinds[kind] = c.lineno
                key = f"{SH}::{CLS}.discover_scopes::Scope(scope_kind={kind}) owner"
                e = kwarg(c, "scope_id")
                if e is None:
                    rep.violation(RID, key, SH, c.lineno, f"the {kind} row is created without a scope_id: the declaration has no owner scope")
                    continue
                d = e
                if isinstance(e, ast.Name):
                    d = _last_def(body, e.id, c)
                if d is not None and _is_determine_scope_of_parent(d, {rowvar}):
                    rep.holds(RID, key, SH, c.lineno, f"scope_id = determine_scope({rowvar}.parent_stmt_id)")
                    continue
                exc = [x for x in OWNER_EXCEPTIONS if x in tnames]
                if exc and d is not None and _is_attr_of(d, rowvar, "body"):
                    rep.holds(RID, key + f" [{exc[0]}]", SH, c.lineno, "frozen exception: " + OWNER_EXCEPTIONS[exc[0]])
                    continue
                if d is None:
                    rep.unknown(RID, key, SH, c.lineno, f"owner expression `{norm(e)}` has no definition in this branch")
                elif isinstance(d, ast.Attribute) and isinstance(d.value, ast.Name) and d.value.id == rowvar \
                        or isinstance(d, ast.Name) and d.id == idvar or isinstance(d, ast.Constant) \
                        or (isinstance(d, ast.Call) and call_name(d) == "self.determine_scope"):
                    rep.violation(RID, key, SH, c.lineno,
                                  f"the {kind} row is owned by `{norm(d)}` instead of determine_scope({rowvar}.parent_stmt_id): the declaration "
                                  f"is filed under a statement that is not its nearest enclosing scope, so uses in that scope do not see it "
                                  f"(or uses elsewhere do)")
                else:
                    rep.unknown(RID, key, SH, c.lineno, f"owner expression `{norm(d)}` not recognised")
    rep.analysed["discover_scopes"] = {"scope rows": n_rows, "opening kinds": sorted(open_kinds), "named kinds": sorted(named_kinds),
                                       "owner sets": owner_sets}

    # kinds given a visible-scope entry
    vis_kinds: Set[str] = set()
    avname = _summary_locals(summ)[2]
    for n in walk_no_nested(summ.node):
        if isinstance(n, ast.If):
            ks = _kinds_list(n.test)
            if ks and any(_mutates(s, avname) for b in n.body for s in ast.walk(b)):
                vis_kinds |= set(ks)
    for k, ln in sorted(open_kinds.items()):
        key = f"{SH}::{CLS}::scope kind {k} opens a scope and is visible-scope keyed"
        if k in vis_kinds:
            rep.holds(RID, key, SH, ln, "discover_scopes adds it to all_scope_ids; summarize_symbol_decls gives it a visible-scope entry")
        else:
            rep.violation(RID, key, SH, ln,
                          f"statements of kind {k} open a scope (all_scope_ids.add) but summarize_symbol_decls gives that scope no "
                          f"visible-scope entry: names used directly inside resolve against an empty visible set and are all unresolved")
    return open_kinds, named_kinds, owner_sets


def _mutates(node, name: str) -> bool:
    if isinstance(node, ast.Call) and isinstance(node.func, ast.Attribute) and node.func.attr in ("add", "update"):
        b = node.func.value
        while isinstance(b, ast.Subscript):
            b = b.value
        return isinstance(b, ast.Name) and b.id == name
    if isinstance(node, (ast.Assign, ast.AugAssign)):
        for t in (node.targets if isinstance(node, ast.Assign) else [node.target]):
            b = t
            sub = False
            while isinstance(b, ast.Subscript):
                b = b.value
                sub = True
            if sub and isinstance(b, ast.Name) and b.id == name:
                return True
    return False


def _summary_locals(summ: Func) -> Tuple[str, str, str]:
    """Local names holding (name->scopes, scope->name->decl, scope->visible scopes): the arguments of UnitSymbolDeclSummary(...)."""
    for c in walk_no_nested(summ.node):
        if isinstance(c, ast.Call) and call_name(c) == "UnitSymbolDeclSummary":
            got = {}
            order = ["unit_id", "symbol_name_to_scope_ids", "scope_id_to_symbol_info", "scope_id_to_available_scope_ids"]
            for i, a in enumerate(c.args):
                if i < len(order) and isinstance(a, ast.Name):
                    got[order[i]] = a.id
            for k in c.keywords:
                if k.arg in order and isinstance(k.value, ast.Name):
                    got[k.arg] = k.value.id
            if all(x in got for x in order[1:]):
                return got[order[1]], got[order[2]], got[order[3]]
    raise AnalysisError(f"{summ.ref}: construction of UnitSymbolDeclSummary from three local tables not found")


# ---------------------------------------------------------------------------------------------- R2
def _r2(model, rep, det: Func):
    RID = "C05.R2"
    params = det.params
    if len(params) < 2:
        raise AnalysisError(f"{det.ref}: expected (self, stmt_id)")
    p = params[1]
    stmtvars = {s.targets[0].id for s in walk_no_nested(det.node) if isinstance(s, ast.Assign) and isinstance(s.targets[0], ast.Name)
                and isinstance(s.value, ast.Call) and (call_name(s.value) or "").endswith("get_stmt_by_id")
                and s.value.args and isinstance(s.value.args[0], ast.Name) and s.value.args[0].id == p}
    rec = [c for c in walk_no_nested(det.node) if isinstance(c, ast.Call) and call_name(c) == "self.determine_scope"]
    if not rec:
        raise AnalysisError(f"{det.ref}: no recursive step found")
    for c in rec:
        key = f"{SH}::{CLS}.determine_scope::recursive step"
        a = c.args[0] if c.args else None
        if isinstance(a, ast.Attribute) and a.attr == "parent_stmt_id" and isinstance(a.value, ast.Name) and a.value.id in stmtvars:
            rep.holds(RID, key, SH, c.lineno, f"recurses on {norm(a)} (the parent of the statement asked about)")
        else:
            rep.violation(RID, key, SH, c.lineno,
                          f"the enclosing scope is searched at `{norm(a) if a is not None else ''}` instead of the statement's parent_stmt_id: "
                          f"the walk can leave the chain of enclosing statements and land in a sibling or inner scope")
    # own id only when the statement opens a scope
    key = f"{SH}::{CLS}.determine_scope::own id only for scope statements"
    tests = [n for n in walk_no_nested(det.node) if isinstance(n, ast.If) and isinstance(n.test, ast.Compare)
             and any(is_self_attr(x, "all_scope_ids") for x in ast.walk(n.test))]
    if not tests:
        rep.violation(RID, key, SH, det.node.lineno,
                      "determine_scope never consults all_scope_ids: either every statement is its own scope or no statement opens one")
        return
    t = tests[0]
    op = t.test.ops[0]
    body_rec = any(isinstance(c, ast.Call) and call_name(c) == "self.determine_scope" for s in t.body for c in ast.walk(s))
    else_rec = any(isinstance(c, ast.Call) and call_name(c) == "self.determine_scope" for s in t.orelse for c in ast.walk(s))
    left = t.test.left
    own = isinstance(left, ast.Attribute) and left.attr == "stmt_id" and isinstance(left.value, ast.Name) and left.value.id in stmtvars \
        or isinstance(left, ast.Name) and left.id == p
    if not own:
        rep.unknown(RID, key, SH, t.lineno, f"membership test `{norm(t.test)}` is not about the statement asked about")
    elif (isinstance(op, ast.NotIn) and body_rec and not else_rec) or (isinstance(op, ast.In) and else_rec and not body_rec) \
            or (isinstance(op, ast.In) and not body_rec and not else_rec and any(isinstance(s, ast.Return) for s in t.body)):
        rep.holds(RID, key, SH, t.lineno, f"`{norm(t.test)}`: a statement that does not open a scope defers to its parent")
    elif (isinstance(op, ast.In) and body_rec) or (isinstance(op, ast.NotIn) and else_rec):
        rep.violation(RID, key, SH, t.lineno,
                      f"`{norm(t.test)}` is inverted: statements that open a scope defer to their parent and ordinary statements become "
                      f"their own scope, so no declaration is ever visible from the statements next to it")
    else:
        rep.unknown(RID, key, SH, t.lineno, f"shape of `{norm(t.test)}` not recognised")


# ---------------------------------------------------------------------------------------------- R3
def _r3(model, rep, cor: Func, disc: Func, owner_sets: Dict[str, bool]):
    RID = "C05.R3"
    enc = enclosing_map(cor.node)

    def outer_for(n):
        cur, out = n, None
        while id(cur) in enc:
            cur = enc[id(cur)]
            if isinstance(cur, ast.For):
                out = cur
        return out

    def block_of(n):
        parent = enc.get(id(n))
        for fld in ("body", "orelse", "finalbody"):
            b = getattr(parent, fld, None)
            if isinstance(b, list) and n in b:
                return b
        return []

    seen_sets: Dict[str, int] = {}
    count = 0
    for st in walk_no_nested(cor.node):
        if not (isinstance(st, ast.Assign) and isinstance(st.targets[0], ast.Attribute) and st.targets[0].attr == "scope_id"
                and isinstance(st.targets[0].value, ast.Name)):
            continue
        count += 1
        item = st.targets[0].value.id
        of = outer_for(st)
        owner = of.target.id if of is not None and isinstance(of.target, ast.Name) else None
        oset = of.iter.attr if of is not None and is_self_attr(of.iter) else None
        blk = block_of(st)
        # the declaration whose row is moved: item = self.scope_space.find_first_by_id(D.stmt_id)
        idef = _last_def(blk, item, st)
        decl = None
        if isinstance(idef, ast.Call) and (call_name(idef) or "").endswith("find_first_by_id") and idef.args \
                and isinstance(idef.args[0], ast.Attribute) and idef.args[0].attr == "stmt_id" and isinstance(idef.args[0].value, ast.Name):
            decl = idef.args[0].value.id
        what = f"{oset or '?'} -> {decl or '?'}"
        key = f"{SH}::{CLS}.correct_scopes::re-home {what}"
        if decl is None or owner is None:
            rep.unknown(RID, key, SH, st.lineno, f"re-homing statement `{norm(st)}` not in the recognised shape")
            continue
        if oset:
            seen_sets[oset] = of.lineno
        # (a) the new owner is the outer loop's statement id
        v = st.value
        if not (isinstance(v, ast.Name) and v.id == owner):
            rep.violation(RID, key + "::owner", SH, st.lineno,
                          f"the row of `{decl}` is moved to scope `{norm(v)}`, not to the statement `{owner}` whose block it was read from")
            continue
        # (b) the cache is updated for the same declaration with the same owner
        cache = [s for s in blk if isinstance(s, ast.Assign) and isinstance(s.targets[0], ast.Subscript)
                 and is_self_attr(s.targets[0].value, "stmt_id_to_scope_id_cache")]
        ok_cache = [s for s in cache if _is_attr_of(s.targets[0].slice, decl, "stmt_id") and isinstance(s.value, ast.Name) and s.value.id == owner]
        if not cache:
            rep.violation(RID, key + "::cache", SH, st.lineno,
                          f"the scope row of `{decl}` is moved to `{owner}` but stmt_id_to_scope_id_cache is not: the declaration is listed in "
                          f"one scope while convert_stmt_id_to_scope_id answers with another")
            continue
        if not ok_cache:
            rep.violation(RID, key + "::cache", SH, cache[0].lineno,
                          f"`{norm(cache[0])}` does not record the same (declaration, owner) pair as `{norm(st)}`")
            continue
        # (c) the declaration was read from a block attribute of the owner statement
        chain_ok = _read_from_owner(cor, st, decl, owner, enc)
        if chain_ok is None:
            rep.unknown(RID, key, SH, st.lineno, f"could not trace `{decl}` back to a block of statement `{owner}`")
        elif chain_ok is False:
            rep.violation(RID, key + "::source", SH, st.lineno,
                          f"`{decl}` is not read from a block attribute of statement `{owner}`: a declaration is re-homed to a statement "
                          f"that does not contain it")
        else:
            rep.holds(RID, key, SH, st.lineno, f"row and cache both moved to `{owner}`; `{decl}` comes from {chain_ok}")
            # (d) only direct children of that block are re-homed
            kd = key + "::direct children only"
            guarded = _direct_child_guard(st, decl, enc)
            if guarded:
                rep.holds(RID, kd, SH, st.lineno, f"guarded by `{guarded}`")
            elif (oset, decl) in NESTABLE:
                rep.violation(RID, kd, SH, st.lineno,
                              f"every `{decl}` found anywhere inside the block is moved into `{owner}`'s scope, not only the direct children "
                              f"of the block: {NESTABLE[(oset, decl)]}")
            else:
                rep.unknown(RID, kd, SH, st.lineno,
                            f"no direct-child restriction; whether a nested `{decl}` can occur inside this block is not decided (the "
                            f"frontends hoist function expressions out of field and parameter blocks on the inputs tried)")
    if count == 0:
        raise AnalysisError(f"{cor.ref}: no re-homing statement found")
    for s, ln in sorted(seen_sets.items()):
        key = f"{SH}::{CLS}::owners in self.{s} open a scope"
        if s not in owner_sets:
            rep.unknown(RID, key, SH, ln, f"self.{s} is not filled by discover_scopes' dispatch")
        elif owner_sets[s]:
            rep.holds(RID, key, SH, ln, f"the branch of discover_scopes that fills self.{s} also adds the statement to all_scope_ids")
        else:
            rep.violation(RID, key, SH, ln,
                          f"correct_scopes moves declarations into the statements of self.{s}, but discover_scopes no longer registers those "
                          f"statements in all_scope_ids: nothing inside them has that statement on its scope chain, so the moved "
                          f"declarations (parameters / fields / loop variables) are invisible to the code that uses them")


# re-homings whose block can contain further declarations of the same kind nested inside other scopes (each confirmed by an input)
NESTABLE = {
    ("class_stmt_ids", "method_decl"): "a closure or lambda defined inside a method is a method_decl inside the class's methods block; filed "
                                       "under the class it no longer sees the locals and parameters of the method that contains it",
    ("class_stmt_ids", "class_decl"): "for A{B{C}} both A and B claim C and the iteration order of a set decides; C's name becomes visible in A",
    ("for_stmt_ids", "variable_decl"): "`for (let i = (() => { let z = 0; return z })(); ...)`: z becomes a variable of the for statement",
}


def _direct_child_guard(st, decl: str, enc) -> Optional[str]:
    """`if D.parent_stmt_id == X:` around the re-homing, or `if D.parent_stmt_id != X: continue` before it in the same loop body."""
    def is_cmp(t, op):
        return isinstance(t, ast.Compare) and len(t.ops) == 1 and isinstance(t.ops[0], op) and \
            (_is_attr_of(t.left, decl, "parent_stmt_id") or _is_attr_of(t.comparators[0], decl, "parent_stmt_id"))
    cur = st
    while id(cur) in enc:
        par = enc[id(cur)]
        if isinstance(par, ast.If) and cur in par.body and is_cmp(par.test, ast.Eq):
            return norm(par.test)
        if isinstance(par, ast.For) and isinstance(par.target, ast.Name) and par.target.id == decl:
            for s_ in par.body:
                if s_ is cur:
                    break
                if isinstance(s_, ast.If) and is_cmp(s_.test, ast.NotEq) and any(isinstance(b, ast.Continue) for b in s_.body):
                    return norm(s_.test) + " -> continue"
            return None
        cur = par
    return None


def _read_from_owner(cor: Func, st, decl: str, owner: str, enc) -> Optional[object]:
    """decl is the target of `for decl in L`; L = B.query_operation(..); B = self.unit_gir.read_block(E); E = stmt.X or a local bound to
    stmt.X; stmt = self.unit_gir.get_stmt_by_id(owner).  Returns a description, False when traced to something else, None if untraceable."""
    cur = st
    loop = None
    while id(cur) in enc:
        cur = enc[id(cur)]
        if isinstance(cur, ast.For) and isinstance(cur.target, ast.Name) and cur.target.id == decl:
            loop = cur
            break
    if loop is None or not isinstance(loop.iter, ast.Name):
        return None
    ldefs = _defs_of(cor.node, loop.iter.id)
    ldef = None
    for d in ldefs:
        if d.lineno <= loop.lineno and (ldef is None or d.lineno > ldef.lineno):
            ldef = d
    if not (isinstance(ldef, ast.Call) and isinstance(ldef.func, ast.Attribute) and ldef.func.attr == "query_operation"
            and isinstance(ldef.func.value, ast.Name)):
        return None
    bname = ldef.func.value.id
    bdef = None
    for d in _defs_of(cor.node, bname):
        if d.lineno <= ldef.lineno and (bdef is None or d.lineno > bdef.lineno):
            bdef = d
    if not (isinstance(bdef, ast.Call) and (call_name(bdef) or "").endswith("read_block") and bdef.args):
        return None
    e = bdef.args[0]
    if isinstance(e, ast.Name):
        ed = None
        for d in _defs_of(cor.node, e.id):
            if d.lineno <= bdef.lineno and (ed is None or d.lineno > ed.lineno):
                ed = d
        e = ed
    if not (isinstance(e, ast.Attribute) and isinstance(e.value, ast.Name)):
        return None
    sname = e.value.id
    sdef = None
    for d in _defs_of(cor.node, sname):
        if d.lineno <= bdef.lineno and (sdef is None or d.lineno > sdef.lineno):
            sdef = d
    if not (isinstance(sdef, ast.Call) and (call_name(sdef) or "").endswith("get_stmt_by_id") and sdef.args):
        return None
    if isinstance(sdef.args[0], ast.Name) and sdef.args[0].id == owner:
        return f"{sname}.{e.attr}"
    return False


# ---------------------------------------------------------------------------------------------- R4
def _r4(model, rep, summ: Func, named_kinds: Dict[str, int]):
    RID = "C05.R4"
    n2s, s2i, av = _summary_locals(summ)
    rowvars = {n.target.id for n in walk_no_nested(summ.node) if isinstance(n, ast.For) and isinstance(n.target, ast.Name)
               and is_self_attr(n.iter, "scope_space")}
    if not rowvars:
        raise AnalysisError(f"{summ.ref}: loop over self.scope_space not found")
    row = sorted(rowvars)[0]

    def base_and_keys(node):
        keys = []
        b = node
        while isinstance(b, ast.Subscript):
            keys.append(b.slice)
            b = b.value
        return (b.id if isinstance(b, ast.Name) else None), list(reversed(keys))

    # --- declaration tables -------------------------------------------------------------------
    name_keys: Set[str] = set()
    found_n2s = found_s2i = 0
    for n in walk_no_nested(summ.node):
        if isinstance(n, ast.Call) and isinstance(n.func, ast.Attribute) and n.func.attr == "add":
            b, ks = base_and_keys(n.func.value)
            if b == n2s and len(ks) == 1 and n.args:
                found_n2s += 1
                key = f"{SH}::{CLS}.summarize_symbol_decls::{n2s}[name].add"
                name_keys.add(norm(ks[0]))
                if _is_attr_of(n.args[0], row, "scope_id"):
                    rep.holds(RID, key, SH, n.lineno, f"a name is declared in the owner scope of its row ({row}.scope_id)")
                else:
                    rep.violation(RID, key, SH, n.lineno,
                                  f"the declaring scope of a name is recorded as `{norm(n.args[0])}` instead of {row}.scope_id (the owner "
                                  f"computed by discover_scopes/correct_scopes): the resolver intersects it with the visible scopes and "
                                  f"either misses the declaration or finds it from the wrong scopes")
        if isinstance(n, ast.Assign) and isinstance(n.targets[0], ast.Subscript):
            b, ks = base_and_keys(n.targets[0])
            if b == s2i and len(ks) == 2:
                found_s2i += 1
                key = f"{SH}::{CLS}.summarize_symbol_decls::{s2i}[scope][name] ="
                name_keys.add(norm(ks[1]))
                if not _is_attr_of(ks[0], row, "scope_id"):
                    rep.violation(RID, key, SH, n.lineno,
                                  f"the declaration is filed under scope `{norm(ks[0])}` while the name table says {row}.scope_id: "
                                  f"organize_return_value looks the name up in the scope the name table gave and fails or returns another "
                                  f"declaration")
                elif not _is_attr_of(n.value, row, "stmt_id"):
                    rep.violation(RID, key, SH, n.lineno,
                                  f"the bound declaration is recorded as `{norm(n.value)}` instead of the declaring statement {row}.stmt_id")
                else:
                    rep.holds(RID, key, SH, n.lineno, f"[{row}.scope_id][name] = {row}.stmt_id")
    if not found_n2s or not found_s2i:
        raise AnalysisError(f"{summ.ref}: stores into the declaration tables not found")
    key = f"{SH}::{CLS}.summarize_symbol_decls::both tables use the same name"
    if len(name_keys) == 1:
        rep.holds(RID, key, SH, summ.node.lineno, f"both tables are keyed by `{sorted(name_keys)[0]}`")
    else:
        rep.violation(RID, key, SH, summ.node.lineno,
                      f"the name table and the declaration table are keyed by different names ({sorted(name_keys)}): for aliased imports "
                      f"the resolver finds a scope for one spelling and looks the other one up in it")

    # --- named kinds entered ---------------------------------------------------------------------
    entered: Set[str] = set()
    for n in walk_no_nested(summ.node):
        if isinstance(n, ast.If):
            ks = _kinds_list(n.test)
            if ks and any(_mutates_base(s, n2s) for b in n.body for s in ast.walk(b)):
                entered |= set(ks)
    rep.analysed["summarize_symbol_decls"] = {"declaration kinds entered": sorted(entered)}
    for k, ln in sorted(named_kinds.items()):
        key = f"{SH}::{CLS}::declaration kind {k} entered in the name tables"
        if k in entered:
            rep.holds(RID, key, SH, ln, "rows of this kind carry a name and are entered")
        elif k in NOT_A_BINDING:
            rep.info(RID, key, SH, ln, "not a binding: " + NOT_A_BINDING[k])
        else:
            rep.violation(RID, key, SH, ln,
                          f"discover_scopes creates named rows of kind {k} but summarize_symbol_decls does not enter that kind in the name "
                          f"tables: every use of such a name is unresolved (or bound to an outer declaration of the same name)")

    # --- visibility ----------------------------------------------------------------------------
    wl_vars: Dict[str, ast.AST] = {}        # worklist var -> seed expression
    for n in walk_no_nested(summ.node):
        if isinstance(n, ast.Assign) and isinstance(n.targets[0], ast.Name) and isinstance(n.value, ast.Call):
            c = n.value
            if isinstance(c.func, ast.Attribute) and c.func.attr == "add" and isinstance(c.func.value, ast.Call) \
                    and call_name(c.func.value) == "SimpleWorkList" and c.args:
                wl_vars[n.targets[0].id] = c.args[0]
            elif call_name(c) == "SimpleWorkList" and c.args:
                wl_vars[n.targets[0].id] = c.args[0]
    popped: Dict[str, str] = {}             # var -> worklist it was popped from
    for n in walk_no_nested(summ.node):
        if isinstance(n, ast.Assign) and isinstance(n.targets[0], ast.Name) and isinstance(n.value, ast.Call) \
                and isinstance(n.value.func, ast.Attribute) and n.value.func.attr == "pop" and isinstance(n.value.func.value, ast.Name) \
                and n.value.func.value.id in wl_vars:
            popped[n.targets[0].id] = n.value.func.value.id
    # iteration variables over an AV entry:  for _id in AV[x]
    elem_of: Dict[str, ast.AST] = {}
    for n in walk_no_nested(summ.node):
        if isinstance(n, ast.For) and isinstance(n.target, ast.Name):
            b, ks = base_and_keys(n.iter)
            if b == av and len(ks) == 1:
                elem_of[n.target.id] = ks[0]
    sites = 0
    for n in walk_no_nested(summ.node):
        # AV[K].add(V)
        if isinstance(n, ast.Call) and isinstance(n.func, ast.Attribute) and n.func.attr in ("add", "update"):
            b, ks = base_and_keys(n.func.value)
            if b == av and len(ks) == 1 and n.args:
                sites += 1
                K, V = ks[0], n.args[0]
                key = f"{SH}::{CLS}.summarize_symbol_decls::{av}[{norm(K)}].{n.func.attr}({norm(V)})"
                if _is_attr_of(K, row, "stmt_id") and _is_attr_of(V, row, "scope_id"):
                    rep.holds(RID, key, SH, n.lineno, "a scope sees the scope that owns it (child -> parent)")
                elif isinstance(K, ast.Name) and isinstance(V, ast.Name) and K.id == V.id:
                    rep.holds(RID, key, SH, n.lineno, "a scope sees itself")
                elif _is_attr_of(K, row, "scope_id") or _is_attr_of(K, row, "parent_stmt_id"):
                    rep.violation(RID, key, SH, n.lineno,
                                  f"the owner scope {norm(K)} is made to see `{norm(V)}`: visibility flows from a scope down into a scope it "
                                  f"contains, so names bind to declarations of inner (and through the closure, sibling) scopes")
                else:
                    rep.unknown(RID, key, SH, n.lineno, "visibility store not in a recognised form")
            elif b in wl_vars and isinstance(n.func.value, ast.Name) and n.args:
                # additions to the closure work-list must be scopes that are already visible
                sites += 1
                V = n.args[0]
                key = f"{SH}::{CLS}.summarize_symbol_decls::closure work-list {b}.add({norm(V)})"
                if isinstance(V, ast.Name) and V.id in elem_of:
                    rep.holds(RID, key, SH, n.lineno, f"`{V.id}` ranges over {av}[{norm(elem_of[V.id])}] (already visible)")
                else:
                    bb, kk = base_and_keys(V)
                    if bb == av:
                        rep.holds(RID, key, SH, n.lineno, "seeded from a visible set")
                    else:
                        rep.violation(RID, key, SH, n.lineno,
                                      f"the closure explores `{norm(V)}`, which is not drawn from an already-visible set: scopes that are "
                                      f"not ancestors become visible")
        # AV[K] |= AV[T]   /   AV[K] = ...
        if isinstance(n, ast.AugAssign) and isinstance(n.target, ast.Subscript):
            b, ks = base_and_keys(n.target)
            if b == av and len(ks) == 1:
                sites += 1
                K = ks[0]
                key = f"{SH}::{CLS}.summarize_symbol_decls::{av}[{norm(K)}] |= {norm(n.value)}"
                vb, vks = base_and_keys(n.value)
                if not isinstance(n.op, ast.BitOr) or vb != av or len(vks) != 1:
                    rep.unknown(RID, key, SH, n.lineno, "closure step not in the form AV[k] |= AV[t]")
                    continue
                T = vks[0]
                wl = popped.get(T.id) if isinstance(T, ast.Name) else None
                if wl and any(not (isinstance(d, ast.Call) and isinstance(d.func, ast.Attribute) and d.func.attr == "pop")
                              for d in _defs_of(summ.node, T.id)):
                    wl = None       # T is (also) computed some other way
                seed = wl_vars.get(wl) if wl else None
                sb, sks = base_and_keys(seed) if seed is not None else (None, [])
                if wl and sb == av and len(sks) == 1 and norm(sks[0]) == norm(K):
                    rep.holds(RID, key, SH, n.lineno, f"`{norm(T)}` is popped from a work-list seeded with {av}[{norm(K)}]: only what is "
                                                      f"reachable through already-visible scopes is added")
                else:
                    rep.violation(RID, key, SH, n.lineno,
                                  f"`{norm(K)}` inherits the visible set of `{norm(T)}`, which is not drawn from what `{norm(K)}` already "
                                  f"sees: scopes outside the ancestor chain become visible")
        if isinstance(n, ast.Assign) and isinstance(n.targets[0], ast.Subscript):
            b, ks = base_and_keys(n.targets[0])
            if b == av and len(ks) == 1:
                sites += 1
                K, v = ks[0], n.value
                key = f"{SH}::{CLS}.summarize_symbol_decls::{av}[{norm(K)}] = {norm(v)}"
                empty = isinstance(v, ast.Call) and call_name(v) == "set" and not v.args
                selfset = isinstance(v, ast.Set) and len(v.elts) == 1 and norm(v.elts[0]) == norm(K)
                if empty or selfset:
                    rep.holds(RID, key, SH, n.lineno, "initialisation with the empty set / the scope itself")
                else:
                    rep.unknown(RID, key, SH, n.lineno, "visible set assigned from an unrecognised expression")
    if sites < 4:
        raise AnalysisError(f"{summ.ref}: only {sites} visibility stores recognised (expected the seed, the closure, self, root)")


def _mutates_base(node, name: str) -> bool:
    if isinstance(node, ast.Call) and isinstance(node.func, ast.Attribute) and node.func.attr == "add":
        b = node.func.value
        while isinstance(b, ast.Subscript):
            b = b.value
        return isinstance(b, ast.Name) and b.id == name
    return False


# ---------------------------------------------------------------------------------------------- R5
def _r5(model, rep, RID="C05.R5"):
    rep.rule(RID, "resolve_symbol_source_decl restricts the candidates to scopes that are both visible from the scope of the using "
                       "statement and declare the name, takes the innermost (max), uses scope 0 only for `global`, and otherwise returns "
                       "the unresolved marker (-1)", min_instances=5)
    f = model.func(RS, "Resolver.resolve_symbol_source_decl")
    params = f.params
    if len(params) < 4:
        raise AnalysisError(f"{f.ref}: signature changed")
    p_unit, p_stmt, p_name = params[1], params[2], params[3]
    where = f"{RS}::Resolver.resolve_symbol_source_decl"
    fn = f.node

    def attr_chain_has(e, attr):
        return any(isinstance(x, ast.Attribute) and x.attr == attr for x in ast.walk(e)) if e is not None else False

    def expand(e, depth=0):
        """Inline local names (single definition) so that shapes can be read through temporaries."""
        if depth > 6 or e is None:
            return e
        if isinstance(e, ast.Name):
            ds = _defs_of(fn, e.id)
            if len(ds) == 1:
                return expand(ds[0], depth + 1)
        return e

    # default return
    defaults = [n for n in walk_no_nested(fn) if isinstance(n, ast.Assign) and isinstance(n.targets[0], ast.Name)
                and isinstance(n.value, ast.Call) and call_name(n.value) == "SourceSymbolScopeInfo"]
    dnames = set()
    for d in defaults:
        key = f"{where}::unresolved marker"
        args = d.value.args
        sid = args[1] if len(args) > 1 else kwarg(d.value, "source_symbol_id")
        if sid is None or (isinstance(sid, ast.UnaryOp) and isinstance(sid.op, ast.USub) and isinstance(sid.operand, ast.Constant)):
            rep.holds(RID, key, RS, d.lineno, f"`{norm(d)}`: unresolved answers carry a negative declaration id")
            dnames.add(d.targets[0].id)
        else:
            rep.violation(RID, key, RS, d.lineno,
                          f"the unresolved answer is built with declaration id `{norm(sid)}`: callers test `< 0` to report a name as "
                          f"unresolved/external, so an unresolved name is treated as bound to that statement")
    if not defaults:
        raise AnalysisError(f"{f.ref}: default SourceSymbolScopeInfo not found")
    for r in walk_no_nested(fn):
        if isinstance(r, ast.Return):
            v = r.value
            key = f"{where}::return `{norm(v) if v is not None else 'None'}`"[:200]
            if isinstance(v, ast.Name) and v.id in dnames:
                continue
            if isinstance(v, ast.Call) and call_name(v) == "self.organize_return_value":
                continue
            rep.unknown(RID, key, RS, r.lineno, "return value is neither the unresolved marker nor organize_return_value(...)")

    calls = [c for c in walk_no_nested(fn) if isinstance(c, ast.Call) and call_name(c) == "self.organize_return_value"]
    if len(calls) < 2:
        raise AnalysisError(f"{f.ref}: expected a `global` and a lexical call of organize_return_value")
    lexical = 0
    for c in calls:
        if len(c.args) < 3:
            rep.unknown(RID, f"{where}::organize_return_value call", RS, c.lineno, "argument list not recognised")
            continue
        S = c.args[1]
        Sx = expand(S)
        if isinstance(Sx, ast.Constant):
            key = f"{where}::global lookup uses the module scope"
            guard_ok = False
            for n in walk_no_nested(fn):
                if isinstance(n, ast.If) and any(x is c for b in n.body for x in ast.walk(b)) and isinstance(n.test, ast.Compare) \
                        and isinstance(n.test.ops[0], ast.In) and norm(expand(n.test.left)) == norm(Sx):
                    guard_ok = True
            if Sx.value == 0 and guard_ok:
                rep.holds(RID, key, RS, c.lineno, "scope 0, only when the name is declared there")
            elif Sx.value != 0:
                rep.violation(RID, key, RS, c.lineno, f"`global` resolves in scope {Sx.value!r}, not the module scope 0")
            else:
                rep.violation(RID, key, RS, c.lineno,
                              "scope 0 is used without testing that the name is declared there: organize_return_value indexes the "
                              "declaration table with a name it does not hold")
            continue
        lexical += 1
        key = f"{where}::innermost visible declaring scope"
        if not (isinstance(Sx, ast.Call) and isinstance(Sx.func, ast.Name) and Sx.func.id in ("max", "min") and Sx.args):
            if isinstance(Sx, ast.Subscript) and isinstance(Sx.value, ast.Call) and call_name(Sx.value) == "sorted":
                rev = kwarg(Sx.value, "reverse")
                idx = Sx.slice
                first = isinstance(idx, ast.Constant) and idx.value == 0
                last = isinstance(idx, ast.UnaryOp) and isinstance(idx.operand, ast.Constant) and idx.operand.value == 1
                desc = isinstance(rev, ast.Constant) and rev.value is True
                if (first and desc) or (last and not desc):
                    T = Sx.value.args[0]
                else:
                    rep.violation(RID, key, RS, c.lineno, f"`{norm(Sx)}` selects the outermost candidate scope: an inner declaration never "
                                                          f"shadows an outer one")
                    continue
            else:
                rep.unknown(RID, key, RS, c.lineno, f"selection `{norm(Sx)}` not recognised")
                continue
        else:
            kf = kwarg(Sx, "key")
            if kf is not None and not (isinstance(kf, ast.Lambda) and isinstance(kf.body, ast.Name) and kf.args.args
                                       and kf.body.id == kf.args.args[0].arg):
                ktxt = norm(kf)
                kx = expand(kf.body) if isinstance(kf, ast.Lambda) else kf
                reads_decl = any(attr_chain_has(expand(x) if isinstance(x, ast.Name) else x, "scope_id_to_symbol_info")
                                 for x in ast.walk(kf)) or "symbol_info" in ktxt or "decl" in ktxt
                if reads_decl:
                    rep.violation(RID, key, RS, c.lineno,
                                  f"the candidate scope is chosen by `{ktxt[:100]}` (position of the declaration statement), not by nesting "
                                  f"(scope id): a declaration that merely comes later in the file -- a top-level function defined after the "
                                  f"function that has a parameter of the same name -- wins over the enclosing scope's own declaration")
                else:
                    rep.unknown(RID, key, RS, c.lineno, f"selection uses a key function `{ktxt[:80]}` that is not recognised")
                continue
            if Sx.func.id == "min":
                rep.violation(RID, key, RS, c.lineno,
                              f"`{norm(Sx)}` selects the smallest scope id, i.e. the outermost candidate: an inner declaration never shadows "
                              f"an outer one (scope ids are statement ids and grow with nesting)")
                continue
            T = Sx.args[0]
        Tx = expand(T)
        # candidate set: (visible [| implicit roots]) & declaring
        if not (isinstance(Tx, ast.BinOp) and isinstance(Tx.op, ast.BitAnd)):
            bad = "is not an intersection of the visible scopes with the declaring scopes"
            rep.violation(RID, key, RS, c.lineno,
                          f"the candidate set `{norm(Tx)}` {bad}: a name can bind to a declaration in a scope that is not visible from the "
                          f"use (sibling or inner scope)")
            continue
        sides = [expand(Tx.left), expand(Tx.right)]

        def leafs(e):
            e = expand(e)
            if isinstance(e, ast.BinOp) and isinstance(e.op, ast.BitOr):
                return leafs(e.left) + leafs(e.right)
            return [e]
        decl_side = [s for s in sides if attr_chain_has(s, "symbol_name_to_scope_ids")]
        vis_side = [s for s in sides if any(attr_chain_has(l, "scope_id_to_available_scope_ids") for l in leafs(s))]
        if not decl_side or not vis_side:
            rep.violation(RID, key, RS, c.lineno,
                          f"the candidate set `{norm(Tx)}` does not intersect scope_id_to_available_scope_ids[...] with "
                          f"symbol_name_to_scope_ids[...]: visibility or declaration is not taken into account")
            continue
        # the visible set is the one of the using statement's scope; the declaring set is the one of the asked name
        vis_leaf = [l for l in leafs(vis_side[0]) if attr_chain_has(l, "scope_id_to_available_scope_ids")][0]
        scope_arg = None
        if isinstance(vis_leaf, ast.Call) and isinstance(vis_leaf.func, ast.Attribute) and vis_leaf.func.attr == "get" and vis_leaf.args:
            scope_arg = vis_leaf.args[0]
        elif isinstance(vis_leaf, ast.Subscript):
            scope_arg = vis_leaf.slice
        sx = expand(scope_arg)
        ok_scope = isinstance(sx, ast.Call) and (call_name(sx) or "").endswith("convert_stmt_id_to_scope_id") and sx.args \
            and isinstance(sx.args[0], ast.Name) and sx.args[0].id == p_stmt
        d = decl_side[0]
        ok_name = isinstance(d, ast.Subscript) and isinstance(d.slice, ast.Name) and d.slice.id == p_name
        extra = [norm(l) for l in leafs(vis_side[0]) if not attr_chain_has(l, "scope_id_to_available_scope_ids")]
        if not ok_scope:
            rep.violation(RID, key, RS, c.lineno,
                          f"the visible scopes are looked up for `{norm(sx) if sx is not None else '?'}` instead of "
                          f"convert_stmt_id_to_scope_id({p_stmt}): the name is resolved from the point of view of another statement")
        elif not ok_name:
            rep.violation(RID, key, RS, c.lineno, f"the declaring scopes are looked up for `{norm(d)}` instead of the asked name `{p_name}`")
        else:
            rep.holds(RID, key, RS, c.lineno,
                      f"max((visible({p_stmt})" + (f" | {' | '.join(extra)}" if extra else "") + f") & declaring({p_name}))")
        # the chosen scope and the asked name are what organize_return_value receives
        key2 = f"{where}::declaration read from the chosen scope under the asked name"
        if isinstance(c.args[2], ast.Name) and c.args[2].id == p_name:
            rep.holds(RID, key2, RS, c.lineno, "organize_return_value(unit, chosen scope, asked name, ...)")
        else:
            rep.violation(RID, key2, RS, c.lineno, f"organize_return_value is asked for `{norm(c.args[2])}`, not for `{p_name}`")
    if lexical == 0:
        raise AnalysisError(f"{f.ref}: lexical lookup not found")

    # organize_return_value reads the declaration of exactly (scope, name)
    g = model.func(RS, "Resolver.organize_return_value")
    gp = g.params
    key = f"{RS}::Resolver.organize_return_value::declaration = table[scope][name]"
    hit = None
    for n in walk_no_nested(g.node):
        if isinstance(n, ast.Subscript) and isinstance(n.value, ast.Subscript) and attr_chain_has(n.value.value, "scope_id_to_symbol_info"):
            hit = n
            break
    if hit is None:
        rep.unknown(RID, key, RS, g.node.lineno, "lookup in scope_id_to_symbol_info not found")
    elif isinstance(hit.value.slice, ast.Name) and hit.value.slice.id == gp[2] and isinstance(hit.slice, ast.Name) and hit.slice.id == gp[3]:
        rep.holds(RID, key, RS, hit.lineno, f"`{norm(hit)}`")
    else:
        rep.violation(RID, key, RS, hit.lineno, f"`{norm(hit)}` does not index the declaration table with the chosen scope `{gp[2]}` and the "
                                                f"asked name `{gp[3]}`")


# ---------------------------------------------------------------------------------------------- R6
def _r6(model, rep):
    RID = "C05.R6"
    f = None
    for c in model.module(DU).classes.values():
        if "add_status_with_symbol_id_sync" in c.methods:
            f = c.methods["add_status_with_symbol_id_sync"]
    if f is None:
        raise AnalysisError("add_status_with_symbol_id_sync vanished")
    where = f"{DU}::{f.qualname}"
    p_stmt_id, p_stmt = f.params[1], f.params[2]
    calls = [c for c in walk_no_nested(f.node) if isinstance(c, ast.Call) and (call_name(c) or "").endswith("resolve_symbol_source_decl")]
    if len(calls) < 3:
        raise AnalysisError(f"{f.ref}: expected resolver calls for definitions, global/nonlocal and uses")
    enc = enclosing_map(f.node)

    def in_global_branch(c) -> Optional[bool]:
        """True: inside `if stmt.operation == 'global_stmt'` body; False: in its else; None: elsewhere."""
        cur = c
        while id(cur) in enc:
            par = enc[id(cur)]
            if isinstance(par, ast.If) and isinstance(par.test, ast.Compare) and len(par.test.comparators) == 1 \
                    and isinstance(par.test.comparators[0], ast.Constant) and par.test.comparators[0].value == "global_stmt" \
                    and isinstance(par.test.ops[0], ast.Eq):
                return cur in par.body
            cur = par
        return None

    symvars: Set[str] = set()
    for i, c in enumerate(calls):
        a = c.args
        gflag = kwarg(c, "source_symbol_must_be_global")
        gb = in_global_branch(c)
        label = "global" if gb is True else ("nonlocal" if gb is False else f"lookup #{i}")
        key = f"{where}::{label}"
        if len(a) < 3:
            rep.unknown(RID, key, DU, c.lineno, "argument list not recognised")
            continue
        ok_unit = is_self_attr(a[0], "unit_id")
        ok_stmt = (isinstance(a[1], ast.Name) and a[1].id == p_stmt_id) or _is_attr_of(a[1], p_stmt, "stmt_id")
        ok_name = isinstance(a[2], ast.Attribute) and a[2].attr == "name" and isinstance(a[2].value, ast.Name)
        if ok_name:
            symvars.add(a[2].value.id)
        if not ok_unit:
            rep.violation(RID, key, DU, c.lineno, f"resolved in unit `{norm(a[0])}` instead of the unit being analysed")
        elif not ok_stmt:
            rep.violation(RID, key, DU, c.lineno,
                          f"the name is resolved from statement `{norm(a[1])}` instead of the statement it occurs in ({p_stmt_id}): the "
                          f"scope chain of another statement decides the binding")
        elif not ok_name:
            rep.unknown(RID, key, DU, c.lineno, f"name argument `{norm(a[2])}` not recognised")
        elif gb is True and not (isinstance(gflag, ast.Constant) and gflag.value is True):
            rep.violation(RID, key, DU, c.lineno,
                          "`global x` is resolved lexically (source_symbol_must_be_global is not True): an enclosing function's x is bound "
                          "instead of the module's")
        elif gb is not True and isinstance(gflag, ast.Constant) and gflag.value is True:
            rep.violation(RID, key, DU, c.lineno,
                          "a lookup other than `global` is forced to the module scope: locals, parameters and closure variables are skipped")
        else:
            # the symbol whose name was asked receives the answer
            sv = a[2].value.id
            assigned = False
            blk_owner = enc.get(id(c))
            while blk_owner is not None and not isinstance(blk_owner, (ast.If, ast.For, ast.FunctionDef)):
                blk_owner = enc.get(id(blk_owner))
            scope_node = blk_owner if blk_owner is not None else f.node
            # widen to the enclosing statement list that holds both the call and the store
            cur = scope_node
            for _ in range(3):
                if any(isinstance(s, ast.Assign) and isinstance(s.targets[0], ast.Attribute) and s.targets[0].attr == "symbol_id"
                       and isinstance(s.targets[0].value, ast.Name) and s.targets[0].value.id == sv and s.lineno > c.lineno
                       for s in ast.walk(cur)):
                    assigned = True
                    break
                cur = enc.get(id(cur), cur)
            if assigned:
                rep.holds(RID, key, DU, c.lineno, f"{norm(c)[:120]} -> {sv}.symbol_id")
            else:
                rep.violation(RID, key, DU, c.lineno, f"the answer of the resolver is never stored into `{sv}.symbol_id`")

    # unresolved names: fresh negative id per name
    key = f"{where}::unresolved names get one negative id per name"
    news = [c for c in walk_no_nested(f.node) if isinstance(c, ast.Call) and (call_name(c) or "").endswith("assign_new_unique_negative_id")]
    tests = [n for n in walk_no_nested(f.node) if isinstance(n, ast.If)
             and any(isinstance(x, ast.Compare) and isinstance(x.ops[0], ast.Lt) and isinstance(x.comparators[0], ast.Constant)
                     and x.comparators[0].value == 0 and isinstance(x.left, ast.Attribute) and x.left.attr == "source_symbol_id"
                     for x in ast.walk(n.test))]
    if not tests:
        rep.violation(RID, key, DU, f.node.lineno,
                      "no use-site test for an unresolved answer (`source_symbol_id < 0`): unresolved names keep the marker -1 and all "
                      "unresolved names of a method collapse into one symbol")
    else:
        t = tests[0]
        has_new = any(c in list(ast.walk(t)) for c in news)
        per_name = any(isinstance(x, ast.Subscript) and is_self_attr(x.value, "external_symbol_id_collection")
                       and isinstance(x.slice, ast.Attribute) and x.slice.attr == "name" for x in ast.walk(t))
        if has_new and per_name:
            rep.holds(RID, key, DU, t.lineno, "`< 0` => external_symbol_id_collection[name] (fresh negative id on first sight)")
        elif not has_new:
            rep.violation(RID, key, DU, t.lineno, "the unresolved branch no longer allocates a fresh negative id")
        else:
            rep.violation(RID, key, DU, t.lineno, "the fresh id of an unresolved name is not remembered per name: two uses of one "
                                                  "undeclared name become two different symbols")


# ---------------------------------------------------------------------------------------------- R7
IH = "basics/import_hierarchy.py"
EDGE_KINDS_NOT_FOLLOWED_OK = {
    "UNSOLVED_SYMBOL": "placeholder edge for a name that could not be resolved; there is nothing behind it to descend into",
}


def _r7(model, rep, RID="C05.R7"):
    rep.rule(RID, "imported names: before the members of a matched module are read its own import statements have been analysed (in the "
                  "wildcard branch and in the name branch alike, so the result does not depend on the order units are visited in), and "
                  "descending an import path follows every kind of edge the import graph is built with (re-exported names included)", 4)
    cls = model.module(IH).classes.get("ImportHierarchy")
    if cls is None:
        raise AnalysisError("ImportHierarchy vanished")
    f = cls.methods.get("parse_import_path_from_module_worklist")
    if f is None:
        raise AnalysisError("ImportHierarchy.parse_import_path_from_module_worklist vanished")
    where = f"{IH}::ImportHierarchy.parse_import_path_from_module_worklist"
    # (a) on-demand analysis in every loop that visits candidate nodes before they are returned / descended into
    loops = [n for n in walk_no_nested(f.node) if isinstance(n, ast.For) and isinstance(n.target, ast.Name)
             and isinstance(n.iter, ast.Name) and "worklist" in n.iter.id]
    if len(loops) < 2:
        raise AnalysisError(f"{f.ref}: expected the wildcard loop and the name-matching loop over the work-list")
    for i, lp in enumerate(loops):
        v = lp.target.id
        label = "wildcard branch" if any(isinstance(x, ast.Constant) and x.value == "*" for p_ in [lp] for x in ast.walk(_enclosing_if(f.node, lp) or lp)) and i == 0 else f"name branch #{i}"
        key = f"{where}::{label}: a matched module's imports are analysed on demand"
        calls = [c for c in ast.walk(lp) if isinstance(c, ast.Call) and call_name(c) == "self.analyze_unit_import_stmts" and c.args
                 and _is_attr_of(c.args[0], v, "symbol_id")]
        extra = None
        if calls:
            enc_ = enclosing_map(lp)
            cur = calls[0]
            while id(cur) in enc_:
                par = enc_[id(cur)]
                if isinstance(par, ast.If):
                    t = par.test
                    plain = isinstance(t, ast.Compare) and len(t.ops) == 1 and isinstance(t.ops[0], ast.Eq) and isinstance(t.left, ast.Attribute) \
                        and isinstance(t.left.value, ast.Name) and t.left.value.id == v and t.left.attr in ("symbol_type", "symbol_name")
                    if not plain or cur in par.orelse:
                        extra = par
                cur = par
        if calls and extra is not None:
            rep.violation(RID, key, IH, extra.lineno,
                          f"the on-demand analysis of a matched module is additionally restricted by `{norm(extra.test)[:100]}`: when the "
                          f"restriction does not hold (e.g. the module is an intermediate component of the import path, or re-exports the name) "
                          f"its own imports are analysed only if run() happened to visit it earlier -- binding depends on unit order")
        elif calls:
            rep.holds(RID, key, IH, calls[0].lineno, f"self.analyze_unit_import_stmts({v}.symbol_id) before the node's members are used")
        else:
            rep.violation(RID, key, IH, lp.lineno,
                          f"the loop over `{lp.iter.id}` no longer analyses the import statements of a matched module before its members are "
                          f"read: a name that the module re-exports (`from core import f` inside it) is found only if run() happened to "
                          f"visit that module earlier -- binding depends on unit order, i.e. on file names")
    # the kind the guards test is a kind unit nodes are created with, and the sibling guards agree
    guard_kinds: Dict[int, Set[str]] = {}
    for i, lp in enumerate(loops):
        v = lp.target.id
        for c in ast.walk(lp):
            if isinstance(c, ast.Call) and call_name(c) == "self.analyze_unit_import_stmts":
                enc_ = enclosing_map(lp)
                cur = c
                while id(cur) in enc_:
                    cur = enc_[id(cur)]
                    if isinstance(cur, ast.If):
                        for t in ast.walk(cur.test):
                            if isinstance(t, ast.Compare) and len(t.ops) == 1 and isinstance(t.ops[0], ast.Eq) and any(
                                    isinstance(x, ast.Attribute) and x.attr == "symbol_type" for x in (t.left, t.comparators[0])):
                                other = t.comparators[0] if (isinstance(t.left, ast.Attribute) and t.left.attr == "symbol_type") else t.left
                                if _attr_tail(other):
                                    guard_kinds.setdefault(i, set()).add(_attr_tail(other))
    produced_kinds: Set[str] = set()
    for rel_ in ("preparation.py", IH):
        for d in ast.walk(model.module(rel_).tree):
            if isinstance(d, ast.Dict):
                for k, v_ in zip(d.keys, d.values):
                    if isinstance(k, ast.Constant) and k.value == "symbol_type" and _attr_tail(v_):
                        produced_kinds.add(_attr_tail(v_))
            if isinstance(d, ast.Call):
                for kw_ in d.keywords:
                    if kw_.arg == "symbol_type" and _attr_tail(kw_.value):
                        produced_kinds.add(_attr_tail(kw_.value))
    key = f"{where}::the on-demand analysis is triggered for the kind unit nodes are created with"
    if guard_kinds:
        allk = set().union(*guard_kinds.values())
        dead = sorted(k for k in allk if k not in produced_kinds)
        disagree = len({frozenset(v_) for v_ in guard_kinds.values()}) > 1
        if dead or disagree:
            rep.violation(RID, key, IH, loops[0].lineno,
                          "the guards of the on-demand import analysis test " + ", ".join(f"loop #{i}: {sorted(v_)}" for i, v_ in sorted(guard_kinds.items()))
                          + (f"; no node of the import graph is ever created with kind {dead} (kinds created: {sorted(produced_kinds)})" if dead else "")
                          + ": in that branch a matched module's own imports are never analysed on demand, so a re-exported name resolves only when "
                            "the re-exporting unit happened to be processed earlier -- the call edge through it depends on file names")
        else:
            rep.holds(RID, key, IH, loops[0].lineno, f"every guard tests {sorted(allk)}, which preparation.py creates unit nodes with")
    # idempotence / termination of the on-demand analysis
    g = cls.methods.get("analyze_unit_import_stmts")
    key = f"{IH}::ImportHierarchy.analyze_unit_import_stmts::once per unit"
    if g is None:
        raise AnalysisError("ImportHierarchy.analyze_unit_import_stmts vanished")
    first = [s_ for s_ in g.node.body if not (isinstance(s_, ast.Expr) and isinstance(s_.value, ast.Constant))][:2]
    ok = len(first) == 2 and isinstance(first[0], ast.If) and any(isinstance(b, ast.Return) for b in first[0].body) \
        and "analyzed_imported_unit_ids" in norm(first[0].test) and "analyzed_imported_unit_ids.add" in norm(first[1])
    (rep.holds if ok else rep.unknown)(RID, key, IH, g.node.lineno,
                                       "membership test, then the unit is marked before its imports are followed (cyclic imports end)" if ok else
                                       "guard shape not recognised")
    # (b) edge kinds produced vs followed
    produced: Dict[str, int] = {}
    for h in cls.methods.values():
        for c in walk_no_nested(h.node):
            if isinstance(c, ast.Call) and call_name(c) == "self.add_import_graph_edge":
                k = kwarg(c, "edge_kind")
                produced[_attr_tail(k) if k is not None else "INTERNAL_SYMBOL"] = c.lineno
    if len(produced) < 2:
        raise AnalysisError(f"only {sorted(produced)} import-graph edge kinds found at add_import_graph_edge call sites")
    # the statement that computes the children of a matched node
    desc = []
    for n in walk_no_nested(f.node):
        if isinstance(n, ast.Assign) and isinstance(n.value, ast.Call) and (call_name(n.value) or "").startswith("util.graph_successors"):
            strict = None
            par = _enclosing_if(f.node, n)
            if par is not None and "strict" in norm(par.test):
                strict = n in par.body if not isinstance(par.test, ast.UnaryOp) else n not in par.body
            cn = call_name(n.value)
            kinds = None
            if cn.endswith("_with_weight"):
                kinds = {_attr_tail(a) for a in n.value.args[2:]} | {_attr_tail(k.value) for k in n.value.keywords}
            desc.append((n, strict, kinds))
    if not desc:
        raise AnalysisError(f"{f.ref}: the statement that reads the successors of a matched node was not found")
    # (c) sites that add edges of the same kind pass the same attributes (an alias dropped at one of two near-identical sites)
    by_kind: Dict[str, List[ast.Call]] = {}
    for h in cls.methods.values():
        for c in walk_no_nested(h.node):
            if isinstance(c, ast.Call) and call_name(c) == "self.add_import_graph_edge":
                k = kwarg(c, "edge_kind")
                by_kind.setdefault(_attr_tail(k) if k is not None else "INTERNAL_SYMBOL", []).append(c)
    for kind, calls in sorted(by_kind.items()):
        if len(calls) < 2:
            continue
        sets = [frozenset(k.arg for k in c.keywords if k.arg) for c in calls]
        key = f"{IH}::ImportHierarchy::all {len(calls)} sites adding {kind} edges pass the same attributes"
        union = frozenset().union(*sets)
        odd = [(c, sorted(union - s_)) for c, s_ in zip(calls, sets) if s_ != union]
        if not odd:
            rep.holds(RID, key, IH, calls[0].lineno, f"keywords {sorted(union)} at every site")
        else:
            c, missing = odd[0]
            rep.violation(RID, key, IH, c.lineno,
                          f"the call at line {c.lineno} adds a {kind} edge without {missing}, which the other site(s) pass: the edge's name "
                          f"defaults to the imported symbol's own name, so `from pkg.mod import f as g` reached through this path leaves `g` "
                          f"unresolved (and a later plain `f` binds to the wrong file)")
    for n, strict, kinds in desc:
        mode = "strict mode" if strict else "default mode"
        for k, ln in sorted(produced.items()):
            key = f"{where}::{mode}: edges of kind {k} are followed"
            if kinds is None or k in kinds:
                rep.holds(RID, key, IH, n.lineno, "unfiltered successors" if kinds is None else f"kind listed in `{norm(n.value)[:80]}`")
            elif k in EDGE_KINDS_NOT_FOLLOWED_OK:
                rep.info(RID, key, IH, n.lineno, EDGE_KINDS_NOT_FOLLOWED_OK[k])
            elif strict:
                rep.info(RID, key, IH, n.lineno, "strict parse mode (opt-in) deliberately descends only into a module's own symbols")
            else:
                rep.violation(RID, key, IH, n.lineno,
                              f"descending an import path only follows {sorted(x for x in kinds if x)} edges, but the import graph also has "
                              f"{k} edges (added at line {ln} for names a module imports itself): `from util import f` no longer resolves "
                              f"when util only re-exports f from a third module -- moving a function behind a re-export changes the call graph")
    # relative imports: `from ...pkg import f` climbs one package per extra dot; the climb has to advance (sa/generic2.py, L3)
    from ..generic2 import check_counted_walks
    if check_counted_walks(model, rep, RID, [IH]) < 1:
        raise AnalysisError("the counted climb of relative imports (for _ in range(levels_up)) is no longer recognised in import_hierarchy.py")


def _enclosing_if(root, node) -> Optional[ast.If]:
    enc = enclosing_map(root)
    cur = node
    while id(cur) in enc:
        cur = enc[id(cur)]
        if isinstance(cur, ast.If):
            return cur
    return None


# ---------------------------------------------------------------------------------------------- R9
AVD = "events/default_event_handlers/add_var_decl.py"


def _r9_hoisting(model, rep, RID="C05.R9"):
    """Declaration hoisting (adjust_variable_decls) decides which scope owns an assigned name.  Shared with C01.R9."""
    rep.rule(RID, "declaration hoisting keeps function scope: the table of already-declared names of a method body is created empty in "
                  "the method_decl branch (only the method's own parameters are entered), the bodies of nested statements share the "
                  "enclosing frame's table (same object, so a declaration or global/nonlocal seen inside a block is still known after it), "
                  "and class members start from a fresh table", 3)
    m = model.module(AVD)
    f = m.functions.get("adjust_variable_decls")
    if f is None:
        raise AnalysisError("adjust_variable_decls vanished")
    where = f"{AVD}::adjust_variable_decls"
    frames = [c for c in walk_no_nested(f.node) if isinstance(c, ast.Call) and call_name(c) == "StackFrame"]
    if len(frames) < 3:
        raise AnalysisError(f"{f.ref}: expected StackFrame constructions for class members, method bodies and nested statement bodies")
    enc = enclosing_map(f.node)
    # the loop variable holding the current frame: `frame = stack[-1]`
    cur_frames = {n.targets[0].id for n in walk_no_nested(f.node) if isinstance(n, ast.Assign) and isinstance(n.targets[0], ast.Name)
                  and isinstance(n.value, ast.Subscript) and isinstance(n.value.slice, ast.UnaryOp)}

    def branch_test(c) -> str:
        cur = c
        while id(cur) in enc:
            par = enc[id(cur)]
            if isinstance(par, ast.If) and cur in par.body and any(isinstance(x, ast.Constant) and isinstance(x.value, str)
                                                                    and (x.value.endswith("_decl") or x.value.endswith("_stmt")) for x in ast.walk(par.test)):
                return " ".join(ast.unparse(par.test).split())
            cur = par
        return ""
    seen = {"method": 0, "block": 0, "class": 0}
    for c in frames:
        bt = branch_test(c)
        vk = kwarg(c, "variables")
        stm = kwarg(c, "stmts")
        if "'method_decl'" in bt:
            seen["method"] += 1
            key = f"{where}::method body frame starts from an empty table"
            d = vk
            if isinstance(vk, ast.Name):
                defs = [n.value for n in walk_no_nested(f.node) if isinstance(n, (ast.Assign, ast.AnnAssign)) and getattr(n, "value", None) is not None
                        and any(isinstance(t, ast.Name) and t.id == vk.id for t in (n.targets if isinstance(n, ast.Assign) else [n.target]))]
                d = defs[0] if len(defs) == 1 else None
            empty = isinstance(d, ast.Dict) and not d.keys or isinstance(d, ast.Call) and call_name(d) == "dict" and not d.args and not d.keywords
            inherits = d is not None and any(isinstance(x, ast.Attribute) and x.attr == "variables" for x in ast.walk(d))
            if vk is None or empty:
                rep.holds(RID, key, AVD, c.lineno, "variables = {} (+ the method's parameters)")
            elif inherits:
                rep.violation(RID, key, AVD, c.lineno,
                              f"the declared-name table of a method body is initialised from the enclosing frame (`{norm(d)}`): a nested function "
                              f"that assigns a name its enclosing function already declared gets no declaration of its own, so the inner "
                              f"assignment is bound to (and overwrites) the enclosing function's variable")
            else:
                rep.unknown(RID, key, AVD, c.lineno, f"initial table `{norm(d) if d is not None else norm(vk)}` not recognised")
        elif "_stmt" in bt and "endswith" in bt:
            seen["block"] += 1
            key = f"{where}::nested statement bodies share the enclosing frame's table"
            if isinstance(vk, ast.Attribute) and vk.attr == "variables" and isinstance(vk.value, ast.Name) and vk.value.id in cur_frames:
                rep.holds(RID, key, AVD, c.lineno, f"variables={norm(vk)} (the same object)")
            elif vk is not None and any(isinstance(x, ast.Attribute) and x.attr == "variables" for x in ast.walk(vk)):
                rep.violation(RID, key, AVD, c.lineno,
                              f"the body of a nested statement gets a copy of the declared-name table (`{norm(vk)}`): what is declared -- or "
                              f"named by `global`/`nonlocal` -- inside an if/while/for block is forgotten when the block ends, and an assignment "
                              f"after the block invents a new function-local declaration that captures every occurrence of the name")
            elif vk is None:
                rep.violation(RID, key, AVD, c.lineno,
                              "the body of a nested statement starts from an empty declared-name table: every block re-declares the names it "
                              "assigns, shadowing the function's own variables")
            else:
                rep.unknown(RID, key, AVD, c.lineno, f"table `{norm(vk)}` not recognised")
        elif "class_decl" in bt:
            seen["class"] += 1
            key = f"{where}::class members start from a fresh table"
            if vk is None:
                rep.holds(RID, key, AVD, c.lineno, "StackFrame(stmts=...) uses the default_factory table")
            elif any(isinstance(x, ast.Attribute) and x.attr == "variables" for x in ast.walk(vk)):
                rep.violation(RID, key, AVD, c.lineno, f"class members inherit the enclosing table (`{norm(vk)}`): a method-level name hides the field declaration")
            else:
                rep.unknown(RID, key, AVD, c.lineno, f"table `{norm(vk)}` not recognised")
    if not (seen["method"] and seen["block"] and seen["class"]):
        raise AnalysisError(f"{f.ref}: frame constructions not classified ({seen})")
    # the collector of hoisted declarations is shared the same way: for the languages whose declarations rise to the function top, the
    # frame of a nested body gets the ENCLOSING FRAME'S collector object itself.  `x or []`, `list(x)`, `x[:]` give a different object
    # whenever x is (still) empty, and what the block collects is then inserted nowhere
    n_coll = 0
    for c_ in frames:
        hk = kwarg(c_, "hoist_collector")
        if hk is None:
            continue
        exprs = [hk]
        if isinstance(hk, ast.Name):
            exprs = [a_.value for a_ in walk_no_nested(f.node) if isinstance(a_, ast.Assign) and len(a_.targets) == 1 and isinstance(a_.targets[0], ast.Name)
                     and a_.targets[0].id == hk.id]
        shared = [e_ for e_ in exprs if any(isinstance(x, ast.Attribute) and x.attr == "hoist_collector" for x in ast.walk(e_))]
        if not shared:
            continue
        n_coll += 1
        key = f"{where}::nested statement bodies share the enclosing frame's hoist collector"
        bad = [e_ for e_ in shared if not (isinstance(e_, ast.Attribute) and e_.attr == "hoist_collector")]
        if bad:
            rep.violation(RID, key, AVD, bad[0].lineno,
                          f"the body of a nested statement is given `{norm(bad[0])}` as its collector: when the enclosing collector is still empty that is a "
                          f"NEW list, so the declaration of a variable first assigned inside an if/while body is removed from the block and inserted "
                          f"nowhere -- the name then binds to a same-named variable of an enclosing scope")
        else:
            rep.holds(RID, key, AVD, shared[0].lineno, f"`{norm(shared[0])}` (the same object)")
    if not n_coll:
        raise AnalysisError(f"{f.ref}: no StackFrame of a nested body receives the enclosing frame's hoist_collector")
    # the table is keyed by NAMES: whatever is entered into a declared-name table (the local handed to StackFrame as `variables=`, or
    # `<frame>.variables`) is entered under an expression that reads the `name` of a declaration -- the later lookups are by name
    tables = {vk_.id for c_ in frames for vk_ in [kwarg(c_, "variables")] if isinstance(vk_, ast.Name)}
    n_store = 0
    for fn_ in [f] + [g_ for g_ in m.functions.values() if g_ is not f]:
        for st_ in walk_no_nested(fn_.node):
            if not (isinstance(st_, ast.Assign) and len(st_.targets) == 1 and isinstance(st_.targets[0], ast.Subscript)):
                continue
            base = st_.targets[0].value
            is_table = (isinstance(base, ast.Name) and base.id in tables and fn_ is f) or (isinstance(base, ast.Attribute) and base.attr == "variables") \
                or (isinstance(base, ast.Name) and base.id == "variables")
            if not is_table:
                continue
            n_store += 1
            kx = st_.targets[0].slice
            exprs = [kx]
            if isinstance(kx, ast.Name):
                exprs += [a_.value for a_ in walk_no_nested(fn_.node) if isinstance(a_, ast.Assign) and isinstance(a_.targets[0], ast.Name) and a_.targets[0].id == kx.id]
            by_name = any((isinstance(x, ast.Subscript) and isinstance(x.slice, ast.Constant) and x.slice.value == "name")
                          or (isinstance(x, ast.Call) and isinstance(x.func, ast.Attribute) and x.func.attr == "get" and x.args and isinstance(x.args[0], ast.Constant)
                              and x.args[0].value == "name") for e_ in exprs for x in ast.walk(e_)) or (isinstance(kx, ast.Name) and kx.id in fn_.params)
            key = f"{AVD}::{fn_.qualname}::`{norm(st_.targets[0])}`::entered under the declaration's name"
            if by_name:
                rep.holds(RID, key, AVD, st_.lineno, f"key `{norm(kx)}` reads a `name`")
            else:
                rep.violation(RID, key, AVD, st_.lineno,
                              f"`{norm(st_)}` enters `{norm(kx)}` into the declared-name table, which is not the name of a declaration: the names that "
                              f"should be known (a method's parameters) are not, so the first assignment to one of them hoists a new local "
                              f"declaration that shadows it -- the incoming value no longer reaches the uses of the parameter")
    if not n_store:
        raise AnalysisError(f"{f.ref}: no store into a declared-name table found")
    # the default of StackFrame.variables must be a per-instance dict
    sf = m.classes.get("StackFrame")
    key = f"{AVD}::StackFrame.variables default is per instance"
    ok = sf is not None and any(isinstance(st, ast.AnnAssign) and isinstance(st.target, ast.Name) and st.target.id == "variables"
                                and isinstance(st.value, ast.Call) and any(k.arg == "default_factory" for k in st.value.keywords) for st in sf.node.body)
    (rep.holds if ok else rep.violation)(RID, key, AVD, sf.node.lineno if sf else 0,
                                         "dataclasses.field(default_factory=dict)" if ok else
                                         "StackFrame.variables has a shared default: frames created without a table share one dict")


# ---------------------------------------------------------------------------------------------- self-test
C05_ADJUDICATED = {
    "basics/import_hierarchy.py::ImportHierarchy.parse_import_path_from_module_worklist::`matched_nodes`::return under `name_to_be_matched == '*'`":
        "wildcard component: the whole current work-list is the answer, nothing further is matched",
    "basics/import_hierarchy.py::ImportHierarchy.parse_import_path_from_module_worklist::`matched_nodes`::return under `len(matched_nodes) == 0`":
        "no node matches this component: the remaining path is handed back to the caller",
    "basics/import_hierarchy.py::ImportHierarchy.parse_import_path_from_module_worklist::`matched_nodes`::rebound `matched_nodes = []`":
        "one match list per path component; the matches of the last component are the result by design",
}

MUTANTS = [
    ("joining dot added after a dots-only source", IH,
     lambda s: M.text_replace(s, "            if not import_path.endswith(\".\"):\n                import_path += \".\"\n", "            import_path += \".\"\n"),
     "C05.R16"),
    ("nonlocal lowers the first name only", "lang/python_parser.py",
     lambda s: M.text_replace(s, "            for child in node.named_children:\n                shadow_expr = self.parse(child, statements)\n                self.append_stmts(statements, node, {\"nonlocal_stmt\": {\"name\": shadow_expr}})",
                              "            shadow_expr = self.parse(node.named_children[0], statements)\n        self.append_stmts(statements, node, {\"nonlocal_stmt\": {\"name\": shadow_expr}})"),
     "C05.R15"),
    ("relative import climbs one level per dot", IH,
     lambda s: M.text_replace(s, "                levels_up = leading_dots - 1", "                levels_up = leading_dots"),
     "C05.R14"),
    ("on-demand import analysis only for the last component", IH,
     lambda s: M.text_replace(s, "                    if candidate_node.symbol_type == LIAN_SYMBOL_KIND.UNIT_SYMBOL:\n                        self.analyze_unit_import_stmts(candidate_node.symbol_id)",
                              "                    if candidate_node.symbol_type == LIAN_SYMBOL_KIND.UNIT_SYMBOL and len(import_path_list) == 1:\n                        self.analyze_unit_import_stmts(candidate_node.symbol_id)"),
     "a matched module's imports are analysed on demand"),
    ("alias dropped on the fallback import path", IH,
     lambda s: M.text_replace(s, "                    import_stmt_id = stmt.stmt_id, alias = alias, symbol_type = each_node.symbol_type\n                )\n                self.add_import_deps(unit_id, each_node.symbol_id)\n                external_symbols.append(\n                    self.adjust_result_symbol_node(each_node, unit_id, stmt, alias)\n                )\n            # done\n            return external_symbols\n\n        # if self.is_strict_parse_mode:",
                              "                    import_stmt_id = stmt.stmt_id, symbol_type = each_node.symbol_type\n                )\n                self.add_import_deps(unit_id, each_node.symbol_id)\n                external_symbols.append(\n                    self.adjust_result_symbol_node(each_node, unit_id, stmt, alias)\n                )\n            # done\n            return external_symbols\n\n        # if self.is_strict_parse_mode:"),
     "sites adding EXTERNAL_SYMBOL edges pass the same attributes"),
    ("nested function inherits the outer declared names", AVD,
     lambda s: M.text_replace(s, "            method_vars: dict = {}", "            method_vars: dict = dict(frame.variables) if len(stack) > 1 else {}"),
     "method body frame starts from an empty table"),
    ("block frames get a copy of the table", AVD,
     lambda s: M.text_replace(s, "                        variables=frame.variables, ", "                        variables=dict(frame.variables), "),
     "nested statement bodies share the enclosing frame's table"),
    ("first declaring scope only", SH,
     lambda s: M.text_replace(s, "                symbol_name_to_scope_ids[symbol_name].add(row.scope_id)\n",
                              "                symbol_name_to_scope_ids[symbol_name].add(row.scope_id)\n                if len(symbol_name_to_scope_ids) > 4096:\n                    break\n"),
     "C05.R8"),
    ("closures re-homed to the class", SH,
     lambda s: M.text_replace(s, "                    if method_decl.parent_stmt_id == stmt.methods:\n                        # 只处理直接属于class的methods，不处理嵌套在其他method内部的闭包methods\n                        item = self.scope_space.find_first_by_id(method_decl.stmt_id)\n                        item.scope_id = stmt_id\n                        self.stmt_id_to_scope_id_cache[method_decl.stmt_id] = stmt_id",
                              "                    if True:\n                        item = self.scope_space.find_first_by_id(method_decl.stmt_id)\n                        item.scope_id = stmt_id\n                        self.stmt_id_to_scope_id_cache[method_decl.stmt_id] = stmt_id"),
     "re-home class_stmt_ids -> method_decl::direct children only"),
    ("nested-nested classes re-homed to the outer class", SH,
     lambda s: M.text_replace(s, "                    if class_decl.parent_stmt_id != stmt.nested:\n", "                    if False:\n"),
     "re-home class_stmt_ids -> class_decl::direct children only"),
    ("latest declaration wins", RS,
     lambda s: M.text_replace(s, "nearest_scope_id = max(target_scope_ids)",
                              "nearest_scope_id = max(target_scope_ids, key = lambda scope_id: unit_symbol_decl_summary.scope_id_to_symbol_info[scope_id][symbol_name])"),
     "innermost visible declaring scope"),
    ("on-demand import analysis dropped", IH,
     lambda s: M.text_replace(s, "                    if candidate_node.symbol_type == LIAN_SYMBOL_KIND.UNIT_SYMBOL:\n                        self.analyze_unit_import_stmts(candidate_node.symbol_id)\n", ""),
     "a matched module's imports are analysed on demand"),
    ("re-export edges not followed", IH,
     lambda s: M.text_replace(s, "                    children_list = util.graph_successors(self.import_graph, candidate_node.symbol_id)",
                              "                    children_list = util.graph_successors_with_weight(self.import_graph, candidate_node.symbol_id, IMPORT_GRAPH_EDGE_KIND.INTERNAL_SYMBOL)"),
     "default mode: edges of kind EXTERNAL_SYMBOL are followed"),
    ("variable owner = parent statement", SH,
     lambda s: M.text_replace(s, "elif row.operation in VARIABLE_DECL_OPERATION:\n                scope_id = self.determine_scope(row.parent_stmt_id)",
                              "elif row.operation in VARIABLE_DECL_OPERATION:\n                scope_id = row.parent_stmt_id"),
     "Scope(scope_kind=VARIABLE_DECL) owner"),
    ("for statements no longer open a scope", SH,
     lambda s: M.text_replace(s, "                self.scope_space.add(for_stmt_scope)\n                self.all_scope_ids.add(stmt_id)",
                              "                self.scope_space.add(for_stmt_scope)"),
     "owners in self.for_stmt_ids open a scope"),
    ("with kind loses its visibility entry", SH,
     lambda s: M.text_replace(s, "                    LIAN_SYMBOL_KIND.FOR_KIND,\n                    LIAN_SYMBOL_KIND.WITH_KIND,\n            ]:",
                              "                    LIAN_SYMBOL_KIND.FOR_KIND,\n            ]:"),
     "scope kind WITH_KIND opens a scope"),
    ("determine_scope recursion off the parent chain", SH,
     lambda s: M.text_replace(s, "result = self.determine_scope(stmt.parent_stmt_id)", "result = self.determine_scope(stmt.stmt_id - 1)"),
     "determine_scope::recursive step"),
    ("determine_scope membership inverted", SH,
     lambda s: M.text_replace(s, "if stmt.stmt_id not in self.all_scope_ids:", "if stmt.stmt_id in self.all_scope_ids:"),
     "own id only for scope statements"),
    ("parameter re-homing forgets the cache", SH,
     lambda s: M.text_replace(s, "                    item.scope_id = stmt_id\n                    self.stmt_id_to_scope_id_cache[parameter_decl.stmt_id] = stmt_id",
                              "                    item.scope_id = stmt_id"),
     "re-home method_stmt_ids -> parameter_decl::cache"),
    ("field re-homing to the fields block", SH,
     lambda s: M.text_replace(s, "                    item = self.scope_space.find_first_by_id(variable_decl.stmt_id)\n                    item.scope_id = stmt_id\n                    self.stmt_id_to_scope_id_cache[variable_decl.stmt_id] = stmt_id\n\n                    util.add_to_dict_with_default_set(\n                        self.class_id_to_class_field_ids",
                              "                    item = self.scope_space.find_first_by_id(variable_decl.stmt_id)\n                    item.scope_id = stmt.fields\n                    self.stmt_id_to_scope_id_cache[variable_decl.stmt_id] = stmt_id\n\n                    util.add_to_dict_with_default_set(\n                        self.class_id_to_class_field_ids"),
     "re-home class_stmt_ids -> variable_decl::owner"),
    ("visibility flows downward", SH,
     lambda s: M.text_replace(s, "scope_id_to_available_scope_ids[row.stmt_id].add(row.scope_id)",
                              "scope_id_to_available_scope_ids[row.stmt_id].add(row.scope_id)\n                scope_id_to_available_scope_ids.setdefault(row.scope_id, set())\n                scope_id_to_available_scope_ids[row.scope_id].add(row.stmt_id)"),
     "scope_id_to_available_scope_ids[row.scope_id].add(row.stmt_id)"),
    ("declaring scope recorded as the parent statement", SH,
     lambda s: M.text_replace(s, "symbol_name_to_scope_ids[symbol_name].add(row.scope_id)", "symbol_name_to_scope_ids[symbol_name].add(row.parent_stmt_id)"),
     "symbol_name_to_scope_ids[name].add"),
    ("declaration table keyed by the raw name", SH,
     lambda s: M.text_replace(s, "scope_id_to_symbol_info[row.scope_id][symbol_name] = row.stmt_id", "scope_id_to_symbol_info[row.scope_id][row.name] = row.stmt_id"),
     "both tables use the same name"),
    ("parameters dropped from the name tables", SH,
     lambda s: M.text_replace(s, "                    LIAN_SYMBOL_KIND.VARIABLE_DECL,\n                    LIAN_SYMBOL_KIND.PARAMETER_DECL,\n                    LIAN_SYMBOL_KIND.CLASS_KIND,",
                              "                    LIAN_SYMBOL_KIND.VARIABLE_DECL,\n                    LIAN_SYMBOL_KIND.CLASS_KIND,"),
     "declaration kind PARAMETER_DECL entered"),
    ("closure inherits from every known scope", SH,
     lambda s: M.text_replace(s, "                tmp_id = wl.pop()\n", "                tmp_id = wl.pop()\n                tmp_id = tmp_id + 1\n"),
     "|= scope_id_to_available_scope_ids[tmp_id]"),
    ("outermost wins", RS,
     lambda s: M.text_replace(s, "nearest_scope_id = max(target_scope_ids)", "nearest_scope_id = min(target_scope_ids)"),
     "innermost visible declaring scope"),
    ("visibility ignored", RS,
     lambda s: M.text_replace(s, "target_scope_ids = (implicit_root_scope_ids | available_scope_ids) & symbol_decl_scope_ids",
                              "target_scope_ids = symbol_decl_scope_ids"),
     "innermost visible declaring scope"),
    ("visible scopes of the declaration instead of the use", RS,
     lambda s: M.text_replace(s, "current_scope = self.loader.convert_stmt_id_to_scope_id(stmt_id)",
                              "current_scope = self.loader.convert_stmt_id_to_scope_id(stmt_id - 1)"),
     "innermost visible declaring scope"),
    ("unresolved marker positive", RS,
     lambda s: M.text_replace(s, "default_return = SourceSymbolScopeInfo(unit_id, -1, -1)", "default_return = SourceSymbolScopeInfo(unit_id, 0, -1)"),
     "unresolved marker"),
    ("global resolved lexically", DU,
     lambda s: M.text_replace(s, "source_symbol_must_be_global = True", "source_symbol_must_be_global = False"),
     "::global"),
    ("uses resolved from the parent statement", DU,
     lambda s: M.text_replace(s, "            source_info = self.resolver.resolve_symbol_source_decl(\n                self.unit_id, stmt_id, used_symbol.name\n            )",
                              "            source_info = self.resolver.resolve_symbol_source_decl(\n                self.unit_id, stmt.parent_stmt_id, used_symbol.name\n            )"),
     "add_status_with_symbol_id_sync::lookup"),
    ("unresolved names share one id", DU,
     lambda s: M.text_replace(s, "                    if used_symbol.name in self.external_symbol_id_collection:\n                        source_info.source_symbol_id = self.external_symbol_id_collection[used_symbol.name]\n                    else:\n                        source_info.source_symbol_id = self.loader.assign_new_unique_negative_id()\n                        self.external_symbol_id_collection[used_symbol.name] = source_info.source_symbol_id",
                              "                    source_info.source_symbol_id = -1"),
     "unresolved names get one negative id per name"),
]
