"""C01 -- lowering Python source to GIR preserves program behaviour (DESIGN section 3, C01).

Observable equivalence of emitted GIR and CPython needs an executable GIR semantics: not static.
Decided on lang/python_parser.py (E5 = lowering provenance inside one handler) and the two
post-lowering normalisers: structural obligations each of which, when broken, changes the meaning of
infinitely many programs.
"""
from __future__ import annotations

import ast
from typing import Dict, List, Optional, Set, Tuple

from ..astutil import is_const
from ..cfg import cfg_of
from ..model import AnalysisError, ClassInfo, Func, RepoModel, call_name, const_str, dotted, is_self_attr, literal, norm, walk_no_nested

PY = "lang/python_parser.py"
AVD = "events/default_event_handlers/add_var_decl.py"


# --------------------------------------------------------------------------- E5
class Prov:
    """per-handler lowering provenance."""

    def __init__(self, f: Func):
        self.f = f
        self.node_param = f.params[1] if len(f.params) > 1 else "node"
        self.stmts_param = next((p for p in f.params if p == "statements"), None)
        self.child_tag: Dict[str, str] = {}          # local -> tag of the tree-sitter child it holds
        self.parsed: Dict[str, Tuple[str, Optional[str], int]] = {}   # local -> (tag of the parsed child, list it was parsed into, line)
        self.parse_calls: List[Tuple[ast.Call, str, Optional[str], int]] = []
        self.lists: Set[str] = set()
        for n in walk_no_nested(f.node):
            if isinstance(n, ast.Assign) and len(n.targets) == 1 and isinstance(n.targets[0], ast.Name):
                v, e = n.targets[0].id, n.value
                t = self.tag_of(e)
                if t:
                    self.child_tag[v] = t
                if isinstance(e, ast.List) and not e.elts:
                    self.lists.add(v)
        for n in walk_no_nested(f.node):
            if isinstance(n, ast.Call) and is_self_attr(n.func, "parse") and n.args:
                src = n.args[0]
                tag = self.child_tag.get(src.id, f"var:{src.id}") if isinstance(src, ast.Name) else (self.tag_of(src) or norm(src))
                lst = n.args[1].id if len(n.args) > 1 and isinstance(n.args[1], ast.Name) else (None if len(n.args) < 2 else norm(n.args[1]))
                self.parse_calls.append((n, tag, lst, n.lineno))
        for n in walk_no_nested(f.node):
            if isinstance(n, ast.Assign) and len(n.targets) == 1 and isinstance(n.targets[0], ast.Name) and isinstance(n.value, ast.Call):
                for c, tag, lst, line in self.parse_calls:
                    if n.value is c:
                        self.parsed[n.targets[0].id] = (tag, lst, line)

    def tag_of(self, e) -> Optional[str]:
        if isinstance(e, ast.Call) and isinstance(e.func, ast.Attribute) and e.func.attr in ("find_child_by_field", "find_children_by_field") and len(e.args) == 2:
            s = const_str(e.args[1])
            return f"field:{s}" if s else None
        if isinstance(e, ast.Call) and isinstance(e.func, ast.Attribute) and e.func.attr in ("find_child_by_type", "find_children_by_type") and len(e.args) == 2:
            s = const_str(e.args[1])
            return f"type:{s}" if s else None
        if isinstance(e, ast.Subscript) and isinstance(e.value, ast.Attribute) and e.value.attr in ("named_children", "children") \
                and isinstance(e.value.value, ast.Name):
            k = e.slice
            if isinstance(k, ast.UnaryOp) and isinstance(k.op, ast.USub) and isinstance(k.operand, ast.Constant):
                return f"child:-{k.operand.value}"
            if isinstance(k, ast.Constant):
                return f"child:{k.value}"
        return None

    def emitted(self, op: str) -> List[ast.Dict]:
        out = []
        for n in walk_no_nested(self.f.node):
            if isinstance(n, ast.Dict) and len(n.keys) == 1 and const_str(n.keys[0]) == op and isinstance(n.values[0], ast.Dict):
                out.append(n.values[0])
        return out

    @staticmethod
    def attr(d: ast.Dict, name: str) -> Optional[ast.AST]:
        for k, v in zip(d.keys, d.values):
            if k is not None and const_str(k) == name:
                return v
        return None

    def list_sources(self, lst: str) -> List[str]:
        """tags of the children parsed into list ``lst`` (directly, or through a helper receiving it)."""
        out = [tag for c, tag, l, line in self.parse_calls if l == lst]
        for n in walk_no_nested(self.f.node):
            if isinstance(n, ast.Call) and is_self_attr(n.func) and n.func.attr != "parse" and any(isinstance(a, ast.Name) and a.id == lst for a in n.args[1:]):
                a0 = n.args[0]
                out.append(f"via {n.func.attr}(" + (self.child_tag.get(a0.id, a0.id) if isinstance(a0, ast.Name) else norm(a0)) + ")")
        # for stmt in <child>.named_children: self.parse(stmt, lst)
        for n in walk_no_nested(self.f.node):
            if isinstance(n, ast.For) and isinstance(n.target, ast.Name):
                for c, tag, l, line in self.parse_calls:
                    if l == lst and tag == f"var:{n.target.id}" and any(x is c for x in ast.walk(n)):
                        base = n.iter
                        while isinstance(base, (ast.Attribute, ast.Subscript)):
                            base = base.value
                        if isinstance(base, ast.Name):
                            out.append("each of " + self.child_tag.get(base.id, base.id))
        return out


def handler_maps(cls: ClassInfo) -> Dict[str, str]:
    """node type -> handler method name, from the dict literals of the Parser class whose values are bound methods."""
    out: Dict[str, str] = {}
    for f in cls.methods.values():
        for n in walk_no_nested(f.node):
            if isinstance(n, ast.Dict) and len(n.keys) >= 3 and all(k is not None and const_str(k) is not None for k in n.keys) \
                    and all(is_self_attr(v) for v in n.values):
                for k, v in zip(n.keys, n.values):
                    out[const_str(k)] = v.attr
    return out


def run(model: RepoModel, rep, tier: str):
    rep.not_decided = ("arithmetic meaning of operators, default/keyword argument binding, correctness of self/this unification and of "
                       "declaration hoisting, anything about run-time values; equivalence with CPython for any concrete program")
    m = model.module(PY)
    P = m.classes.get("Parser")
    if P is None:
        raise AnalysisError("python_parser.Parser vanished")
    hm = handler_maps(P)
    handlers = sorted(set(hm.values()))
    rep.analysed.update({"node types dispatched": len(hm), "handlers": len(handlers)})
    if len(handlers) < 40:
        raise AnalysisError(f"only {len(handlers)} handlers found in the python frontend's maps (about 60 on the pinned tree)")

    rep.rule("C01.R1", "no dropped statement list: every list that receives lowered statements is consumed (spliced into the caller's "
                       "list, used as a body, or returned), and parse() is not called without a list for a node that can lower to statements", 30)
    rep.rule("C01.R2", "a loop condition is re-evaluated: the statements that compute it run before the loop and again at the end of "
                       "every iteration", 1)
    rep.rule("C01.R3", "branch arms are neither crossed nor dropped: then/else bodies come from the consequence/alternative children, "
                       "and an elif chain is passed on whole", 3)
    rep.rule("C01.R4", "operand and evaluation order: operand/operand2 come from the left/right child and the left child is lowered "
                       "first; call arguments are lowered in source order", 4)
    rep.rule("C01.R5", "returned value and assignment sides are taken from the right children", 2)
    rep.rule("C01.R6", "temporary elimination only merges `%v = e; d = %v` when the second statement is a pure copy and the first defines "
                       "that temporary, and removes exactly the copy", 5)

    all_methods = list(P.methods.values())
    # ------------------------------------------------------------------ R1
    n_lists = 0
    for f in all_methods:
        pv = Prov(f)
        # (a) parse() without a statement list
        for c, tag, lst, line in pv.parse_calls:
            if len(c.args) >= 2 or any(k.arg == "statements" for k in c.keywords):
                continue
            key = f"{PY}::{f.qualname}::`self.parse({norm(c.args[0])})` without a statement list"
            provable_leaf = tag.startswith("type:identifier") or tag in ("field:name",) and False
            if provable_leaf:
                rep.holds("C01.R1", key, PY, line, f"the node is an identifier ({tag}): lowering it emits nothing")
            else:
                rep.violation("C01.R1", key, PY, line,
                              f"{f.qualname} lowers `{norm(c.args[0])}` ({tag}) with self.parse(x) and no statement list: whatever it lowers to "
                              f"(a call, a subscript, an operator) goes to parse()'s shared default list and is dropped, the returned "
                              f"temporary is never defined")
        # (b) lists that are filled but never consumed
        for lst in sorted(pv.lists):
            # "receives lowered statements": second argument of parse / of a handler taking (node, statements), first argument of
            # append_stmts, or an op dict appended to it
            def _is_op_dict(e):
                return isinstance(e, ast.Dict) and len(e.keys) == 1 and e.keys[0] is not None and const_str(e.keys[0]) is not None \
                    and isinstance(e.values[0], (ast.Dict, ast.Name))
            filled = [1 for c, tag, l, line in pv.parse_calls if l == lst] or any(
                isinstance(n, ast.Call) and (
                    (is_self_attr(n.func, "append_stmts") and n.args and isinstance(n.args[0], ast.Name) and n.args[0].id == lst)
                    or (is_self_attr(n.func) and n.func.attr in P.methods and "statements" in P.methods[n.func.attr].params
                        and len(n.args) >= P.methods[n.func.attr].params.index("statements")
                        and isinstance(n.args[P.methods[n.func.attr].params.index("statements") - 1], ast.Name)
                        and n.args[P.methods[n.func.attr].params.index("statements") - 1].id == lst)
                    or (isinstance(n.func, ast.Attribute) and n.func.attr in ("append", "insert") and isinstance(n.func.value, ast.Name)
                        and n.func.value.id == lst and n.args and (_is_op_dict(n.args[-1]) or (isinstance(n.args[-1], ast.Call) and is_self_attr(n.args[-1].func, "add_col_row_info")))))
                for n in walk_no_nested(f.node))
            if not filled:
                continue
            n_lists += 1
            consumed = False
            for n in walk_no_nested(f.node):
                if isinstance(n, ast.Call) and isinstance(n.func, ast.Attribute) and n.func.attr in ("extend", "append", "insert") \
                        and not (isinstance(n.func.value, ast.Name) and n.func.value.id == lst) \
                        and any(isinstance(x, ast.Name) and x.id == lst for a in n.args for x in ast.walk(a)):
                    consumed = True
                if isinstance(n, ast.Dict) and any(isinstance(v, ast.Name) and v.id == lst for v in n.values):
                    consumed = True
                if isinstance(n, ast.Return) and n.value is not None and any(isinstance(x, ast.Name) and x.id == lst for x in ast.walk(n.value)):
                    consumed = True
                if isinstance(n, ast.Assign) and any(isinstance(t, ast.Subscript) for t in n.targets) and isinstance(n.value, ast.Name) and n.value.id == lst:
                    consumed = True
                if isinstance(n, ast.Assign) and isinstance(n.value, (ast.BinOp, ast.Name, ast.List)) and any(isinstance(x, ast.Name) and x.id == lst for x in ast.walk(n.value)) \
                        and not any(isinstance(t, ast.Name) and t.id == lst for t in n.targets):
                    consumed = True
                if isinstance(n, ast.For) and isinstance(n.iter, ast.Name) and n.iter.id == lst:
                    consumed = True
                if isinstance(n, ast.Subscript) and isinstance(n.ctx, ast.Load) and isinstance(n.value, ast.Name) and n.value.id == lst:
                    consumed = True     # elements are taken out one by one (and re-emitted elsewhere)
                if isinstance(n, ast.Call) and is_self_attr(n.func) and n.func.attr not in ("parse",) and any(
                        isinstance(k.value, ast.Name) and k.value.id == lst for k in n.keywords):
                    consumed = True
            key = f"{PY}::{f.qualname}::list `{lst}`"
            if consumed:
                rep.holds("C01.R1", key, PY, f.node.lineno, "filled with lowered statements and consumed")
            else:
                # passed positionally to a helper *after* being filled also counts as consumption
                later = any(isinstance(n, ast.Call) and is_self_attr(n.func) and n.func.attr != "parse" and
                            any(isinstance(a, ast.Name) and a.id == lst for a in n.args) for n in walk_no_nested(f.node))
                if later:
                    rep.holds("C01.R1", key, PY, f.node.lineno, "handed to a helper")
                else:
                    rep.violation("C01.R1", key, PY, f.node.lineno,
                                  f"{f.qualname} lowers statements into the list `{lst}` but never splices it into the output, uses it as a body "
                                  f"or returns it: those statements disappear from the GIR")
    rep.analysed["statement lists examined"] = n_lists

    # ------------------------------------------------------------------ R2
    for hname in sorted({h for t, h in hm.items() if t in ("while_statement",)}):
        f = P.methods.get(hname)
        if f is None:
            continue
        pv = Prov(f)
        for d in pv.emitted("while_stmt"):
            key = f"{PY}::{f.qualname}::while condition re-evaluated"
            cond = pv.attr(d, "condition")
            body = pv.attr(d, "body")
            if not (isinstance(cond, ast.Name) and cond.id in pv.parsed and isinstance(body, ast.Name)):
                rep.unknown("C01.R2", key, PY, d.lineno, "shape of the emitted while_stmt not recognised")
                continue
            tag, clist, line = pv.parsed[cond.id]
            probs = []
            if tag != "field:condition":
                probs.append(f"the condition is lowered from {tag}, not from the `condition` child")
            if clist is None or clist == pv.stmts_param:
                # lowered straight into the caller's list: evaluated once before the loop only
                probs.append("the condition's statements are lowered into the enclosing list only: they run once, before the loop")
            else:
                pre = any(isinstance(n, ast.Call) and isinstance(n.func, ast.Attribute) and n.func.attr == "extend" and isinstance(n.func.value, ast.Name)
                          and n.func.value.id == pv.stmts_param and n.args and isinstance(n.args[0], ast.Name) and n.args[0].id == clist
                          for n in walk_no_nested(f.node))
                again = any(isinstance(n, ast.Call) and isinstance(n.func, ast.Attribute) and n.func.attr == "extend" and isinstance(n.func.value, ast.Name)
                            and n.func.value.id == body.id and n.args and isinstance(n.args[0], ast.Name) and n.args[0].id == clist
                            for n in walk_no_nested(f.node)) or pv.attr(d, "condition_prebody") is not None
                if not pre:
                    probs.append("the condition's statements are not emitted before the loop")
                if not again:
                    probs.append("the condition's statements are not appended to the loop body (nor emitted as condition_prebody): the "
                                 "condition variable keeps its first value, so the loop never changes its decision")
                # the body must be lowered before the condition statements are appended to it
                body_parse = [ln for c, t2, l, ln in pv.parse_calls if l == body.id]
                ext_line = [n.lineno for n in walk_no_nested(f.node) if isinstance(n, ast.Call) and isinstance(n.func, ast.Attribute) and n.func.attr == "extend"
                            and isinstance(n.func.value, ast.Name) and n.func.value.id == body.id]
                if body_parse and ext_line and min(ext_line) < max(body_parse):
                    probs.append("the condition's statements are placed at the top of the body instead of its end")
            (rep.violation if probs else rep.holds)("C01.R2", key, PY, d.lineno,
                                                    (f"{f.qualname}: " + "; ".join(probs)) if probs else
                                                    "condition statements: statements.extend(c) before the loop and body.extend(c) after the body")

    # ------------------------------------------------------------------ R3
    expect = {   # handler -> (condition tag, then tags, else tags); grammar knowledge of tree-sitter-python, frozen with reasons
        "if_statement": ("field:condition", {"field:consequence"}, {"via parse_alternative(field:alternative)"}),
        "parse_alternative": ("field:condition", {"field:consequence"}, {"via parse_alternative(alter_list[1:])"}),
        "conditional_expression": ("child:1", {"child:0"}, {"child:2"}),   # `a if c else b`: named children are a, c, b
    }
    for hname, (ctag, ttags, etags) in expect.items():
        f = P.methods.get(hname)
        if f is None:
            raise AnalysisError(f"python handler {hname} vanished")
        pv = Prov(f)
        ds = pv.emitted("if_stmt")
        if not ds:
            rep.violation("C01.R3", f"{PY}::Parser.{hname}::emits if_stmt", PY, f.node.lineno, f"{hname} no longer emits an if_stmt")
            continue
        d = ds[-1]
        key = f"{PY}::Parser.{hname}::arms"
        cond, tb, eb = pv.attr(d, "condition"), pv.attr(d, "then_body"), pv.attr(d, "else_body")
        probs = []
        if isinstance(cond, ast.Name) and cond.id in pv.parsed:
            if pv.parsed[cond.id][0] != ctag:
                probs.append(f"condition lowered from {pv.parsed[cond.id][0]} (expected {ctag})")
        else:
            probs.append("condition is not the result of lowering the condition child")
        for nm, v, want in (("then_body", tb, ttags), ("else_body", eb, etags)):
            if not isinstance(v, ast.Name):
                probs.append(f"{nm} is not a list variable")
                continue
            srcs = set(pv.list_sources(v.id))
            if not (srcs & want):
                probs.append(f"{nm} holds the statements of {sorted(srcs) or 'nothing'} (expected {sorted(want)}): the arms are crossed or dropped")
        if isinstance(tb, ast.Name) and isinstance(eb, ast.Name) and tb.id == eb.id:
            probs.append("both arms are the same list")
        (rep.violation if probs else rep.holds)("C01.R3", key, PY, d.lineno,
                                                (f"{hname}: " + "; ".join(probs)) if probs else f"condition <- {ctag}; then <- {sorted(ttags)}; else <- {sorted(etags)}")
    # else-clause of the chain: every statement of its body is lowered
    pa = P.methods["parse_alternative"]
    key = f"{PY}::Parser.parse_alternative::else clause lowered whole"
    ok = any(isinstance(n, ast.For) and "named_children" in norm(n.iter) and any(isinstance(x, ast.Call) and is_self_attr(x.func, "parse") for x in ast.walk(n))
             for n in walk_no_nested(pa.node))
    (rep.holds if ok else rep.violation)("C01.R3", key, PY, pa.node.lineno,
                                         "for stmt in body.named_children: self.parse(stmt, statements)" if ok else "the else clause's body is not lowered statement by statement")

    # ------------------------------------------------------------------ R4
    for hname in ("binary_comparison_operator", "boolean_operator"):
        f = P.methods.get(hname)
        if f is None:
            raise AnalysisError(f"python handler {hname} vanished")
        pv = Prov(f)
        ds = [d for d in pv.emitted("assign_stmt") if pv.attr(d, "operand2") is not None]
        key = f"{PY}::Parser.{hname}::operand order"
        if not ds:
            rep.violation("C01.R4", key, PY, f.node.lineno, f"{hname} emits no binary assign_stmt")
            continue
        d = ds[-1]
        a, b, op = pv.attr(d, "operand"), pv.attr(d, "operand2"), pv.attr(d, "operator")
        probs = []
        if not (isinstance(a, ast.Name) and isinstance(b, ast.Name) and a.id in pv.parsed and b.id in pv.parsed):
            probs.append("operands are not the results of lowering the children")
        else:
            (ta, la, lna), (tb_, lb, lnb) = pv.parsed[a.id], pv.parsed[b.id]
            if ta not in ("child:0", "field:left"):
                probs.append(f"operand comes from {ta}, not the left/first child")
            if tb_ not in ("child:-1", "field:right"):
                probs.append(f"operand2 comes from {tb_}, not the right/last child")
            if la != lb or la != pv.stmts_param:
                probs.append("the two operands are lowered into different lists")
            if lna > lnb:
                probs.append("the right operand is lowered before the left one: side effects happen in the wrong order")
        if not (isinstance(op, ast.Name) and any(isinstance(n, ast.Assign) and isinstance(n.targets[0], ast.Name) and n.targets[0].id == op.id
                                                and isinstance(n.value, ast.Call) and (call_name(n.value) or "").endswith("read_node_text") for n in walk_no_nested(f.node))):
            probs.append("the operator is not the text of the operator child")
        (rep.violation if probs else rep.holds)("C01.R4", key, PY, d.lineno,
                                                (f"{hname}: " + "; ".join(probs)) if probs else "operand <- left (lowered first), operand2 <- right, operator <- operator text")
    for hname, field in (("unary_operator", "field:argument"), ("not_operator", "field:argument")):
        f = P.methods.get(hname)
        if f is None:
            raise AnalysisError(f"python handler {hname} vanished")
        pv = Prov(f)
        ds = pv.emitted("assign_stmt")
        key = f"{PY}::Parser.{hname}::operand"
        d = ds[-1] if ds else None
        a = pv.attr(d, "operand") if d is not None else None
        opx = pv.attr(d, "operator") if d is not None else None
        ok = isinstance(a, ast.Name) and a.id in pv.parsed and pv.parsed[a.id][0] == field and opx is not None and pv.attr(d, "operand2") is None
        (rep.holds if ok else rep.violation)("C01.R4", key, PY, f.node.lineno,
                                             f"operand <- {field}, operator kept" if ok else f"{hname} no longer emits `target = <operator> <argument>`")
    ce = P.methods.get("call_expression")
    if ce is None:
        raise AnalysisError("python handler call_expression vanished")
    key = f"{PY}::Parser.call_expression::arguments lowered in source order after the callee"
    src = ast.get_source_segment(m.source, ce.node) or ""
    loops = [n for n in walk_no_nested(ce.node) if isinstance(n, ast.For) and ("named_children" in norm(n.iter) or "children" in norm(n.iter))]
    rev = [n for n in loops if isinstance(n.iter, ast.Call) and call_name(n.iter) in ("reversed", "sorted")]
    # the list by role: whatever is emitted under the key "positional_args"
    pos_lists = {v.id for n in walk_no_nested(ce.node) if isinstance(n, ast.Dict)
                 for k, v in zip(n.keys, n.values) if k is not None and const_str(k) == "positional_args" and isinstance(v, ast.Name)}
    appends_pos = any(isinstance(n, ast.Call) and isinstance(n.func, ast.Attribute) and n.func.attr == "append"
                      and isinstance(n.func.value, ast.Name) and n.func.value.id in pos_lists
                      for lp in loops for n in ast.walk(lp))
    if loops and not rev and appends_pos:
        rep.holds("C01.R4", key, PY, ce.node.lineno, f"{len(loops)} loop(s) over the argument children in order; positional arguments appended")
    else:
        rep.violation("C01.R4", key, PY, ce.node.lineno,
                      "call_expression does not lower the arguments by walking the argument children in source order into positional_args")

    # ------------------------------------------------------------------ R5
    rs = P.methods.get("return_statement")
    if rs is None:
        raise AnalysisError("python handler return_statement vanished")
    pv = Prov(rs)
    ds = pv.emitted("return_stmt")
    key = f"{PY}::Parser.return_statement::returned value"
    nm = pv.attr(ds[-1], "name") if ds else None
    ok = isinstance(nm, ast.Name) and nm.id in pv.parsed and pv.parsed[nm.id][0] in ("child:0", "var:name") or (
        isinstance(nm, ast.Name) and nm.id in pv.parsed and pv.child_tag.get("name") == "child:0")
    (rep.holds if ok else rep.violation)("C01.R5", key, PY, rs.node.lineno,
                                         "return_stmt.name <- lowering of the first child" if ok else "return_stmt.name is not the lowered value of the return's child")
    asg = P.methods.get("assignment")
    key = f"{PY}::Parser.assignment::sides"
    if asg is None:
        rep.unknown("C01.R5", key, PY, 0, "assignment handler not found")
    else:
        pv = Prov(asg)
        lt = [v for v, t in pv.child_tag.items() if t == "field:left"]
        rt = [v for v, t in pv.child_tag.items() if t == "field:right"]
        r_parsed = [v for v, (t, l, ln) in pv.parsed.items() if t == "field:right"]
        # the right side is lowered before any write to the left side is emitted, and an emitted store takes its source from it
        ds = pv.emitted("assign_stmt")
        uses_right = any(isinstance(pv.attr(d, "operand"), ast.Name) and pv.attr(d, "operand").id in r_parsed for d in ds)
        if lt and rt and r_parsed and uses_right:
            rep.holds("C01.R5", key, PY, asg.node.lineno, "target side from field `left`, value from the lowered field `right`")
        else:
            rep.violation("C01.R5", key, PY, asg.node.lineno,
                          "assignment no longer takes the stored value from the lowered `right` child / the target from the `left` child")

    check_tmp_elimination(model, rep, "C01.R6")
    check_self_unification(model, rep, P, handlers)
    check_receiver_param_removal(model, rep, "C01.R7")
    check_default_values(model, rep, P)
    from .c05 import _r9_hoisting
    _r9_hoisting(model, rep, "C01.R9")
    # ------------------------------------------------------------------ R10..R12 (cross-cutting loop / call-shape rules)
    from .. import generic2
    rep.rule("C01.R10", "no element of a repeated construct is lost: a value the Python frontend computes for every child of a node (one name of a "
                        "`global a, b`, one except clause, one deleted target) is handed on inside that iteration, not once after the loop", 20)
    generic2.check_per_iteration_values(model, rep, "C01.R10", [PY, "lang/common_parser.py"])
    rep.rule("C01.R11", "augmented assignment keeps operand order: `t op= e` and `place op= e` lower to old-value <op> e", 4)
    generic2.check_augmented_operand_order(model, rep, "C01.R11", [PY])
    _r13_keyword_selectors(model, rep)
    rep.rule("C01.R12", "the tree rewriters of the normalisation passes hand their state down: a recursive call that forwards some of its state "
                        "parameters unchanged forwards all of them", 2)
    generic2.check_recursion_forwarding(model, rep, "C01.R12", ["events/default_event_handlers/basic.py", "events/default_event_handlers/add_var_decl.py",
                                                              "lang/common_parser.py"])
    # ------------------------------------------------------------------ R14..R16 (round 6)
    from .. import generic4, gir
    vocab = {e.op for lg, mod in gir.frontend_modules(model, gir.SEVEN) for e in gir.emissions_in_module(lg, mod) if e.op != "<dynamic>"}
    rep.rule("C01.R14", "only declarations stay outside the unit initialiser: the test that keeps a top-level row at module level, evaluated "
                        "over every operation name the frontends emit, selects *_decl rows and import/export rows only", 1)
    generic4.check_operation_predicates(model, rep, "C01.R14", vocab)
    rep.rule("C01.R15", "slice parts are picked by position consistently: `part = None if <test> else tokens[P]` holds exactly when position P is a "
                        "colon or outside the token list", 5)
    generic4.check_slice_positions(model, rep, "C01.R15")
    rep.rule("C01.R16", "element indices count elements: a loop that numbers the children of a list/tuple literal with enumerate() does not skip "
                        "children (comments) inside the counted loop", 2)
    generic4.check_skip_counted_indices(model, rep, "C01.R16", [PY])


def _r13_keyword_selectors(model: RepoModel, rep):
    """The source-text preprocessors that run before parsing pick the lines they rewrite by a leading keyword.  The test has to match
    the keyword as a whole word: `startswith("import ")`, or a regular expression in which the keyword is followed by a boundary or a
    non-word character.  A bare prefix also selects statements whose first identifier merely begins with the keyword
    (`imported = load()`), which are then rewritten into something else and vanish from the GIR."""
    import keyword as _kw
    import re._parser as sre
    rep.rule("C01.R13", "source preprocessors select lines by a whole keyword: a prefix test on a line ends the keyword with a delimiter", 1)
    BASIC_ = "events/default_event_handlers/basic.py"
    n = 0
    for f in model.module(BASIC_).all_funcs():
        if not f.name.startswith("preprocess"):
            continue
        for c in walk_no_nested(f.node):
            if not isinstance(c, ast.Call):
                continue
            word = rest_ok = None
            if isinstance(c.func, ast.Attribute) and c.func.attr == "startswith" and c.args and isinstance(c.args[0], ast.Constant) and isinstance(c.args[0].value, str):
                txt = c.args[0].value
                m = __import__("re").match(r"[A-Za-z_]+", txt)
                if not m or not _kw.iskeyword(m.group(0)):
                    continue
                word, rest_ok = m.group(0), len(txt) > m.end() and not (txt[m.end()].isalnum() or txt[m.end()] == "_")
            elif (call_name(c) or "") in ("re.match", "re.search", "re.fullmatch") and c.args and isinstance(c.args[0], ast.Constant) and isinstance(c.args[0].value, str):
                try:
                    items = list(sre.parse(c.args[0].value))
                except Exception:
                    continue
                i = 0
                while i < len(items) and str(items[i][0]) in ("AT",):      # leading ^
                    i += 1
                w = ""
                while i < len(items) and str(items[i][0]) == "LITERAL" and (chr(items[i][1]).isalnum() or chr(items[i][1]) == "_"):
                    w += chr(items[i][1])
                    i += 1
                if not w or not _kw.iskeyword(w):
                    continue
                word = w
                if i >= len(items):
                    rest_ok = (call_name(c) == "re.fullmatch")
                else:
                    op, av = str(items[i][0]), items[i][1]
                    rest_ok = (op == "AT" and "BOUNDARY" in str(av) and "NON" not in str(av)) or (op == "LITERAL" and not (chr(av).isalnum() or chr(av) == "_")) \
                        or (op == "IN" and all(str(x[0]) == "CATEGORY" and "SPACE" in str(x[1]) and "NOT" not in str(x[1]) for x in av)) \
                        or (op == "MAX_REPEAT" and av[0] >= 1 and all(str(x[0]) == "IN" and all(str(y[0]) == "CATEGORY" and "SPACE" in str(y[1]) and "NOT" not in str(y[1])
                                                                                               for y in x[1]) for x in av[2]))
            if word is None:
                continue
            n += 1
            key = f"{BASIC_}::{f.qualname}::lines selected by the keyword `{word}`::whole word"
            if rest_ok:
                rep.holds("C01.R13", key, BASIC_, c.lineno, f"`{norm(c)[:80]}`")
            else:
                rep.violation("C01.R13", key, BASIC_, c.lineno,
                              f"{f.qualname} selects the lines it rewrites with `{norm(c)[:80]}`: nothing ends the keyword `{word}`, so a statement whose "
                              f"first identifier merely starts with it (`{word}ed = load()`, `{word}ance = 3`) is rewritten as if it were a "
                              f"`{word}` statement and its assignment disappears from the GIR")
    if not n:
        raise AnalysisError("no keyword line selector found in the preprocess_* handlers of basic.py")


def check_receiver_param_removal(model: RepoModel, rep, RID: str, declare: bool = False):
    """The helper that finds a method's receiver parameter also removes it from the parameter list.  Its caller guards the *renaming*
    for static methods, not the call, so the helper itself must leave static methods alone (shared by C01.R7 and C05.R10)."""
    if declare:
        rep.rule(RID, "the receiver parameter is removed only from methods that have one: the helper that pops the first parameter returns "
                      "before popping when the method is a staticmethod", 1)
    from ..cfg import cfg_of
    bm = model.module(BASIC)
    f = bm.functions.get("find_python_method_first_parameter")
    if f is None:
        raise AnalysisError("find_python_method_first_parameter vanished")
    cfg = cfg_of(f.node)
    key = f"{BASIC}::find_python_method_first_parameter::static methods keep their first parameter"
    stores = [n for n in cfg.g.nodes if cfg.kind[n] == "stmt" and isinstance(cfg.stmt[n], ast.Assign)
              and isinstance(cfg.stmt[n].targets[0], ast.Subscript) and const_str(cfg.stmt[n].targets[0].slice) == "parameters"]
    pops = [n for n in cfg.g.nodes for c in cfg.calls_at(n) if isinstance(c.func, ast.Attribute) and c.func.attr in ("pop", "remove")
            and "parameters" in norm(c.func.value)]
    dels = [n for n in cfg.g.nodes if cfg.kind[n] == "stmt" and isinstance(cfg.stmt[n], ast.Delete)]
    removal = stores + pops + dels
    if not removal:
        rep.holds(RID, key, BASIC, f.node.lineno, "the helper does not modify the parameter list")
        return
    guards = [t for (t, lab), b in cfg.branch_of.items() if lab == "F" and isinstance(cfg.stmt[t], ast.If)
              and any(isinstance(x, ast.Constant) and x.value == "staticmethod" for x in ast.walk(cfg.stmt[t].test))
              and any(isinstance(b_, ast.Return) for b_ in cfg.stmt[t].body)]
    ok = bool(guards) and all(any(cfg.dominates(cfg.branch_of[(g, "F")], r) for g in guards) for r in removal)
    if ok:
        rep.holds(RID, key, BASIC, cfg.stmt[removal[0]].lineno, "`if ... 'staticmethod' in attrs: return` dominates the removal of the first parameter")
    else:
        rep.violation(RID, key, BASIC, cfg.stmt[removal[0]].lineno,
                      "find_python_method_first_parameter removes the first parameter_decl from the method's parameter list without first "
                      "returning for a staticmethod; adjust_python_self only guards the renaming, not this call, so a @staticmethod loses "
                      "its first parameter: its uses in the body are unresolved or bind to a module-level variable of the same name")


def check_default_values(model: RepoModel, rep, P: ClassInfo):
    """C01.R8: a default value is evaluated when the `def` executes.  The frontend emits a default directly only for constant tokens;
    everything else is captured into a variable at the definition.  `identifier` is in the literal handler map, so `is_literal(x)`
    alone does not mean constant."""
    rep.rule("C01.R8", "default arguments are evaluated at the definition: a default value is attached to the parameter directly only under "
                       "a test that excludes names (`identifier` is handled by the literal map); every default-parameter branch agrees", 2)
    fd = P.methods.get("function_definition")
    if fd is None:
        raise AnalysisError("python handler function_definition vanished")
    lit_keys = set()
    for f in P.methods.values():
        for n in walk_no_nested(f.node):
            if isinstance(n, ast.Assign) and any(is_self_attr(t, "LITERAL_MAP") for t in n.targets) and isinstance(n.value, ast.Dict):
                lit_keys |= {const_str(k) for k in n.value.keys if k is not None and const_str(k)}
    names_are_literals = "identifier" in lit_keys
    rep.analysed["python literal map"] = sorted(lit_keys)
    pv = Prov(fd)
    n_found = 0
    for n in walk_no_nested(fd.node):
        if not (isinstance(n, ast.If) and any(isinstance(c, ast.Call) and is_self_attr(c.func, "is_literal") for c in ast.walk(n.test))):
            continue
        # the direct emission: parameter_decl.default_value <- parse(value child) inside the taken branch
        direct = False
        for d in (x for b in n.body for x in ast.walk(b)):
            if isinstance(d, ast.Dict):
                for k, v in zip(d.keys, d.values):
                    if k is not None and const_str(k) == "default_value" and isinstance(v, ast.Name) and v.id in pv.parsed:
                        direct = True
        if not direct:
            continue
        n_found += 1
        lit_arg = next(c.args[0] for c in ast.walk(n.test) if isinstance(c, ast.Call) and is_self_attr(c.func, "is_literal") and c.args)
        vname = lit_arg.id if isinstance(lit_arg, ast.Name) else None
        branch = None
        cur_if = n
        # which parameter kind this is: the nearest enclosing `== "<kind>"` comparison
        for outer in walk_no_nested(fd.node):
            if isinstance(outer, ast.If) and isinstance(outer.test, ast.Compare) and const_str(outer.test.comparators[0]) \
                    and any(x is n for b in outer.body for x in ast.walk(b)):
                branch = const_str(outer.test.comparators[0])
        key = f"{PY}::Parser.function_definition::{branch or 'default parameter'}::direct default only for constants"
        excl = any(isinstance(x, ast.Compare) and isinstance(x.ops[0], ast.NotEq) and isinstance(x.left, ast.Attribute) and x.left.attr == "type"
                   and isinstance(x.left.value, ast.Name) and x.left.value.id == vname and const_str(x.comparators[0]) == "identifier"
                   for x in ast.walk(n.test)) and isinstance(n.test, ast.BoolOp) and isinstance(n.test.op, ast.And)
        if not names_are_literals or excl:
            rep.holds("C01.R8", key, PY, n.lineno, f"`{norm(n.test)}`")
        else:
            rep.violation("C01.R8", key, PY, n.lineno,
                          f"the default value is attached directly under `{norm(n.test)}`; `identifier` has a literal handler, so a default that "
                          f"names a variable (`def f(a, b=limit)`) is stored by name and read when the function is called -- after the variable "
                          f"may have been rebound, or shadowed by an earlier parameter -- instead of being captured when the def executes")
    # the other arm: a non-constant default is captured into a variable of the ENCLOSING scope.  On every path on which the lowered
    # value is a non-empty plain name (not already a temporary) a fresh temporary takes its place before the parameter_decl is built
    fcfg = cfg_of(fd.node)
    n_capt = 0
    for nd in fcfg.g.nodes:
        st = fcfg.stmt.get(nd)
        if not (fcfg.kind[nd] == "stmt" and isinstance(st, ast.Assign) and len(st.targets) == 1 and isinstance(st.targets[0], ast.Name)
                and isinstance(st.value, ast.Name) and st.value.id in pv.parsed):
            continue
        T, S = st.targets[0].id, st.value.id
        # the emission that uses T as default_value
        emits = [n2 for n2 in fcfg.g.nodes for e_ in fcfg.exprs_at(n2) for d in ast.walk(e_) if isinstance(d, ast.Dict)
                 and any(k is not None and const_str(k) == "default_value" and isinstance(v, ast.Name) and v.id == T for k, v in zip(d.keys, d.values))
                 and n2 in fcfg.reachable(nd)]
        if not emits:
            continue
        n_capt += 1
        rebinds = {n2 for n2 in fcfg.g.nodes if fcfg.kind[n2] == "stmt" and isinstance(fcfg.stmt[n2], ast.Assign) and any(isinstance(t, ast.Name) and t.id == T for t in fcfg.stmt[n2].targets)
                   and isinstance(fcfg.stmt[n2].value, ast.Call) and is_self_attr(fcfg.stmt[n2].value.func, "tmp_variable")}
        # branches on which S is known to be empty, or already a temporary
        harmless = set()
        for (t_, lab), b in fcfg.branch_of.items():
            tst = fcfg.stmt[t_].test if isinstance(fcfg.stmt[t_], (ast.If, ast.While)) else None
            if tst is None:
                continue
            neg = False
            while isinstance(tst, ast.UnaryOp) and isinstance(tst.op, ast.Not):
                tst, neg = tst.operand, not neg
            truth = (lab == "T") != neg
            if isinstance(tst, ast.Name) and tst.id == S and not truth:
                harmless.add(b)
            if isinstance(tst, ast.Compare) and isinstance(tst.ops[0], ast.In) and norm(tst.left) == f"{S}[0]" and truth:
                harmless.add(b)
        key = f"{PY}::Parser.function_definition::`{T} = {S}`::a default that is a plain name is captured into a temporary"
        pth = fcfg.path_avoiding(nd, emits[0], rebinds | harmless)
        if pth is None:
            rep.holds("C01.R8", key, PY, st.lineno, "every path on which the lowered value is a non-empty plain name re-binds it to self.tmp_variable()")
        else:
            rep.violation("C01.R8", key, PY, st.lineno,
                          f"the lowered default `{S}` can reach `default_value` unchanged although it is a plain name ({' -> '.join(fcfg.describe_path(pth)[:7])}): "
                          f"`def step(base: int = base)` stores the NAME, which is then resolved inside the function being defined -- it hits the same-named "
                          f"parameter instead of the enclosing variable whose value the def captures")
    if n_found < 2:
        raise AnalysisError(f"only {n_found} default-parameter branch(es) with a direct emission found in function_definition")


BASIC = "events/default_event_handlers/basic.py"


def check_self_unification(model: RepoModel, rep, P: ClassInfo, handlers: List[str]):
    """C01.R7: the receiver rewriter (adjust_python_self) skips attribute keys only if no emission of the Python frontend puts a
    lowered expression under that key."""
    rep.rule("C01.R7", "self/this unification reaches every operand: an attribute key the rewriter skips never holds a lowered "
                       "expression in any instruction the Python frontend emits, and string operands are compared with the receiver name", 2)
    bm = model.module(BASIC)
    f = bm.functions.get("adjust_python_self")
    if f is None:
        raise AnalysisError("adjust_python_self vanished")
    loop = None
    for n in walk_no_nested(f.node):
        if isinstance(n, ast.For) and isinstance(n.iter, ast.Call) and isinstance(n.iter.func, ast.Attribute) and n.iter.func.attr == "items" \
                and isinstance(n.target, ast.Tuple) and len(n.target.elts) == 2 and all(isinstance(e, ast.Name) for e in n.target.elts):
            loop = n
    if loop is None:
        raise AnalysisError("adjust_python_self: generic `for key, value in obj.items()` loop not found")
    kv, vv = loop.target.elts[0].id, loop.target.elts[1].id
    skip: Dict[str, int] = {}
    unknown_tests = []
    for st in loop.body:
        if isinstance(st, ast.If) and any(isinstance(b, ast.Continue) for b in st.body):
            t = st.test
            if isinstance(t, ast.Compare) and isinstance(t.left, ast.Name) and t.left.id == kv and len(t.ops) == 1:
                if isinstance(t.ops[0], ast.Eq) and const_str(t.comparators[0]) is not None:
                    skip[const_str(t.comparators[0])] = st.lineno
                    continue
                if isinstance(t.ops[0], ast.In) and isinstance(t.comparators[0], (ast.Tuple, ast.List, ast.Set)) \
                        and all(const_str(e) is not None for e in t.comparators[0].elts):
                    for e in t.comparators[0].elts:
                        skip[const_str(e)] = st.lineno
                    continue
            unknown_tests.append(st)
    for st in unknown_tests:
        rep.unknown("C01.R7", f"{BASIC}::adjust_python_self::skip test `{norm(st.test)[:60]}`", BASIC, st.lineno, "skip condition not recognised")
    # attribute keys under which the Python frontend emits a lowered expression
    operand_keys: Dict[str, List[Tuple[str, str, int]]] = {}
    n_emissions = 0
    for hname in handlers:
        h = P.methods.get(hname)
        if h is None:
            continue
        pv = Prov(h)
        for n in walk_no_nested(h.node):
            if isinstance(n, ast.Dict) and len(n.keys) == 1 and const_str(n.keys[0]) and isinstance(n.values[0], ast.Dict):
                op = const_str(n.keys[0])
                n_emissions += 1
                for k, v in zip(n.values[0].keys, n.values[0].values):
                    a = const_str(k) if k is not None else None
                    if a is None:
                        continue
                    lowered = (isinstance(v, ast.Name) and v.id in pv.parsed) or (isinstance(v, ast.Call) and is_self_attr(v.func, "parse"))
                    if lowered:
                        operand_keys.setdefault(a, []).append((op, hname, n.lineno))
    rep.analysed["self unification"] = {"skipped keys": sorted(skip), "emissions inspected": n_emissions,
                                        "keys holding lowered expressions": sorted(operand_keys)}
    if not operand_keys:
        raise AnalysisError("no emission with a lowered expression found in the python frontend (recogniser broken)")
    for k, ln in sorted(skip.items()):
        key = f"{BASIC}::adjust_python_self::skipped key `{k}`"
        if k in operand_keys:
            op, hn, l2 = operand_keys[k][0]
            rep.violation("C01.R7", key, BASIC, ln,
                          f"the receiver rewriter skips attribute `{k}`, but {PY}::Parser.{hn} (line {l2}) emits {op}.{k} holding a lowered "
                          f"expression ({len(operand_keys[k])} emission(s) in all): when that expression is the method's first parameter it is "
                          f"not renamed to %this although the parameter itself was removed -- the instruction refers to an undeclared variable")
        else:
            rep.holds("C01.R7", key, BASIC, ln, f"no emission of the Python frontend puts a lowered expression under `{k}`")
    # the string comparison that performs the rewrite
    key = f"{BASIC}::adjust_python_self::operands equal to the receiver name are rewritten"
    hit = None
    for n in ast.walk(loop):
        if isinstance(n, ast.Assign) and isinstance(n.targets[0], ast.Subscript) and isinstance(n.targets[0].slice, ast.Name) \
                and n.targets[0].slice.id == kv:
            hit = n
    if hit is None:
        rep.violation("C01.R7", key, BASIC, loop.lineno, "the generic branch no longer rewrites string attributes equal to the receiver name")
    else:
        rep.holds("C01.R7", key, BASIC, hit.lineno, f"`{norm(hit)}` under `{vv} == first_parameter_name`")


def check_tmp_elimination(model: RepoModel, rep, RID: str):
    """shared by C01 (R6) and C02 (R5): the temporary-eliminating normaliser that runs on python/javascript/php GIR.
    Variables are identified by role (what they are computed from), not by name."""
    am = model.module(AVD)
    rt_ = am.functions.get("remove_unnecessary_tmp_variables_in_list")
    if rt_ is None:
        raise AnalysisError("remove_unnecessary_tmp_variables_in_list vanished")
    fn = rt_.node
    P0 = rt_.params[0] if rt_.params else None

    def info_pair(loop):
        """(index var, op var, content var) for `op, content = extract_stmt_info(P0[idx])` directly inside ``loop``"""
        idx = loop.target.id if isinstance(loop.target, ast.Name) else None
        for st in loop.body:
            if isinstance(st, ast.Assign) and isinstance(st.targets[0], ast.Tuple) and len(st.targets[0].elts) == 2 \
                    and all(isinstance(e, ast.Name) for e in st.targets[0].elts) and isinstance(st.value, ast.Call) and st.value.args \
                    and isinstance(st.value.args[0], ast.Subscript) and isinstance(st.value.args[0].value, ast.Name) \
                    and st.value.args[0].value.id == P0 and isinstance(st.value.args[0].slice, ast.Name) and st.value.args[0].slice.id == idx:
                return idx, st.targets[0].elts[0].id, st.targets[0].elts[1].id
        return idx, None, None

    from ..model import effective_body
    outer = next((n for n in effective_body(fn) if isinstance(n, ast.For) and isinstance(n.iter, ast.Call) and call_name(n.iter) == "range"), None)
    if outer is None:
        raise AnalysisError("remove_unnecessary_tmp_variables_in_list: backward loop over the statement list not found")
    I, CO, CC = info_pair(outer)
    inner = next((n for n in outer.body if isinstance(n, ast.For) and isinstance(n.iter, ast.Call) and call_name(n.iter) == "range"), None)
    K, PO, PC = info_pair(inner) if inner is not None else (None, None, None)

    def got(content: Optional[str], field: str) -> Set[str]:
        """locals assigned `content.get(field)`"""
        out = set()
        for n in ast.walk(outer):
            if isinstance(n, ast.Assign) and isinstance(n.targets[0], ast.Name) and _is_get(n.value, content, field):
                out.add(n.targets[0].id)
        return out

    def _is_get(e, content, field) -> bool:
        return isinstance(e, ast.Call) and isinstance(e.func, ast.Attribute) and e.func.attr == "get" and isinstance(e.func.value, ast.Name) \
            and e.func.value.id == content and e.args and const_str(e.args[0]) == field or \
            isinstance(e, ast.Subscript) and isinstance(e.value, ast.Name) and e.value.id == content and const_str(e.slice) == field

    guards = [n for n in outer.body if isinstance(n, ast.If) and any(isinstance(b, ast.Continue) for b in n.body)]
    first = guards[0] if guards else None
    t_nodes = list(ast.walk(first.test)) if first is not None else []
    checks = (
        ("is an assign_stmt", any(isinstance(x, ast.Compare) and isinstance(x.ops[0], ast.NotEq) and isinstance(x.left, ast.Name) and x.left.id == CO
                                  and const_str(x.comparators[0]) == "assign_stmt" for x in t_nodes),
         "another kind of statement is deleted as if it were a copy"),
        ("has no second operand", any(_is_get(x, CC, "operand2") for x in t_nodes), "`d = %v op x` is deleted as if it were `d = %v`"),
        ("has no operator", any(_is_get(x, CC, "operator") for x in t_nodes),
         "a unary statement `d = -%v` / `d = not %v` is treated as the copy `d = %v`: the operator is lost"))
    for what, ok, why in checks:
        key = f"{AVD}::remove_unnecessary_tmp_variables_in_list::the merged statement {what}"
        if CO is None or CC is None:
            rep.unknown(RID, key, AVD, outer.lineno, "current statement's (operation, content) pair not recognised")
        elif ok:
            rep.holds(RID, key, AVD, first.lineno, "tested by the skip condition")
        else:
            rep.violation(RID, key, AVD, first.lineno if first is not None else fn.lineno,
                          f"temporary elimination no longer checks that the statement it removes {what}: {why}")
    TV = got(CC, "operand")
    FT = got(CC, "target")
    key = f"{AVD}::remove_unnecessary_tmp_variables_in_list::the copied name is a compiler temporary"
    ok = any(isinstance(x, ast.Call) and isinstance(x.func, ast.Attribute) and x.func.attr == "startswith" and isinstance(x.func.value, ast.Name)
             and x.func.value.id in TV and x.args and (dotted(x.args[0]) or "").endswith("VARIABLE_DECL_PREF")
             for g in guards for x in ast.walk(g.test))
    (rep.holds if ok else rep.violation)(RID, key, AVD, fn.lineno,
                                         "operand.startswith(VARIABLE_DECL_PREF) required" if ok else "user variables are merged away like temporaries")
    key = f"{AVD}::remove_unnecessary_tmp_variables_in_list::the defining statement matches and exactly the copy is deleted"
    probs = []
    if inner is None or PO is None or PC is None:
        rep.unknown(RID, key, AVD, outer.lineno, "backward search for the defining statement not recognised")
        return
    PT = set()
    for n in ast.walk(inner):
        if isinstance(n, ast.Assign) and isinstance(n.targets[0], ast.Name) and _is_get(n.value, PC, "target"):
            PT.add(n.targets[0].id)
    merges = [n for n in ast.walk(inner) if isinstance(n, ast.If) and any(isinstance(b, ast.Delete) for b in n.body)]
    if not merges:
        probs.append("no merge site")
    else:
        mt = list(ast.walk(merges[0].test))
        same = any(isinstance(x, ast.Compare) and isinstance(x.ops[0], ast.Eq)
                   and {getattr(x.left, "id", None), getattr(x.comparators[0], "id", None)} & PT
                   and {getattr(x.left, "id", None), getattr(x.comparators[0], "id", None)} & TV for x in mt) or \
            any(isinstance(x, ast.Compare) and isinstance(x.ops[0], ast.Eq) and (_is_get(x.left, PC, "target") or _is_get(x.comparators[0], PC, "target"))
                and {getattr(x.left, "id", None), getattr(x.comparators[0], "id", None)} & TV for x in mt)
        if not same:
            probs.append("the previous statement's target is not compared with the temporary")
        if not any(isinstance(x, ast.Compare) and isinstance(x.ops[0], ast.In) and isinstance(x.left, ast.Name) and x.left.id == PO for x in mt):
            probs.append("the previous statement's kind is not checked against the allow-list")
        dl = [b for b in merges[0].body if isinstance(b, ast.Delete)][0]
        t0 = dl.targets[0]
        if not (len(dl.targets) == 1 and isinstance(t0, ast.Subscript) and isinstance(t0.value, ast.Name) and t0.value.id == P0
                and isinstance(t0.slice, ast.Name) and t0.slice.id == I):
            probs.append(f"`{norm(dl)}` deletes something other than the copy statement")
        if not any(isinstance(b, ast.Assign) and isinstance(b.targets[0], ast.Subscript) and isinstance(b.targets[0].value, ast.Name)
                   and b.targets[0].value.id == PC and const_str(b.targets[0].slice) == "target"
                   and (isinstance(b.value, ast.Name) and b.value.id in FT or _is_get(b.value, CC, "target")) for b in merges[0].body):
            probs.append("the defining statement's target is not redirected to the copy's target")
    if not isinstance(inner.body[-1], ast.Break):
        probs.append("the backward search does not stop at the first statement that is neither a declaration nor the definition: it merges across intervening statements")
    (rep.violation if probs else rep.holds)(RID, key, AVD, fn.lineno,
                                            ("remove_unnecessary_tmp_variables_in_list: " + "; ".join(probs)) if probs else
                                            "prev target == temporary, kind allow-listed, target redirected, the copy deleted, search stops at the first other statement")


# ---------------------------------------------------------------- self-test mutants
def _t(old, new, count=1):
    return lambda src: __import__("sa.mutate", fromlist=["x"]).text_replace(src, old, new, count)


MUTANTS = [
    ("slice-bounds-without-list", PY, _t("        start = self.parse(start, statements)", "        start = self.parse(start)"), "parse_slice"),
    ("while-cond-not-reevaluated", PY, _t("        new_while_body.extend(new_condition_init)\n", ""), "while condition re-evaluated"),
    ("while-cond-at-top", PY, _t("        self.parse(body, new_while_body)\n\n        statements.extend(new_condition_init)\n        new_while_body.extend(new_condition_init)",
                                 "        statements.extend(new_condition_init)\n        new_while_body.extend(new_condition_init)\n        self.parse(body, new_while_body)\n"), "while condition re-evaluated"),
    ("if-arms-crossed", PY, _t('{"if_stmt": {"condition": shadow_condition, "then_body": true_body, "else_body": false_body}})\n\n    # def for_statement',
                               '{"if_stmt": {"condition": shadow_condition, "then_body": false_body, "else_body": true_body}})\n\n    # def for_statement'), "if_statement::arms"),
    ("ternary-arms-crossed", PY, _t("        expr1 = self.parse(consequence, body)", "        expr1 = self.parse(alternative, body)"), "conditional_expression::arms"),
    ("elif-chain-truncated", PY, _t("        self.parse_alternative(alter_list[1:], false_body)", "        self.parse_alternative(alter_list[2:], false_body)"), "parse_alternative::arms"),
    ("binary-operands-swapped", PY, _t('        tmp_var = self.tmp_variable()\n        self.append_stmts(statements, node, {"assign_stmt": {"target": tmp_var, "operator": shadow_operator, "operand": shadow_left,\n                                           "operand2": shadow_right}})\n\n        return tmp_var\n\n    def unary_operator',
                                       '        tmp_var = self.tmp_variable()\n        self.append_stmts(statements, node, {"assign_stmt": {"target": tmp_var, "operator": shadow_operator, "operand": shadow_right,\n                                           "operand2": shadow_left}})\n\n        return tmp_var\n\n    def unary_operator'),
     "binary_comparison_operator::operand order"),
    ("boolean-right-first", PY, _t("        shadow_operator = self.read_node_text(operator)\n        shadow_left = self.parse(left, statements)\n        shadow_right = self.parse(right, statements)\n\n        tmp_var = self.tmp_variable()\n        self.append_stmts(statements, node, {\"assign_stmt\": {\"target\": tmp_var, \"operator\": shadow_operator, \"operand\": shadow_left,\n                                           \"operand2\": shadow_right}})\n\n        return tmp_var\n\n    def parse_type",
                                   "        shadow_operator = self.read_node_text(operator)\n        shadow_right = self.parse(right, statements)\n        shadow_left = self.parse(left, statements)\n\n        tmp_var = self.tmp_variable()\n        self.append_stmts(statements, node, {\"assign_stmt\": {\"target\": tmp_var, \"operator\": shadow_operator, \"operand\": shadow_left,\n                                           \"operand2\": shadow_right}})\n\n        return tmp_var\n\n    def parse_type"),
     "boolean_operator::operand order"),
    ("return-value-dropped", PY, _t('        self.append_stmts(statements, node, {"return_stmt": {"name": shadow_name}})', '        self.append_stmts(statements, node, {"return_stmt": {"name": ""}})'), "return_statement"),
    ("tmp-elim-ignores-operator", AVD, _t('            or curr_content.get("operand2") \n            or curr_content.get("operator")):', '            or curr_content.get("operand2")):'), "has no operator"),
    ("tmp-elim-deletes-definition", AVD, _t("                del stmts[i]", "                del stmts[k]"), "exactly the copy is deleted"),
    ("tmp-elim-searches-across", AVD, _t("            break #", "            continue #"), "exactly the copy is deleted"),
    ("else-body-dropped", PY, _t("        new_else_body = []\n        #self.sync_tmp_variable(new_else_body, statements)\n        if alternative is not None:\n            for stmt in alternative.named_children:\n                self.parse(stmt, new_else_body)\n\n        self.append_stmts(statements, node, {\"while_stmt\": {\"condition\": shadow_condition, \"body\": new_while_body, \"else_body\": new_else_body}})",
                                 "        new_else_body = []\n        #self.sync_tmp_variable(new_else_body, statements)\n        if alternative is not None:\n            for stmt in alternative.named_children:\n                self.parse(stmt, new_else_body)\n\n        self.append_stmts(statements, node, {\"while_stmt\": {\"condition\": shadow_condition, \"body\": new_while_body}})"),
     "list `new_else_body`"),
    ("default-names-read-at-call-time", PY, _t('                    if self.is_literal(parameter_value) and parameter_value.type != "identifier":\n                        shadow_value = self.parse(parameter_value, statements)\n                        parameter_decls.append(self.add_col_row_info(\n                            parameter,',
                                               '                    if self.is_literal(parameter_value):\n                        shadow_value = self.parse(parameter_value, statements)\n                        parameter_decls.append(self.add_col_row_info(\n                            parameter,'),
     "default_parameter::direct default only for constants"),
    ("staticmethod-loses-first-parameter", BASIC, _t('    if "attrs" in method_decl["method_decl"] and "staticmethod" in method_decl["method_decl"]["attrs"]:\n        return ""\n', ''),
     "static methods keep their first parameter"),
    ("self-unification-skips-name", BASIC, _t('                if key == "attrs":\n                    continue\n                if isinstance(value, (list, dict)):\n                    adjust_python_self',
                                              '                if key in ("attrs", "name"):\n                    continue\n                if isinstance(value, (list, dict)):\n                    adjust_python_self'),
     "skipped key `name`"),
    ("self-unification-no-rewrite", BASIC, _t("                elif first_parameter_name and isinstance(value, str) and value == first_parameter_name:\n                    obj[key] = LIAN_INTERNAL.THIS",
                                              "                elif first_parameter_name and isinstance(value, str) and value == first_parameter_name:\n                    pass"),
     "operands equal to the receiver name are rewritten"),
]
